package main

import (
	"fmt"
	"go/ast"
	"go/parser"
	"go/token"
	"os"
)

// `gvgen identzip <orig.go> <garbled.go>`: the identifiers of both files in source order (imports and the package
// clause excluded), paired up: "<offset in orig> <orig name> <garbled name>". Renaming keeps the token structure, so
// the sequences have equal length; otherwise the tool exits 3.
func identsOf(path string) ([]*ast.Ident, *token.File, error) {
	fset := token.NewFileSet()
	f, err := parser.ParseFile(fset, path, nil, parser.SkipObjectResolution)
	if err != nil {
		return nil, nil, err
	}
	var ids []*ast.Ident
	for _, d := range f.Decls {
		if gd, ok := d.(*ast.GenDecl); ok && gd.Tok == token.IMPORT {
			continue
		}
		ast.Inspect(d, func(n ast.Node) bool {
			if id, ok := n.(*ast.Ident); ok {
				ids = append(ids, id)
			}
			return true
		})
	}
	return ids, fset.File(f.Pos()), nil
}

func init() {
	if len(os.Args) >= 4 && os.Args[1] == "identzip" {
		a, fa, err := identsOf(os.Args[2])
		if err != nil {
			fmt.Fprintln(os.Stderr, err)
			os.Exit(1)
		}
		b, _, err := identsOf(os.Args[3])
		if err != nil {
			fmt.Fprintln(os.Stderr, err)
			os.Exit(1)
		}
		if len(a) != len(b) {
			fmt.Fprintf(os.Stderr, "identifier counts differ: %d vs %d\n", len(a), len(b))
			os.Exit(3)
		}
		for i := range a {
			fmt.Printf("%d %s %s\n", fa.Offset(a[i].Pos()), a[i].Name, b[i].Name)
		}
		os.Exit(0)
	}
}
