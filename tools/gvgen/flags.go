package main

import (
	"fmt"
	"strings"
)

// flag vocabulary: documented go flags (a sample), garble's own flags, unknown flags, values that look like flags or paths
var boolFlagNames = []string{"a", "race", "v", "x", "n", "work", "trimpath", "json", "cover", "short", "failfast", "benchmem", "buildvcs", "modcacherw", "linkshared", "asan", "msan", "artifacts", "fullpath", "c", "i"}
var valFlagNames = []string{"tags", "ldflags", "gcflags", "o", "p", "mod", "modfile", "run", "bench", "count", "timeout", "coverpkg", "covermode", "C", "overlay", "pgo", "pkgdir", "toolexec", "vet", "exec", "asmflags", "installsuffix", "buildmode", "compiler", "cpu", "list", "shuffle", "skip", "coverprofile", "outputdir"}
var otherFlagNames = []string{"literals", "tiny", "debug", "debugdir", "seed", "unknownflag", "h", "help", "workfile", "test.run", "args"}
var valuesPool = []string{"x", "./pkg", "./...", "main.go", "a.go", "my-debug", "x-tiny", "-tiny", "-literals=false", "-race", "a=b", "-X=main.v=1", "-s -w", "/tmp/out-seed", "", "-", "--", "=", "foo,bar", "3", "10s", "example.com/mod/pkg", "-debugdir=x", "pre-literals", "é", "\xff"}

func randFlagTok() []string {
	dash := "-"
	if rnd.IntN(4) == 0 {
		dash = "--"
	}
	switch r := rnd.IntN(20); {
	case r < 7:
		n := pick(boolFlagNames)
		if rnd.IntN(5) == 0 {
			return []string{dash + n + "=" + pick([]string{"true", "false", "1"})}
		}
		return []string{dash + n}
	case r < 16:
		n := pick(valFlagNames)
		if rnd.IntN(2) == 0 {
			return []string{dash + n + "=" + pick(valuesPool)}
		}
		return []string{dash + n, pick(valuesPool)}
	case r < 18:
		n := pick(otherFlagNames)
		if rnd.IntN(2) == 0 {
			return []string{dash + n + "=" + pick(valuesPool)}
		}
		return []string{dash + n}
	default:
		return []string{pick(valuesPool)}
	}
}

func randVector() []string {
	var v []string
	for k := rnd.IntN(6); k > 0; k-- {
		v = append(v, randFlagTok()...)
	}
	for k := rnd.IntN(3); k > 0; k-- {
		v = append(v, pick(valuesPool))
	}
	if rnd.IntN(6) == 0 {
		v = append(v, randFlagTok()...)
	}
	return v
}

func toksHex(v []string) string {
	h := make([]string, len(v))
	for i, s := range v {
		h[i] = hs(s)
	}
	return strings.Join(h, " ")
}

func emitOp(op string, pre []string, v []string) {
	line := op
	for _, p := range pre {
		line += " " + hs(p)
	}
	if len(v) > 0 {
		line += " " + toksHex(v)
	}
	emit("%s", line)
	stats[op]++
	stats[fmt.Sprintf("veclen_%d", min(len(v), 8))]++
}

func init() {
	streams["c20"] = func(n int) {
		for i := 0; i < n; i++ {
			v := randVector()
			switch r := rnd.IntN(100); {
			case r < 35:
				emitOp("split", nil, v)
			case r < 55:
				emitOp("filter", nil, v)
			case r < 62:
				emitOp("reject", nil, v)
			case r < 70:
				emitOp("fval", []string{"-" + pick(append(valFlagNames, "trimpath"))}, v)
			case r < 75:
				emitOp("fvals", []string{"-" + pick(valFlagNames)}, v)
			case r < 83:
				emitOp("fset", []string{"-" + pick(append(valFlagNames, "trimpath")), pick(valuesPool)}, v)
			case r < 88:
				emitOp("splitfiles", []string{pick([]string{".go", ".s", ".o"})}, append(v, pick([][]string{{"a.go", "b.go"}, {"x.s"}, {}, {"-p", "a.go"}})...))
			case r < 93:
				emitOp("trimpath", []string{"/tmp/garble-shared123"}, append(v, pick([][]string{{"-trimpath=/a=>b"}, {"-trimpath", "/x"}, {}, {"-trimpath"}})...))
			case r < 96:
				w := append([]string{}, v...)
				if rnd.IntN(4) != 0 {
					at := rnd.IntN(len(w) + 1)
					ins := pick([][]string{{"-C", "some/dir"}, {"-C=dir"}, {"--C", "d"}, {"--C=/abs/dir"}, {"-C"}})
					w = append(w[:at:at], append(ins, w[at:]...)...)
				}
				emitOp("chdirsplit", nil, w)
			default:
				t := randFlagTok()[0]
				if rnd.IntN(3) == 0 {
					t = pick(valuesPool)
				}
				emit("rxgarble %s", hs(t))
				stats["rxgarble"]++
			}
		}
	}
}
