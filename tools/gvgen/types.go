package main

import (
	"fmt"
	"go/token"
	"strings"
)

type fieldSpec struct {
	name string
	emb  bool
	typ  string
	tag  string
}

var fieldNames = []string{"F", "G", "H", "Name", "x", "y", "id", "Value", "Ünï", "ключ", "A1"}
var fieldTypes = []string{"int", "string", "[]byte", "*a.E0", "map[string]int", "a.Box[int]", "[3]int", "func(int) string",
	"chan int", "interface{}", "struct{ X int }", "a.AliasS", "a.E1", "[]a.Pair[string, int]", "*struct{ p *a.E0 }", "a.AliasE", "float64", "error"}
var embTypes = []struct{ typ, name string }{{"a.E0", "E0"}, {"*a.E1", "E1"}, {"a.AliasE", "AliasE"}, {"a.Box[int]", "Box"}, {"*a.Box[string]", "Box"}}
var tags = []string{"", "", `json:"a"`, `json:"b,omitempty"`, `x:"y"`}

func randShape() []fieldSpec {
	n := rnd.IntN(6)
	var fs []fieldSpec
	used := map[string]bool{}
	for len(fs) < n {
		if rnd.IntN(5) == 0 {
			e := pick(embTypes)
			if used[e.name] {
				continue
			}
			used[e.name] = true
			fs = append(fs, fieldSpec{e.name, true, e.typ, pick(tags)})
			continue
		}
		nm := pick(fieldNames)
		if used[nm] {
			continue
		}
		used[nm] = true
		fs = append(fs, fieldSpec{nm, false, pick(fieldTypes), pick(tags)})
	}
	return fs
}

func shapeSrc(fs []fieldSpec) string {
	var sb strings.Builder
	sb.WriteString("struct{")
	for i, f := range fs {
		if i > 0 {
			sb.WriteString("; ")
		}
		if f.emb {
			sb.WriteString(f.typ)
		} else {
			sb.WriteString(f.name + " " + f.typ)
		}
		if f.tag != "" {
			sb.WriteString(" `" + f.tag + "`")
		}
	}
	sb.WriteString("}")
	return sb.String()
}

func perturb(fs []fieldSpec) ([]fieldSpec, string) {
	out := append([]fieldSpec{}, fs...)
	if len(out) == 0 {
		return out, "none"
	}
	i := rnd.IntN(len(out))
	switch rnd.IntN(12) {
	case 0, 1, 2, 3:
		return out, "none"
	case 4:
		out[i].tag = `other:"tag"`
		return out, "tag"
	case 5:
		if out[i].emb {
			return out, "none"
		}
		out[i].name += "2"
		return out, "rename"
	case 6:
		if len(out) >= 2 {
			j := (i + 1) % len(out)
			out[i], out[j] = out[j], out[i]
			return out, "swap"
		}
		return out, "none"
	case 7:
		if out[i].emb { // embedded a.E0 -> named field with the same name
			out[i].emb = false
			out[i].typ = strings.TrimPrefix(out[i].typ, "*")
			return out, "unembed"
		}
		return out, "none"
	case 8:
		if !out[i].emb {
			out[i].typ = pick(fieldTypes)
			return out, "retype"
		}
		return out, "none"
	case 9:
		return append(out[:i:i], out[i+1:]...), "drop"
	case 10:
		out = append(out, fieldSpec{"Extra", false, "int", ""})
		return out, "add"
	default:
		if !out[i].emb {
			// alias for the field type where one exists
			if out[i].typ == "a.E1" {
				out[i].typ = "a.AliasE1"
				return out, "alias-type"
			}
		}
		return out, "none"
	}
}

const pkgASrc = `package a
type E0 struct{ A int; b string }
type E1 struct{ E0; C []byte }
type AliasE = E0
type AliasE1 = E1
type AliasS = struct{ X int; Y string }
type Box[T any] struct{ V T; next *Box[T] }
type Pair[K comparable, V any] struct{ Key K; Val V }
func Mk[T any]() struct{ F T; G int } { var z struct{ F T; G int }; return z }
func MkPtr[T any]() *struct{ Elem []T; box Box[T] } { return nil }
func (p Pair[K, V]) Ends() struct{ First K; Last V } { var z struct{ First K; Last V }; return z }
func (b *Box[T]) Unwrap() *struct{ Inner T; depth int } { return nil }
type Emb[T any] struct{ Box[T]; Count int }
`

func init() {
	streams["c15"] = func(n int) {
		emit("tsrc %s %s", hs("gv.test/a"), hs(pkgASrc))
		var b, c, d strings.Builder
		b.WriteString("package b\nimport \"gv.test/a\"\nvar _ a.E0\n")
		c.WriteString("package c\nimport (\"gv.test/a\"; \"gv.test/b\")\nvar _ a.E0\nvar _ b.Keep\n")
		b.WriteString("type Keep struct{}\n")
		d.WriteString("package d\nimport (\"gv.test/a\"; \"gv.test/b\"; \"gv.test/c\")\nvar _ a.E0\nvar _ b.Keep\nvar _ c.Keep\n")
		c.WriteString("type Keep struct{}\n")
		type pairOp struct{ e1, e2, kind string }
		var pairs []pairOp
		var hfields []string
		for i := 0; i < n; i++ {
			s := randShape()
			s2, kind := perturb(s)
			fmt.Fprintf(&b, "type B%d %s\n", i, shapeSrc(s))
			fmt.Fprintf(&c, "type C%d %s\n", i, shapeSrc(s2))
			fmt.Fprintf(&c, "type AC%d = b.B%d\n", i, i)
			gen := append(append([]fieldSpec{}, s...), fieldSpec{"Gen", false, "T", ""}, fieldSpec{"Gens", false, "[]a.Box[T]", ""})
			fmt.Fprintf(&b, "type GB%d[T any] %s\n", i, shapeSrc(gen))
			fmt.Fprintf(&c, "type GC%d[U any] %s\n", i, strings.ReplaceAll(strings.ReplaceAll(shapeSrc(gen), " T", " U"), "[T]", "[U]"))
			pairs = append(pairs,
				pairOp{fmt.Sprintf("b.B%d", i), fmt.Sprintf("c.C%d", i), kind},
				pairOp{fmt.Sprintf("b.B%d", i), fmt.Sprintf("c.AC%d", i), "alias"},
				pairOp{fmt.Sprintf("b.B%d", i), shapeSrc(s), "anonymous"},
				pairOp{fmt.Sprintf("b.GB%d[int]", i), fmt.Sprintf("b.GB%d[string]", i), "instantiations"},
				pairOp{fmt.Sprintf("b.GB%d[int]", i), fmt.Sprintf("c.GC%d[int]", i), "generic-two-packages"},
			)
			fmt.Fprintf(&d, "var vb%d b.B%d\nvar vc%d c.C%d\nvar vg%d b.GB%d[string]\nvar _ = vg%d.Gen\nvar _ = b.B%d{}\nvar va%d c.AC%d\n", i, i, i, i, i, i, i, i, i, i)
			allExported := true
			for _, f := range s {
				allExported = allExported && token.IsExported(f.name) && !strings.Contains(f.typ, "{ p ")
			}
			if len(s) > 0 && token.IsExported(s[0].name) {
				fmt.Fprintf(&d, "var _ = vb%d.%s\nvar _ = va%d.%s\n", i, s[0].name, i, s[0].name)
			}
			if (kind == "none" || kind == "tag") && allExported {
				fmt.Fprintf(&d, "var _ = c.C%d(vb%d)\n", i, i) // conversion between identical structs must type-check
			}
			hfields = append(hfields, fmt.Sprintf("b.B%d", i), fmt.Sprintf("c.C%d", i), fmt.Sprintf("b.GB%d[int]", i))
			stats["perturb_"+kind]++
			stats[fmt.Sprintf("fields_%d", len(s))]++
		}
		d.WriteString("var m = a.Mk[int]()\nvar _ = m.F\nvar mp = a.MkPtr[string]()\nvar _ = mp.Elem\n")
		// anonymous structs that only appear in the signatures of METHODS of generic types, used from another package
		d.WriteString("var pe = a.Pair[string, int]{}.Ends()\nvar _ = pe.First\nvar ub = (&a.Box[int]{}).Unwrap()\nvar _ = ub.Inner\nvar _ = struct{ First string; Last int }(pe)\nvar em a.Emb[int]\nvar _ = em.Count\n")
		emit("tsrc %s %s", hs("gv.test/b"), hs(b.String()))
		emit("tsrc %s %s", hs("gv.test/c"), hs(c.String()))
		emit("tsrc %s %s", hs("gv.test/d"), hs(d.String()))
		pairs = append(pairs, pairOp{"a.Mk[int]()", "a.Mk[string]()", "generic-func-result"}, pairOp{"a.Mk[int]()", "struct{ F int; G int }", "generic-func-result-vs-literal"},
			pairOp{"*a.MkPtr[int]()", "*a.MkPtr[bool]()", "generic-func-result"}, pairOp{"a.Pair[string, int]{}.Ends()", "struct{ First string; Last int }", "generic-method-result-vs-literal"},
			pairOp{"a.Pair[string, int]{}.Ends()", "a.Pair[bool, bool]{}.Ends()", "generic-method-result"}, pairOp{"a.Emb[int]{}", "struct{ a.Box[int]; Count int }{}", "embedded-generic"}, pairOp{"a.AliasS", "struct{ X int; Y string }", "alias"}, pairOp{"a.E0", "a.AliasE", "alias"})
		dp := hs("gv.test/d")
		for _, p := range pairs {
			emit("tpair %s %s %s", dp, hs(p.e1), hs(p.e2))
			stats["tpair_"+p.kind]++
		}
		emitSeed()
		emitCfg()
		for k, e := range hfields {
			if k%7 == 0 {
				emitSeed()
			}
			if k%11 == 0 {
				emitCfg()
			}
			emit("hfield %s %s %d", dp, hs(e), rnd.IntN(4))
			stats["hfield"]++
		}
		for _, p := range []string{"gv.test/a", "gv.test/b", "gv.test/c", "gv.test/d"} {
			emit("fstruct %s", hs(p))
			stats["fstruct"]++
		}
	}
}
