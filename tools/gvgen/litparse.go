package main

import (
	"bufio"
	"encoding/hex"
	"fmt"
	"go/ast"
	"go/parser"
	"go/token"
	"os"
	"strconv"
	"strings"
)

// `gvgen litparse`: reads lines "<obfuscator name> <hex of printed decoder block>" on stdin and writes, per line, the
// decoder IR of Model/Literals.lean (or "!unrecognised <why>"). This is the trusted reading of the emitted Go syntax;
// it is cross-checked by compiling and running the same blocks.

type litParseErr struct{ msg string }

func lpFail(format string, a ...any) { panic(litParseErr{fmt.Sprintf(format, a...)}) }

func unparen(e ast.Expr) ast.Expr {
	for {
		p, ok := e.(*ast.ParenExpr)
		if !ok {
			return e
		}
		e = p.X
	}
}

func intLit(e ast.Expr) int {
	bl, ok := unparen(e).(*ast.BasicLit)
	if !ok || bl.Kind != token.INT {
		lpFail("expected an integer literal, got %T", e)
	}
	n, err := strconv.Atoi(bl.Value)
	if err != nil {
		lpFail("bad integer %s", bl.Value)
	}
	return n
}

func opTok(t token.Token) string {
	switch t {
	case token.XOR:
		return "x"
	case token.ADD:
		return "a"
	case token.SUB:
		return "s"
	}
	lpFail("unexpected operator %s", t)
	return ""
}

func isIdent(e ast.Expr, name string) bool {
	id, ok := unparen(e).(*ast.Ident)
	return ok && id.Name == name
}

func callNamed(e ast.Expr, name string) *ast.CallExpr {
	c, ok := unparen(e).(*ast.CallExpr)
	if !ok || !isIdent(c.Fun, name) {
		return nil
	}
	return c
}

// keyRef parses garbleExternalKeyN, byte(garbleExternalKeyN), byte(garbleExternalKeyN >> S): "key shift"
func keyRef(e ast.Expr) string {
	e = unparen(e)
	if c := callNamed(e, "byte"); c != nil {
		e = unparen(c.Args[0])
	}
	shift := 0
	if b, ok := e.(*ast.BinaryExpr); ok && b.Op == token.SHR {
		s := intLit(b.Y)
		if s%8 != 0 {
			lpFail("shift %d is not a multiple of 8", s)
		}
		shift = s / 8
		e = unparen(b.X)
	}
	id, ok := e.(*ast.Ident)
	if !ok || !strings.HasPrefix(id.Name, "garbleExternalKey") {
		lpFail("expected an external key reference, got %T", e)
	}
	n, err := strconv.Atoi(strings.TrimPrefix(id.Name, "garbleExternalKey"))
	if err != nil {
		lpFail("bad key name %s", id.Name)
	}
	return fmt.Sprintf("%d %d", n, shift)
}

// byteExpr: 23 | byte(23) OP keyref
func byteExpr(e ast.Expr) string {
	e = unparen(e)
	if bl, ok := e.(*ast.BasicLit); ok {
		return "P " + bl.Value
	}
	b, ok := e.(*ast.BinaryExpr)
	if !ok {
		lpFail("byte expression: unexpected %T", e)
	}
	c := callNamed(b.X, "byte")
	if c == nil {
		lpFail("byte expression: left operand is not byte(lit)")
	}
	return fmt.Sprintf("K %d %s %s", intLit(c.Args[0]), opTok(b.Op), keyRef(b.Y))
}

// sliceLit: func() []byte { data := []byte("..."); data[i] = data[i] OP keyref; ...; return data }()
func sliceLit(e ast.Expr) string {
	c, ok := unparen(e).(*ast.CallExpr)
	if !ok {
		lpFail("slice literal: not a call")
	}
	fl, ok := c.Fun.(*ast.FuncLit)
	if !ok || len(fl.Body.List) < 2 {
		lpFail("slice literal: not a func literal call")
	}
	st := fl.Body.List
	as, ok := st[0].(*ast.AssignStmt)
	if !ok || !isIdent(as.Lhs[0], "data") {
		lpFail("slice literal: first statement is not data := …")
	}
	conv, ok := unparen(as.Rhs[0]).(*ast.CallExpr)
	if !ok {
		lpFail("slice literal: initialiser is not a conversion")
	}
	lit, ok := conv.Args[0].(*ast.BasicLit)
	if !ok || lit.Kind != token.STRING {
		lpFail("slice literal: initialiser is not a string literal")
	}
	s, err := strconv.Unquote(lit.Value)
	if err != nil {
		lpFail("slice literal: cannot unquote")
	}
	var ops []string
	for _, x := range st[1 : len(st)-1] {
		a, ok := x.(*ast.AssignStmt)
		if !ok {
			lpFail("slice literal: unexpected statement %T", x)
		}
		lhs, ok := a.Lhs[0].(*ast.IndexExpr)
		if !ok || !isIdent(lhs.X, "data") {
			lpFail("slice literal: assignment target")
		}
		b, ok := unparen(a.Rhs[0]).(*ast.BinaryExpr)
		if !ok {
			lpFail("slice literal: right-hand side")
		}
		r, ok := unparen(b.X).(*ast.IndexExpr)
		if !ok || intLit(r.Index) != intLit(lhs.Index) {
			lpFail("slice literal: data[i] = data[j] with i != j")
		}
		ops = append(ops, fmt.Sprintf("%d %s %s", intLit(lhs.Index), opTok(b.Op), keyRef(b.Y)))
	}
	if _, ok := st[len(st)-1].(*ast.ReturnStmt); !ok {
		lpFail("slice literal: no return")
	}
	h := hex.EncodeToString([]byte(s))
	if h == "" {
		h = "-"
	}
	return strings.TrimSpace(fmt.Sprintf("S %s %d %s", h, len(ops), strings.Join(ops, " ")))
}

func defineRhs(s ast.Stmt, name string) ast.Expr {
	a, ok := s.(*ast.AssignStmt)
	if !ok || len(a.Lhs) != 1 || !isIdent(a.Lhs[0], name) {
		lpFail("expected %s := …", name)
	}
	return a.Rhs[0]
}

func parseSimple(b []ast.Stmt) string {
	key := sliceLit(defineRhs(b[0], "key"))
	data := sliceLit(defineRhs(b[1], "data"))
	r, ok := b[2].(*ast.RangeStmt)
	if !ok {
		lpFail("simple: no range loop")
	}
	as := r.Body.List[0].(*ast.AssignStmt)
	bin := unparen(as.Rhs[0]).(*ast.BinaryExpr)
	if !isIdent(bin.Y, "b") {
		lpFail("simple: loop body")
	}
	return fmt.Sprintf("simple %s %s %s", opTok(bin.Op), key, data)
}

func parseSwap(b []ast.Stmt) string {
	data := sliceLit(defineRhs(b[0], "data"))
	pos := unparen(defineRhs(b[1], "positions")).(*ast.CompositeLit)
	var ps []string
	for _, e := range pos.Elts {
		ps = append(ps, strconv.Itoa(intLit(e)))
	}
	f, ok := b[2].(*ast.ForStmt)
	if !ok {
		lpFail("swap: no for loop")
	}
	if n := intLit(f.Cond.(*ast.BinaryExpr).Y); n != len(ps) {
		lpFail("swap: loop bound %d != %d positions", n, len(ps))
	}
	lk := unparen(defineRhs(f.Body.List[0], "localKey")).(*ast.BinaryExpr)
	shift := byteExpr(lk.Y)
	tup := f.Body.List[1].(*ast.AssignStmt)
	if len(tup.Lhs) != 2 || len(tup.Rhs) != 2 {
		lpFail("swap: not a tuple assignment")
	}
	bin := unparen(tup.Rhs[0]).(*ast.BinaryExpr)
	return strings.TrimSpace(fmt.Sprintf("swap %s %s %d %s %s", opTok(bin.Op), data, len(ps), strings.Join(ps, " "), shift))
}

func parseSeed(b []ast.Stmt) string {
	sc := callNamed(defineRhs(b[0], "seed"), "byte")
	if sc == nil {
		lpFail("seed: seed := byte(…) expected")
	}
	seed := byteExpr(sc.Args[0])
	var op string
	for _, s := range b {
		as, ok := s.(*ast.AssignStmt)
		if !ok || as.Tok != token.ASSIGN || !isIdent(as.Lhs[0], "fnc") {
			continue
		}
		fl := as.Rhs[0].(*ast.FuncLit)
		ap := fl.Body.List[0].(*ast.AssignStmt).Rhs[0].(*ast.CallExpr)
		bin := unparen(ap.Args[1]).(*ast.BinaryExpr)
		if !isIdent(bin.X, "x") || !isIdent(bin.Y, "seed") {
			lpFail("seed: append argument")
		}
		op = opTok(bin.Op)
	}
	if op == "" {
		lpFail("seed: fnc literal not found")
	}
	es, ok := b[len(b)-1].(*ast.ExprStmt)
	if !ok {
		lpFail("seed: no call chain")
	}
	var args []string
	e := unparen(es.X)
	for {
		c, ok := e.(*ast.CallExpr)
		if !ok {
			lpFail("seed: call chain")
		}
		args = append([]string{byteExpr(c.Args[0])}, args...)
		if isIdent(c.Fun, "fnc") {
			break
		}
		e = unparen(c.Fun)
	}
	return fmt.Sprintf("seed %s %s %d %s", op, seed, len(args), strings.Join(args, " "))
}

func shuffleIndex(e ast.Expr) (int, int) {
	ix, ok := unparen(e).(*ast.IndexExpr)
	if !ok || !isIdent(ix.X, "fullData") {
		lpFail("shuffle: operand is not fullData[…]")
	}
	b, ok := unparen(ix.Index).(*ast.BinaryExpr)
	if !ok || b.Op != token.XOR {
		lpFail("shuffle: index is not lit ^ int(idxKey[k])")
	}
	c := callNamed(b.Y, "int")
	if c == nil {
		lpFail("shuffle: int(idxKey[k]) expected")
	}
	ki := unparen(c.Args[0]).(*ast.IndexExpr)
	if !isIdent(ki.X, "idxKey") {
		lpFail("shuffle: idxKey expected")
	}
	return intLit(b.X), intLit(ki.Index)
}

func parseShuffle(b []ast.Stmt) string {
	full := sliceLit(defineRhs(b[0], "fullData"))
	idx := sliceLit(defineRhs(b[1], "idxKey"))
	ap, ok := unparen(b[3].(*ast.AssignStmt).Rhs[0]).(*ast.CallExpr)
	if !ok || !isIdent(ap.Fun, "append") {
		lpFail("shuffle: no append")
	}
	var args []string
	for _, a := range ap.Args[1:] {
		bin := unparen(a).(*ast.BinaryExpr)
		ia, ka := shuffleIndex(bin.X)
		ib, kb := shuffleIndex(bin.Y)
		if ka != kb {
			lpFail("shuffle: two different index-key positions in one argument")
		}
		args = append(args, fmt.Sprintf("%s %d %d %d", opTok(bin.Op), ia, ib, ka))
	}
	return strings.TrimSpace(fmt.Sprintf("shuffle %s %s %d %s", full, idx, len(args), strings.Join(args, " ")))
}

func parseSplit(b []ast.Stmt) string {
	start := intLit(defineRhs(b[1], "i"))
	dk := callNamed(defineRhs(b[2], "decryptKey"), "int")
	if dk == nil {
		lpFail("split: decryptKey := int(…)")
	}
	key := byteExpr(dk.Args[0])
	f := b[3].(*ast.ForStmt)
	exit := intLit(f.Cond.(*ast.BinaryExpr).Y)
	sw, ok := f.Body.List[1].(*ast.SwitchStmt)
	if !ok {
		lpFail("split: no switch")
	}
	decIdx, op := -1, ""
	var cases []string
	for _, cs := range sw.Body.List {
		cc := cs.(*ast.CaseClause)
		index := intLit(cc.List[0])
		next := -1
		chunk := ""
		for _, s := range cc.Body {
			switch s := s.(type) {
			case *ast.AssignStmt:
				if isIdent(s.Lhs[0], "i") {
					next = intLit(s.Rhs[0])
				} else if isIdent(s.Lhs[0], "data") {
					ap := unparen(s.Rhs[0]).(*ast.CallExpr)
					if ap.Ellipsis != token.NoPos {
						chunk = "C " + sliceLit(ap.Args[1])
					} else {
						chunk = "O " + byteExpr(ap.Args[1])
					}
				}
			case *ast.RangeStmt:
				as := s.Body.List[0].(*ast.AssignStmt)
				bin := unparen(as.Rhs[0]).(*ast.BinaryExpr)
				op = opTok(bin.Op)
				decIdx = index
			}
		}
		if decIdx == index {
			if next != exit {
				lpFail("split: the decrypt case does not go to the exit state")
			}
			continue
		}
		if next < 0 || chunk == "" {
			lpFail("split: case %d is incomplete", index)
		}
		cases = append(cases, fmt.Sprintf("%d %d %s", index, next, chunk))
	}
	if decIdx < 0 {
		lpFail("split: no decrypt case")
	}
	return strings.TrimSpace(fmt.Sprintf("split %s %d %s %d %d %d %s", op, start, key, decIdx, exit, len(cases), strings.Join(cases, " ")))
}

func litParseLine(name, blockHex string) (out string) {
	defer func() {
		if r := recover(); r != nil {
			if e, ok := r.(litParseErr); ok {
				out = "!unrecognised " + e.msg
				return
			}
			out = fmt.Sprintf("!unrecognised %v", r)
		}
	}()
	src, err := hex.DecodeString(blockHex)
	if err != nil {
		lpFail("bad hex")
	}
	f, err := parser.ParseFile(token.NewFileSet(), "b.go", "package p\nfunc _() "+string(src), parser.SkipObjectResolution)
	if err != nil {
		lpFail("emitted block does not parse: %v", err)
	}
	body := f.Decls[0].(*ast.FuncDecl).Body.List
	switch name {
	case "simple":
		return parseSimple(body)
	case "swap":
		return parseSwap(body)
	case "split":
		return parseSplit(body)
	case "shuffle":
		return parseShuffle(body)
	case "seed":
		return parseSeed(body)
	}
	lpFail("unknown obfuscator %s", name)
	return ""
}

func init() {
	if len(os.Args) >= 2 && os.Args[1] == "litparse" {
		in := bufio.NewScanner(os.Stdin)
		in.Buffer(make([]byte, 1<<20), 1<<26)
		w := bufio.NewWriter(os.Stdout)
		defer w.Flush()
		for in.Scan() {
			f := strings.Fields(in.Text())
			if len(f) != 2 {
				fmt.Fprintln(w, "!unrecognised bad request")
				continue
			}
			fmt.Fprintln(w, litParseLine(f[0], f[1]))
		}
		w.Flush()
		os.Exit(0)
	}
}
