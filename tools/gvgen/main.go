// gvgen: input generators for the correspondence checks. `gvgen <stream> <seed> <n>` writes operation lines for
// the oracle / model driver on stdout, followed by a "#stats <json>" line describing the input distribution.
// Every random choice derives from one PCG state seeded with <seed>.
package main

import (
	"bufio"
	"encoding/hex"
	"encoding/json"
	"fmt"
	"math/rand/v2"
	"os"
	"strconv"
)

var (
	rnd   *rand.Rand
	out   *bufio.Writer
	stats = map[string]int{}
)

func hx(b []byte) string {
	if len(b) == 0 {
		return "-"
	}
	return hex.EncodeToString(b)
}
func hs(s string) string { return hx([]byte(s)) }

func emit(format string, args ...any) { fmt.Fprintf(out, format+"\n", args...) }

func randBytes(n int) []byte {
	b := make([]byte, n)
	for i := range b {
		b[i] = byte(rnd.IntN(256))
	}
	return b
}

func pick[T any](xs []T) T { return xs[rnd.IntN(len(xs))] }

var streams = map[string]func(n int){}

func main() {
	if len(os.Args) < 4 {
		fmt.Fprintln(os.Stderr, "usage: gvgen <stream> <seed> <n>")
		os.Exit(2)
	}
	seed, _ := strconv.ParseUint(os.Args[2], 10, 64)
	n, _ := strconv.Atoi(os.Args[3])
	rnd = rand.New(rand.NewPCG(seed, 0x9e3779b97f4a7c15))
	out = bufio.NewWriterSize(os.Stdout, 1<<20)
	defer out.Flush()
	g := streams[os.Args[1]]
	if g == nil {
		fmt.Fprintln(os.Stderr, "unknown stream", os.Args[1])
		os.Exit(2)
	}
	g(n)
	js, _ := json.Marshal(stats)
	emit("#stats %s", js)
}
