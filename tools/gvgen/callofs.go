package main

import (
	"fmt"
	"go/ast"
	"go/parser"
	"go/token"
	"os"
)

// `gvgen callofs <file.go>`: byte offsets that garble's position obfuscation must hash, by the rule of position.go:
// every identifier is preceded by a line directive iff a call expression started since the previous identifier
// (in source pre-order); the hashed offset is that call's. Reference implementation on go/ast, used by the C02/C04 ties.
func callOffsets(path string) ([]int, error) {
	fset := token.NewFileSet()
	f, err := parser.ParseFile(fset, path, nil, parser.SkipObjectResolution|parser.ParseComments)
	if err != nil {
		return nil, err
	}
	tf := fset.File(f.Pos())
	var offs []int
	next := -1
	ast.Inspect(f, func(n ast.Node) bool {
		switch n := n.(type) {
		case *ast.CallExpr:
			next = tf.Offset(n.Pos())
		case *ast.Ident:
			if next >= 0 {
				offs = append(offs, next)
			}
			next = -1
		}
		return true
	})
	return offs, nil
}

func init() {
	if len(os.Args) >= 3 && os.Args[1] == "callofs" {
		offs, err := callOffsets(os.Args[2])
		if err != nil {
			fmt.Fprintln(os.Stderr, err)
			os.Exit(1)
		}
		for _, o := range offs {
			fmt.Println(o)
		}
		os.Exit(0)
	}
}
