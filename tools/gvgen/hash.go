package main

import (
	"crypto/sha256"
	"fmt"
	"go/token"
)

func classOf(name string) int {
	if !token.IsIdentifier(name) {
		return 0
	}
	if token.IsExported(name) {
		return 1
	}
	return 2
}

var asciiStart = "abcdefghijklmnopqrstuvwxyzABCDEFGHIJKLMNOPQRSTUVWXYZ_"
var asciiRest = asciiStart + "0123456789"
var uniStartLower = []rune("αβγδжзйüéñøçλ世界名")
var uniStartUpper = []rune("ΑΒΓΔЖЗЙÜÉÑØÇΛ")

func randIdent() string {
	n := 1 + rnd.IntN(12)
	rs := make([]rune, 0, n)
	switch rnd.IntN(10) {
	case 0:
		rs = append(rs, pick(uniStartLower))
	case 1:
		rs = append(rs, pick(uniStartUpper))
	default:
		rs = append(rs, rune(asciiStart[rnd.IntN(len(asciiStart))]))
	}
	for len(rs) < n {
		switch rnd.IntN(12) {
		case 0:
			rs = append(rs, pick(uniStartLower))
		case 1:
			rs = append(rs, pick(uniStartUpper))
		default:
			rs = append(rs, rune(asciiRest[rnd.IntN(len(asciiRest))]))
		}
	}
	return string(rs)
}

var fixedNames = []string{
	"main", "init", "_", "_x", "X", "x", "String", "return", "func", "type", "T1", "t1", "Ünï", "ünï", "世界", "Ж",
	"example.com/foo-bar/baz.v2", "gv.example/mod-a/pkg.b", "net/http", "file.go:123", "main.go:1", "a b", "9lives",
	"x\ny", "-dash", "tab\there", "é", "É", "\xff\xfe", "a.b", "a|b", "|", "go.shape.int", "command-line-arguments",
}

func randName() string {
	switch rnd.IntN(10) {
	case 0, 1:
		return pick(fixedNames)
	case 2:
		return fmt.Sprintf("%s/%s.go:%d", randIdent(), randIdent(), rnd.IntN(5000))
	case 3:
		return fmt.Sprintf("example.com/%s/%s", randIdent(), randIdent())
	case 4:
		return string(randBytes(1 + rnd.IntN(20)))
	default:
		return randIdent()
	}
}

func randSalt() []byte {
	switch rnd.IntN(8) {
	case 0:
		return randBytes(1)
	case 1:
		return randBytes(32)
	case 2:
		return randBytes(15)
	case 3:
		return []byte(randName() + "|")
	default:
		return randBytes(1 + rnd.IntN(64))
	}
}

func randSeed() []byte {
	switch rnd.IntN(5) {
	case 0, 1:
		return nil
	case 2:
		return randBytes(8)
	case 3:
		return randBytes(9)
	default:
		return randBytes(32)
	}
}

var curSeed []byte

func emitSeed() {
	curSeed = randSeed()
	emit("seed %s", hx(curSeed))
	if len(curSeed) == 0 {
		stats["seed_absent"]++
	} else {
		stats[fmt.Sprintf("seed_len_%d", len(curSeed))]++
	}
}

func emitCfg() {
	b := func() int { return rnd.IntN(2) }
	dd := ""
	if rnd.IntN(3) == 0 {
		dd = "/tmp/debug dir/" + randIdent()
	}
	tob := ""
	if rnd.IntN(6) == 0 {
		tob = pick([]string{"simple", "swap", "split", "shuffle", "seed"})
	}
	gg := pick([]string{"*", "example.com/a", "example.com/a,example.com/b", "mod, -tiny", "mod,", "a -literals", ""})
	if rnd.IntN(4) == 0 {
		gg = randName()
	}
	bin := randBytes(15)
	if rnd.IntN(20) == 0 {
		bin = nil // addGarbleToHash must panic
	}
	emit("cfg %d %d %d %s %d %s %s %s", b(), b(), b(), hs(dd), b(), hs(tob), hs(gg), hx(bin))
	stats["cfg"]++
}

var pkgPaths []string

func emitPkg() {
	p := pick([]string{"runtime", "main", "example.com/a", "example.com/a/b", "gv.example/mod-a/pkg.b", "net/http"})
	if rnd.IntN(3) == 0 {
		p = "example.com/" + randIdent()
	}
	pkgPaths = append(pkgPaths, p)
	emit("pkg %s %s", hs(p), hx(randBytes(32)))
	stats["pkg"]++
}

func hashOp(salt []byte, name string) {
	c := classOf(name)
	emit("hash %s %s %d", hx(salt), hs(name), c)
	stats[fmt.Sprintf("hash_class_%d", c)]++
	if len(salt) == 0 || name == "" {
		stats["hash_panic_expected"]++
	}
}

func init() {
	// c16: long interleaved histories; then a directed stream that brute-forces names until every
	// (leading base64 symbol, class, length) combination has been produced.
	streams["c16"] = func(n int) {
		emitSeed()
		emitCfg()
		emitPkg()
		for i := 0; i < n; i++ {
			switch r := rnd.IntN(100); {
			case r < 3:
				emitSeed()
			case r < 5:
				emitCfg()
			case r < 8:
				emitPkg()
			case r < 14:
				emit("gaction %s", hx(randBytes(15)))
				stats["gaction"]++
			case r < 17:
				emit(pick([]string{"magic", "entryoff"}))
				stats["runtimehash"]++
			case r < 25:
				name := randName()
				emit("hpkg %s %s %d", hs(pick(pkgPaths)), hs(name), classOf(name))
				stats["hpkg"]++
			case r < 27:
				if rnd.IntN(2) == 0 {
					hashOp(nil, randName())
				} else {
					hashOp(randSalt(), "")
				}
			case r < 35 && i > 0:
				// repeat an earlier style of call right after other ops: equal inputs must give equal outputs
				salt, name := []byte("fixed-salt"), pick(fixedNames)
				hashOp(salt, name)
				stats["hash_repeat"]++
			default:
				hashOp(randSalt(), randName())
			}
		}
		// directed coverage of 64 symbols x 3 classes x 7 lengths
		emit("seed -")
		curSeed = nil
		seen := map[[3]int]bool{}
		salt := []byte("cover")
		for tries := 0; tries < 400000 && len(seen) < 64*3*7; tries++ {
			var name string
			switch tries % 3 {
			case 0:
				name = fmt.Sprintf("p%d/q.go:%d", tries, tries)
			case 1:
				name = fmt.Sprintf("E%d", tries)
			default:
				name = fmt.Sprintf("u%d", tries)
			}
			sum := sha256.Sum256(append(append([]byte{}, salt...), name...))
			key := [3]int{int(sum[0] >> 2), classOf(name), int(sum[9] % 7)}
			if !seen[key] {
				seen[key] = true
				hashOp(salt, name)
			}
		}
		stats["directed_combinations_of_1344"] = len(seen)
	}
}

func init() {
	// c12: few seeds / paths / names / action IDs, many configurations, so that "depends only on" and
	// "changes whenever" can be observed as (in)equalities between answers of one history.
	streams["c12"] = func(n int) {
		seeds := [][]byte{nil, nil, randBytes(8), randBytes(8), randBytes(9), randBytes(32)}
		paths := []string{"runtime", "main", "example.com/a", "example.com/a/b", "example.com/ab", "gv.example/mod-a/pkg.b"}
		names := []string{"Foo", "foo", "T", "field", "example.com/a", "main.go:12", "Ünï"}
		actions := [][]byte{randBytes(15), randBytes(15), randBytes(15)}
		binids := [][]byte{randBytes(15), randBytes(15)}
		ggs := []string{"*", "example.com/a", "example.com/a,example.com/b", "mod, -tiny", "mod,", "mod -literals", "mod", "a -seed=AAAAAAAAAAA", "a"}
		for i := 0; i < n; i++ {
			switch r := rnd.IntN(100); {
			case r < 10:
				curSeed = pick(seeds)
				emit("seed %s", hx(curSeed))
				stats[fmt.Sprintf("seed_len_%d", len(curSeed))]++
			case r < 30:
				dd := ""
				if rnd.IntN(3) == 0 {
					dd = "/tmp/dbg"
				}
				emit("cfg %d %d %d %s %d - %s %s", rnd.IntN(2), rnd.IntN(2), rnd.IntN(2), hs(dd), rnd.IntN(2), hs(pick(ggs)), hx(pick(binids)))
				stats["cfg"]++
			case r < 40:
				emit("pkg %s %s", hs(pick(paths)), hx(randBytes(32)))
				stats["pkg"]++
			case r < 60:
				emit("gaction %s", hx(pick(actions)))
				stats["gaction"]++
			case r < 63:
				emit("flags %d", rnd.IntN(2))
				stats["flags"]++
			case r < 65:
				xs := []string{"main.version=1.2", "main.version=3", "example.com/a.Name=v", "novalue", "main.b=", "main.a=x=y"}
				k := rnd.IntN(4)
				line := "ldx"
				for j := 0; j < k; j++ {
					line += " " + hs(pick(xs))
				}
				emit("%s", line)
				stats["ldx"]++
			case r < 70:
				emit(pick([]string{"magic", "entryoff"}))
				stats["runtimehash"]++
			case r < 78:
				emitSeedSet()
			default:
				name := pick(names)
				emit("hpkg %s %s %d", hs(pick(paths)), hs(name), classOf(name))
				stats["hpkg"]++
			}
		}
	}
}

func emitSeedSet() {
	const std = "ABCDEFGHIJKLMNOPQRSTUVWXYZabcdefghijklmnopqrstuvwxyz0123456789+/"
	var s []byte
	n := pick([]int{0, 1, 5, 10, 11, 12, 13, 14, 15, 16, 22, 43, 44})
	for i := 0; i < n; i++ {
		s = append(s, std[rnd.IntN(64)])
	}
	switch rnd.IntN(8) {
	case 0:
		s = append(s, "="...)
	case 1:
		s = append(s, "=="...)
	case 2:
		if len(s) > 0 {
			s[rnd.IntN(len(s))] = pick([]byte{'-', '_', ' ', '\n', '\r', '=', '!', 0xc3})
		}
	case 3:
		s = []byte(pick([]string{"o9WDTZ4CN4w", "o9WDTZ4CN4w=", "AAAAAAAAAAA", "random_", "", "=", "====", "o9WDTZ4CN4", "o9WD\nTZ4CN4w"}))
	}
	emit("seedset %s", hx(s))
	stats["seedset"]++
}
