#!/usr/bin/env python3
"""Compare a `go test -json` log of /repo (guard off) with the pinned stable baseline. usage: baseline.py run.json"""
import json, sys
base = json.load(open("/root/.vp/BASELINE.json"))
status = {}
for l in open(sys.argv[1]):
    try:
        e = json.loads(l)
    except Exception:
        continue
    if e.get("Action") in ("pass", "fail", "skip") and e.get("Test"):
        status["%s::%s" % (e["Package"], e["Test"])] = e["Action"]
bad = [t for t in base["stable_pass"] if status.get(t) != "pass"]
print("stable baseline tests: %d, passing now: %d" % (len(base["stable_pass"]), len(base["stable_pass"]) - len(bad)))
for t in bad:
    print("NOT PASSING:", t, status.get(t))
sys.exit(1 if bad else 0)
