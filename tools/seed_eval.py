#!/usr/bin/env python3
"""seed_eval.py <ID> <n> [check ids...]: takes the n-th seeded change a sub-agent left in /tmp/wt/<ID>/MUTANT/<n>, copies it
to /verif/seeded/<ID>/ (first) or /verif/seeded/<ID>/<n>/ (further ones), applies it to /repo, runs the registered quick check(s),
records what they reported in meta.json, and reverts /repo.  Never commits anything in /repo."""
import json, os, shutil, subprocess, sys, time

nocopy = "--nocopy" in sys.argv
argv = [a for a in sys.argv if a != "--nocopy"]
pid, n = argv[1], argv[2]
checks = argv[3:] or [pid]
src = "/tmp/wt/%s/MUTANT/%s" % (pid, n)
dst = "/verif/seeded/%s" % pid if n == "1" else "/verif/seeded/%s/%s" % (pid, n)
_old = os.path.join(dst, "meta.json")
if os.path.exists(_old):
    _m = json.load(open(_old))
    json.dump({k: _m[k] for k in ("strengthened", "rebased", "caught_on_first_run") if k in _m}, open(_old + ".keep", "w"))
if os.path.isdir(src) and not nocopy:
    os.makedirs(dst, exist_ok=True)
    for f in os.listdir(src):
        s, d = os.path.join(src, f), os.path.join(dst, f)
        if os.path.isdir(s):
            shutil.rmtree(d, ignore_errors=True)
            shutil.copytree(s, d, ignore=shutil.ignore_patterns("*.bin", "garble", "gocache", "garblecache", "emptymod", "D", "out*"))
        else:
            shutil.copy2(s, d)
patch = os.path.join(dst, "patch.diff")
st = subprocess.run(["git", "-C", "/repo", "status", "--short"], capture_output=True, text=True).stdout
if st.strip():
    sys.exit("refusing: /repo is not clean:\n" + st)
meta_p = os.path.join(dst, "meta.json")
keep = {}
if os.path.exists(meta_p + ".keep"):
    keep = json.load(open(meta_p + ".keep"))
meta = json.load(open(meta_p)) if os.path.exists(meta_p) else {}
meta.update(keep)
results = {}
try:
    subprocess.run(["git", "-C", "/repo", "apply", patch], check=True)
    for c in checks:
        t = time.time()
        r = subprocess.run(["./check", c, "--tier", "quick"], cwd="/verif", capture_output=True, text=True)
        lines = [l for l in (r.stdout + r.stderr).splitlines() if l.startswith("VIOLATION") or "broken" in l or "KNOWN-FINDING" in l]
        replay = None
        for l in lines:
            if l.startswith("VIOLATION") and "replay=" in l:
                rp = l.split("replay=")[1].split()[0]
                try:
                    replay = json.load(open(rp))
                except Exception:
                    replay = {"path": rp}
                break
        results[c] = {"exit": r.returncode, "seconds": round(time.time() - t, 1), "lines": lines[:8],
                      "what": (replay or {}).get("what", "")[:600], "found_failing_input": (replay or {}).get("found_failing_input")}
        print(c, "exit", r.returncode, round(time.time() - t, 1), "s")
        for l in lines[:6]:
            print("   ", l[:300])
finally:
    subprocess.run(["git", "-C", "/repo", "checkout", "--", "."], check=True)
    print("repo status after revert:", repr(subprocess.run(["git", "-C", "/repo", "status", "--short"], capture_output=True, text=True).stdout))
meta["verif_checks"] = results
meta["caught"] = any(v["exit"] == 1 and any(l.startswith("VIOLATION") for l in v["lines"]) for v in results.values())
json.dump(meta, open(meta_p, "w"), indent=1)
# evidence written by a run on a changed tree must not stay around
subprocess.run(["git", "-C", "/verif", "checkout", "--"] + ["evidence/%s.json" % c for c in checks], capture_output=True)
subprocess.run(["git", "-C", "/verif", "checkout", "--", "lean/GV/Gen"], capture_output=True)   # generated from the changed tree
print("caught:", meta["caught"])
