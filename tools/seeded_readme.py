#!/usr/bin/env python3
"""writes /verif/seeded/README.md from the meta.json files"""
import glob, json, os
rows = []
for p in sorted(glob.glob("/verif/seeded/*/meta.json") + glob.glob("/verif/seeded/*/[0-9]/meta.json")):
    m = json.load(open(p))
    d = os.path.dirname(p)
    rel = os.path.relpath(d, "/verif/seeded")
    res = m.get("verif_checks", {})
    how = []
    for c, v in res.items():
        if v.get("exit") == 1:
            lines = [l for l in v.get("lines", []) if "broken" in l]
            kind = "proof/tie/correspondence broken + " if lines else ""
            how.append("%s: %s%s" % (c, kind, "concrete failing input" if v.get("found_failing_input") else "no-failing-input-found"))
        else:
            how.append("%s: not caught" % c)
    rows.append((rel, ", ".join(m.get("files_changed", [])), (m.get("kind") or "")[:140], "yes" if m.get("caught") else "NO", "; ".join(how), m.get("strengthened", "")))
out = ["# Seeded changes", "",
       "Each directory holds one change to garble produced by a fresh sub-agent that was given only the text of the property and a scratch worktree",
       "(`patch.diff`, `demo.sh` + `demo/`, `meta.json`). `meta.json/verif_checks` records what the registered quick check reported with the patch applied to /repo",
       "(`tools/seed_eval.py`); `strengthened` says what had to be added to the check when it first missed the change.", "",
       "| dir | files | kind of slip | caught | by | strengthening needed |", "|---|---|---|---|---|---|"]
for r in rows:
    out.append("| %s | %s | %s | %s | %s | %s |" % r)
open("/verif/seeded/README.md", "w").write("\n".join(out) + "\n")
print("\n".join(out))
