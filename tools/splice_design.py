"""re-splices .design_sec0.md into DESIGN.md (section 0 is maintained in its own file while the build goes on)"""
p='/verif/DESIGN.md'
s=open(p).read()
sec0=open('/verif/.design_sec0.md').read()
marker='---------------------------------------------------------------------------------------\n\n## 1. The system'
i=s.index('## 0. As built'); j=s.index(marker)
open(p,'w').write(s[:i]+sec0+'\n'+s[j:])
