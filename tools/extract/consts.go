package main

import "fmt"

func init() {
	generators["Consts"] = func() {
		p := loadDir(*repo)
		var sb = header + "namespace GV.Gen\n"
		for _, c := range []string{"minHashLength", "maxHashLength", "neededSumBytes", "buildIDHashLength"} {
			v := p.constInt(c)
			expect(v >= 0, "%s is negative", c)
			sb += fmt.Sprintf("def %s : Nat := %d\n", c, v)
		}
		sb += "end GV.Gen\n"
		writeIfChanged("Consts.lean", sb)
	}
}
