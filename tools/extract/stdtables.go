package main

import (
	"fmt"
	"go/ast"
	"strings"
)

func leanStrList(xs []string) string {
	// chunked so that no list literal gets too long for the elaborator
	var chunks []string
	for i := 0; i < len(xs); i += 60 {
		j := min(i+60, len(xs))
		q := make([]string, 0, j-i)
		for _, x := range xs[i:j] {
			q = append(q, leanStr(x))
		}
		chunks = append(chunks, "["+strings.Join(q, ", ")+"]")
	}
	if len(chunks) == 0 {
		return "[]"
	}
	return strings.Join(chunks, " ++\n  ")
}

func init() {
	generators["StdTables"] = func() {
		p := loadDir(*repo)
		deps := p.stringBoolMap("runtimeAndDeps")
		linknamed := p.stringBoolMap("runtimeAndLinknamed")
		for k, v := range deps {
			expect(v, "runtimeAndDeps[%q] is false", k)
		}
		for k, v := range linknamed {
			expect(v, "runtimeAndLinknamed[%q] is false", k)
		}
		// compilerIntrinsics: map[string]map[string]bool
		cl, ok := p.globalValue("compilerIntrinsics").(*ast.CompositeLit)
		expect(ok, "compilerIntrinsics is not a composite literal")
		intr := map[string][]string{}
		for _, el := range cl.Elts {
			kv := el.(*ast.KeyValueExpr)
			pkg := strLit(kv.Key)
			inner, ok := kv.Value.(*ast.CompositeLit)
			expect(ok, "compilerIntrinsics[%q] is not a composite literal", pkg)
			for _, e2 := range inner.Elts {
				kv2 := e2.(*ast.KeyValueExpr)
				id, ok := kv2.Value.(*ast.Ident)
				expect(ok && id.Name == "true", "compilerIntrinsics[%q][%q] is not true", pkg, strLit(kv2.Key))
				intr[pkg] = append(intr[pkg], strLit(kv2.Key))
			}
		}
		expect(len(intr) > 5, "compilerIntrinsics has only %d packages", len(intr))
		// the import paths obfuscatedImportPath refuses to rename: the case list of its switch
		var fixed []string
		for _, f := range p.files {
			for _, d := range f.Decls {
				fd, ok := d.(*ast.FuncDecl)
				if !ok || fd.Name.Name != "obfuscatedImportPath" {
					continue
				}
				ast.Inspect(fd, func(n ast.Node) bool {
					sw, ok := n.(*ast.SwitchStmt)
					if !ok {
						return true
					}
					if sel, ok := sw.Tag.(*ast.SelectorExpr); !ok || sel.Sel.Name != "ImportPath" {
						return true
					}
					for _, c := range sw.Body.List {
						for _, e := range c.(*ast.CaseClause).List {
							fixed = append(fixed, strLit(e))
						}
					}
					return false
				})
			}
		}
		expect(len(fixed) >= 3, "obfuscatedImportPath: switch on p.ImportPath with literal cases not found")
		var sb strings.Builder
		sb.WriteString(header + "namespace GV.Gen\n")
		fmt.Fprintf(&sb, "def runtimeAndDeps : List String :=\n  %s\n", leanStrList(sortedKeys(deps)))
		fmt.Fprintf(&sb, "def runtimeAndLinknamed : List String :=\n  %s\n", leanStrList(sortedKeys(linknamed)))
		fmt.Fprintf(&sb, "def fixedImportPaths : List String :=\n  %s\n", leanStrList(fixed))
		sb.WriteString("def compilerIntrinsics : List (String × List String) := [\n")
		for i, k := range sortedKeys(intr) {
			if i > 0 {
				sb.WriteString(",\n")
			}
			fmt.Fprintf(&sb, "  (%s, %s)", leanStr(k), leanStrList(intr[k]))
		}
		sb.WriteString("]\nend GV.Gen\n")
		writeIfChanged("StdTables.lean", sb.String())
	}
}
