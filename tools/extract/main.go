// extract: the translator. Reads /repo's current source (and the Go toolchain's cmd/go source) with go/ast and
// go/types and regenerates lean/GV/Gen/*.lean. It emits DATA only (constants, tables, step lists), never logic.
// Every extractor has an expectation about the shape of the source; when the source no longer has that shape
// the tool exits 3 with a message naming the expectation ("broken tie"), never silently.
package main

import (
	"bytes"
	"flag"
	"fmt"
	"go/ast"
	"go/constant"
	"go/parser"
	"go/token"
	"go/types"
	"os"
	"path/filepath"
	"sort"
	"strconv"
	"strings"
)

var (
	repo   = flag.String("repo", "/repo", "garble source tree")
	goroot = flag.String("goroot", "", "GOROOT of the toolchain garble targets")
	outDir = flag.String("out", "/verif/lean/GV/Gen", "output directory")
)

type tieError struct{ msg string }

func expect(cond bool, format string, args ...any) {
	if !cond {
		panic(tieError{fmt.Sprintf(format, args...)})
	}
}

type pkgInfo struct {
	fset  *token.FileSet
	files map[string]*ast.File // base name -> file
	pkg   *types.Package
	info  *types.Info
}

type nopImporter struct{}

func (nopImporter) Import(path string) (*types.Package, error) {
	return nil, fmt.Errorf("imports are not resolved by the extractor")
}

// loadDir parses the non-test Go files of dir (respecting no build tags: files with a "verif" constraint are skipped)
// and type-checks them leniently: unresolved imports are ignored, constant declarations still get values.
func loadDir(dir string) *pkgInfo {
	fset := token.NewFileSet()
	ents, err := os.ReadDir(dir)
	expect(err == nil, "cannot read %s: %v", dir, err)
	pi := &pkgInfo{fset: fset, files: map[string]*ast.File{}}
	var list []*ast.File
	for _, e := range ents {
		n := e.Name()
		if !strings.HasSuffix(n, ".go") || strings.HasSuffix(n, "_test.go") {
			continue
		}
		src, err := os.ReadFile(filepath.Join(dir, n))
		expect(err == nil, "read %s: %v", n, err)
		if bytes.Contains(src, []byte("//go:build verif")) || bytes.Contains(src, []byte("//go:build ignore")) {
			continue
		}
		f, err := parser.ParseFile(fset, filepath.Join(dir, n), src, parser.ParseComments|parser.SkipObjectResolution)
		expect(err == nil, "parse %s: %v", n, err)
		pi.files[n] = f
		list = append(list, f)
	}
	conf := types.Config{Importer: nopImporter{}, Error: func(error) {}, FakeImportC: true}
	pi.info = &types.Info{Defs: map[*ast.Ident]types.Object{}, Uses: map[*ast.Ident]types.Object{}, Types: map[ast.Expr]types.TypeAndValue{}}
	pi.pkg, _ = conf.Check("p", fset, list, pi.info)
	return pi
}

func (p *pkgInfo) constInt(name string) int64 {
	obj := p.pkg.Scope().Lookup(name)
	expect(obj != nil, "constant %s not found", name)
	c, ok := obj.(*types.Const)
	expect(ok, "%s is not a constant", name)
	v, exact := constant.Int64Val(constant.ToInt(c.Val()))
	expect(exact, "%s is not an integer constant", name)
	return v
}

// globalVarLit returns the composite literal initialising package-level var name.
func (p *pkgInfo) globalValue(name string) ast.Expr {
	for _, f := range p.files {
		for _, d := range f.Decls {
			gd, ok := d.(*ast.GenDecl)
			if !ok || gd.Tok != token.VAR {
				continue
			}
			for _, s := range gd.Specs {
				vs := s.(*ast.ValueSpec)
				for i, n := range vs.Names {
					if n.Name == name && i < len(vs.Values) {
						return vs.Values[i]
					}
				}
			}
		}
	}
	expect(false, "package-level var %s with an initialiser not found", name)
	return nil
}

func strLit(e ast.Expr) string {
	bl, ok := e.(*ast.BasicLit)
	expect(ok && bl.Kind == token.STRING, "expected a string literal, got %T", e)
	s, err := strconv.Unquote(bl.Value)
	expect(err == nil, "bad string literal %s", bl.Value)
	return s
}

// stringBoolMap reads a map[string]bool composite literal.
func (p *pkgInfo) stringBoolMap(name string) map[string]bool {
	cl, ok := p.globalValue(name).(*ast.CompositeLit)
	expect(ok, "%s is not a composite literal", name)
	mt, ok := cl.Type.(*ast.MapType)
	expect(ok, "%s is not a map literal", name)
	expect(fmt.Sprint(mt.Key) == "string" && fmt.Sprint(mt.Value) == "bool", "%s is not a map[string]bool", name)
	m := map[string]bool{}
	for _, el := range cl.Elts {
		kv := el.(*ast.KeyValueExpr)
		id, ok := kv.Value.(*ast.Ident)
		expect(ok && (id.Name == "true" || id.Name == "false"), "%s: value of %s is not a boolean literal", name, strLit(kv.Key))
		k := strLit(kv.Key)
		_, dup := m[k]
		expect(!dup, "%s: duplicate key %s", name, k)
		m[k] = id.Name == "true"
	}
	return m
}

func leanStr(s string) string {
	var sb strings.Builder
	sb.WriteByte('"')
	for _, r := range s {
		switch {
		case r == '"':
			sb.WriteString(`\"`)
		case r == '\\':
			sb.WriteString(`\\`)
		case r == '\n':
			sb.WriteString(`\n`)
		case r == '\t':
			sb.WriteString(`\t`)
		case r < 0x20 || r == 0x7f:
			fmt.Fprintf(&sb, `\x%02x`, r)
		default:
			sb.WriteRune(r)
		}
	}
	sb.WriteByte('"')
	return sb.String()
}

func sortedKeys[V any](m map[string]V) []string {
	ks := make([]string, 0, len(m))
	for k := range m {
		ks = append(ks, k)
	}
	sort.Strings(ks)
	return ks
}

// writeIfChanged keeps lake from rebuilding dependants when the generated text is identical.
func writeIfChanged(name string, content string) {
	path := filepath.Join(*outDir, name)
	old, err := os.ReadFile(path)
	if err == nil && string(old) == content {
		return
	}
	expect(os.WriteFile(path, []byte(content), 0o644) == nil, "cannot write %s", path)
}

const header = "-- GENERATED by /verif/tools/extract from the current source; do not edit (overwritten on every run)\n"

var generators = map[string]func(){}

func main() {
	flag.Parse()
	only := flag.Args()
	status := 0
	names := sortedKeys(generators)
	for _, n := range names {
		if len(only) > 0 {
			found := false
			for _, o := range only {
				found = found || o == n
			}
			if !found {
				continue
			}
		}
		func() {
			defer func() {
				if r := recover(); r != nil {
					if te, ok := r.(tieError); ok {
						fmt.Printf("BROKEN-TIE %s: %s\n", n, te.msg)
						status = 3
						return
					}
					panic(r)
				}
			}()
			generators[n]()
			fmt.Printf("generated %s\n", n)
		}()
	}
	os.Exit(status)
}
