package main

import (
	"fmt"
	"path/filepath"
)

func init() {
	generators["LitConsts"] = func() {
		p := loadDir(filepath.Join(*repo, "internal", "literals"))
		sb := header + "namespace GV.Gen.Lit\n"
		for _, c := range []string{"MinSize", "MaxSize", "MaxSizeExpensive", "minStringJunkBytes", "maxStringJunkBytes",
			"minExtKeyCount", "maxExtKeyCount", "minByteSliceExtKeyOps", "maxByteSliceExtKeyOps", "maxChunkSize", "minCaseCount"} {
			v := p.constInt(c)
			expect(v >= 0, "%s is negative", c)
			sb += fmt.Sprintf("def %s : Nat := %d\n", c, v)
		}
		sb += "end GV.Gen.Lit\n"
		writeIfChanged("LitConsts.lean", sb)
	}
}
