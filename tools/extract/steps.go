package main

import (
	"bytes"
	"fmt"
	"go/ast"
	"go/format"
	"go/token"
	"path/filepath"
	"strings"
)

// callsInOrder lists, in source order, the calls inside fn whose callee's last identifier is in want; a deferred
// call is reported as "defer <name>".
func callsInOrder(fn *ast.BlockStmt, want map[string]bool) []string {
	var out []string
	type item struct {
		pos  token.Pos
		name string
	}
	var items []item
	ast.Inspect(fn, func(n ast.Node) bool {
		switch n := n.(type) {
		case *ast.DeferStmt:
			if name := calleeName(n.Call); want[name] {
				items = append(items, item{n.Pos(), "defer " + name})
			}
			if fl, ok := n.Call.Fun.(*ast.FuncLit); ok {
				// defer func() { ... }(): the wanted calls inside run at function exit
				ast.Inspect(fl.Body, func(m ast.Node) bool {
					if c, ok := m.(*ast.CallExpr); ok {
						if name := calleeName(c); want[name] {
							items = append(items, item{n.Pos(), "defer " + name})
						}
					}
					return true
				})
			}
			return false
		case *ast.CallExpr:
			if name := calleeName(n); want[name] {
				items = append(items, item{n.Pos(), name})
			}
		}
		return true
	})
	for i := 1; i < len(items); i++ {
		for j := i; j > 0 && items[j].pos < items[j-1].pos; j-- {
			items[j], items[j-1] = items[j-1], items[j]
		}
	}
	for _, it := range items {
		out = append(out, it.name)
	}
	return out
}

func calleeName(c *ast.CallExpr) string {
	switch f := c.Fun.(type) {
	case *ast.Ident:
		return f.Name
	case *ast.SelectorExpr:
		return f.Sel.Name
	}
	return ""
}

func findFunc(p *pkgInfo, name string) *ast.FuncDecl {
	for _, f := range p.files {
		for _, d := range f.Decls {
			if fd, ok := d.(*ast.FuncDecl); ok && fd.Name.Name == name && fd.Recv == nil {
				return fd
			}
		}
	}
	expect(false, "function %s not found", name)
	return nil
}

func init() {
	generators["Steps"] = func() {
		lp := loadDir(filepath.Join(*repo, "internal", "linker"))
		patch := findFunc(lp, "PatchLinker")
		linkerSteps := callsInOrder(patch.Body, map[string]bool{"Lock": true, "checkVersion": true, "fileExists": true, "applyPatches": true, "Remove": true, "buildLinker": true, "writeVersion": true})
		mp := loadDir(*repo)
		mainErr := findFunc(mp, "mainErr")
		// the toolexec branch: PatchLinker, the deferred unlock, and the run of the real tool
		var toolexec []string
		ast.Inspect(mainErr.Body, func(n ast.Node) bool {
			cc, ok := n.(*ast.CaseClause)
			if !ok || len(cc.List) != 1 {
				return true
			}
			if bl, ok := cc.List[0].(*ast.BasicLit); !ok || bl.Value != `"toolexec"` {
				return true
			}
			toolexec = callsInOrder(&ast.BlockStmt{List: cc.Body}, map[string]bool{"PatchLinker": true, "unlock": true, "Run": true})
			return false
		})
		expect(len(toolexec) > 0, "mainErr: case \"toolexec\" not found")
		// top-level commands: creation and removal of the shared temp dir
		var buildCmd []string
		ast.Inspect(mainErr.Body, func(n ast.Node) bool {
			cc, ok := n.(*ast.CaseClause)
			if !ok || len(cc.List) != 3 {
				return true
			}
			buildCmd = callsInOrder(&ast.BlockStmt{List: cc.Body}, map[string]bool{"toolexecCmd": true, "RemoveAll": true, "Run": true, "restoreDebugDirFromCache": true, "Trim": true})
			return false
		})
		expect(len(buildCmd) > 0, "mainErr: case build/test/run not found")
		rev := callsInOrder(findFunc(mp, "commandReverse").Body, map[string]bool{"toolexecCmd": true, "RemoveAll": true, "rejectUnknownBuildFlags": true})
		mapc := callsInOrder(findFunc(mp, "commandMap").Body, map[string]bool{"toolexecCmd": true, "RemoveAll": true, "rejectUnknownBuildFlags": true})
		// the loop of toolexecCmd that rejects garble's own flags after the command: its whole text
		var rejectLoop string
		ast.Inspect(findFunc(mp, "toolexecCmd").Body, func(n ast.Node) bool {
			switch n.(type) {
			case *ast.RangeStmt, *ast.ForStmt:
				var buf bytes.Buffer
				format.Node(&buf, mp.fset, n)
				if strings.Contains(buf.String(), "rxGarbleFlag.MatchString") && rejectLoop == "" {
					rejectLoop = strings.Join(strings.Fields(buf.String()), " ")
				}
			}
			return true
		})
		expect(rejectLoop != "", "toolexecCmd: the loop using rxGarbleFlag.MatchString was not found")
		// the block of toolexecCmd that lets "go test" flags follow the package list
		var testSplit string
		ast.Inspect(findFunc(mp, "toolexecCmd").Body, func(n ast.Node) bool {
			ifs, ok := n.(*ast.IfStmt)
			if !ok || testSplit != "" {
				return true
			}
			var cond bytes.Buffer
			format.Node(&cond, mp.fset, ifs.Cond)
			var body bytes.Buffer
			format.Node(&body, mp.fset, ifs.Body)
			if cond.String() == `command == "test"` && strings.Contains(body.String(), "listArgs") {
				testSplit = strings.Join(strings.Fields(body.String()), " ")
			}
			return true
		})
		expect(testSplit != "", "toolexecCmd: the `if command == \"test\"` block computing listFlags/listArgs was not found")
		// the -debugdir ownership chain of toolexecCmd: the if / else-if statement that reads the directory
		var debugDirChain string
		ast.Inspect(findFunc(mp, "toolexecCmd").Body, func(n ast.Node) bool {
			ifs, ok := n.(*ast.IfStmt)
			if !ok || debugDirChain != "" || ifs.Init == nil {
				return true
			}
			var buf bytes.Buffer
			format.Node(&buf, mp.fset, ifs)
			if strings.Contains(buf.String(), "os.ReadDir(flagDebugDir)") {
				// comments are not part of the node; normalise white space
				debugDirChain = strings.Join(strings.Fields(buf.String()), " ")
			}
			return true
		})
		expect(debugDirChain != "", "toolexecCmd: the if-chain starting with os.ReadDir(flagDebugDir) was not found")
		// what follows the chain inside `if flagDebugDir != ""`: the directory and its ownership marker are created at once
		var debugDirCreate []string
		ast.Inspect(findFunc(mp, "toolexecCmd").Body, func(n ast.Node) bool {
			ifs, ok := n.(*ast.IfStmt)
			if !ok || len(debugDirCreate) > 0 {
				return true
			}
			var cond bytes.Buffer
			format.Node(&cond, mp.fset, ifs.Cond)
			if cond.String() == `flagDebugDir != ""` {
				debugDirCreate = callsInOrder(ifs.Body, map[string]bool{"ReadDir": true, "RemoveAll": true, "MkdirAll": true, "WriteFile": true})
			}
			return true
		})
		expect(len(debugDirCreate) > 0, "toolexecCmd: the `if flagDebugDir != \"\"` block was not found")
		var sb strings.Builder
		sb.WriteString(header + "namespace GV.Gen\n")
		for _, x := range []struct {
			name string
			l    []string
		}{{"linkerSteps", linkerSteps}, {"toolexecLinkSteps", toolexec}, {"buildCommandSteps", buildCmd}, {"reverseCommandSteps", rev}, {"mapCommandSteps", mapc}, {"debugDirSetupSteps", debugDirCreate}} {
			fmt.Fprintf(&sb, "def %s : List String := %s\n", x.name, leanStrList(x.l))
		}
		fmt.Fprintf(&sb, "def rejectLoopShape : String := %s\n", leanStr(rejectLoop))
		fmt.Fprintf(&sb, "def testSplitShape : String := %s\n", leanStr(testSplit))
		fmt.Fprintf(&sb, "def debugDirChainShape : String := %s\n", leanStr(debugDirChain))
		sb.WriteString("end GV.Gen\n")
		writeIfChanged("Steps.lean", sb.String())
	}
}
