package main

import (
	"fmt"
	"go/ast"
	"os/exec"
	"path/filepath"
	"regexp"
	"sort"
	"strings"
)

// goDocumentedFlags parses `go help build` and `go help testflag`: a line "\t-name" is a boolean flag,
// "\t-name operand" a value flag (this is the user-facing documentation the property refers to).
func goDocumentedFlags(topic string) map[string]bool {
	out, err := exec.Command(filepath.Join(*goroot, "bin", "go"), "help", topic).Output()
	expect(err == nil, "go help %s failed: %v", topic, err)
	rx := regexp.MustCompile(`^\t-([A-Za-z][A-Za-z0-9_.-]*)( .*)?$`)
	m := map[string]bool{}
	for _, l := range strings.Split(string(out), "\n") {
		if g := rx.FindStringSubmatch(l); g != nil {
			m[g[1]] = g[2] == ""
		}
	}
	expect(len(m) > 10, "go help %s: only %d flags recognised", topic, len(m))
	return m
}

// goSourceFlags reads the flag registrations from the toolchain's cmd/go source: name -> boolean?
func goSourceFlags() map[string]bool {
	res := map[string]bool{}
	boolTypes := map[string]bool{}
	varTypes := map[string]string{}
	dirs := []string{"cmd/go/internal/work", "cmd/go/internal/base", "cmd/go/internal/test"}
	var pkgs []*pkgInfo
	for _, d := range dirs {
		p := loadDir(filepath.Join(*goroot, "src", d))
		pkgs = append(pkgs, p)
		for _, f := range p.files {
			for _, decl := range f.Decls {
				switch d := decl.(type) {
				case *ast.FuncDecl:
					if d.Name.Name == "IsBoolFlag" && d.Recv != nil && len(d.Recv.List) == 1 {
						t := d.Recv.List[0].Type
						if st, ok := t.(*ast.StarExpr); ok {
							t = st.X
						}
						if id, ok := t.(*ast.Ident); ok {
							boolTypes[id.Name] = true
						}
					}
				case *ast.GenDecl:
					for _, s := range d.Specs {
						if vs, ok := s.(*ast.ValueSpec); ok && vs.Type != nil {
							if id, ok := vs.Type.(*ast.Ident); ok {
								for _, n := range vs.Names {
									varTypes[n.Name] = id.Name
								}
							}
						}
					}
				}
			}
		}
	}
	typeOfArg := func(e ast.Expr) string {
		switch e := e.(type) {
		case *ast.UnaryExpr: // &testV
			if id, ok := e.X.(*ast.Ident); ok {
				return varTypes[id.Name]
			}
		case *ast.CallExpr: // (*buildvcsFlag)(&x)
			if pe, ok := e.Fun.(*ast.ParenExpr); ok {
				if st, ok := pe.X.(*ast.StarExpr); ok {
					if id, ok := st.X.(*ast.Ident); ok {
						return id.Name
					}
				}
			}
		case *ast.CompositeLit:
			if id, ok := e.Type.(*ast.Ident); ok {
				return id.Name
			}
		}
		return ""
	}
	for _, p := range pkgs {
		for _, f := range p.files {
			ast.Inspect(f, func(n ast.Node) bool {
				call, ok := n.(*ast.CallExpr)
				if !ok {
					return true
				}
				sel, ok := call.Fun.(*ast.SelectorExpr)
				if !ok {
					return true
				}
				var nameArg ast.Expr
				isBool := false
				switch sel.Sel.Name {
				case "BoolVar":
					if len(call.Args) == 4 {
						nameArg, isBool = call.Args[1], true
					}
				case "Bool":
					if len(call.Args) == 3 {
						nameArg, isBool = call.Args[0], true
					}
				case "StringVar", "IntVar", "DurationVar":
					if len(call.Args) == 4 {
						nameArg = call.Args[1]
					}
				case "String", "Int", "Duration":
					if len(call.Args) == 3 {
						nameArg = call.Args[0]
					}
				case "Func":
					if len(call.Args) == 3 {
						nameArg = call.Args[0]
					}
				case "Var":
					if len(call.Args) == 3 {
						nameArg = call.Args[1]
						isBool = boolTypes[typeOfArg(call.Args[0])]
					}
				}
				if nameArg == nil {
					return true
				}
				if bl, ok := nameArg.(*ast.BasicLit); ok {
					name := strLit(bl)
					if old, dup := res[name]; dup {
						expect(old == isBool, "cmd/go registers flag -%s both as boolean and as value flag", name)
					}
					res[name] = isBool
				}
				return true
			})
		}
	}
	expect(len(res) > 40, "cmd/go source: only %d flag registrations found", len(res))
	return res
}

func init() {
	generators["FlagTables"] = func() {
		p := loadDir(*repo)
		fwd := p.stringBoolMap("forwardBuildFlags")
		bools := p.stringBoolMap("booleanFlags")
		for k, v := range bools {
			expect(v, "booleanFlags[%q] is false: the code tests booleanFlags[arg] as a set", k)
		}
		// rxGarbleFlag: regexp.MustCompile(`...`)
		call, ok := p.globalValue("rxGarbleFlag").(*ast.CallExpr)
		expect(ok && len(call.Args) == 1, "rxGarbleFlag is not regexp.MustCompile(<literal>)")
		rx := strLit(call.Args[0])
		var sb strings.Builder
		sb.WriteString(header + "namespace GV.Gen\n")
		sb.WriteString("/-- main.go booleanFlags (keys whose value is true) -/\ndef booleanFlags : List String := [")
		for i, k := range sortedKeys(bools) {
			if i > 0 {
				sb.WriteString(", ")
			}
			sb.WriteString(leanStr(k))
		}
		sb.WriteString("]\n/-- main.go forwardBuildFlags -/\ndef forwardBuildFlags : List (String × Bool) := [")
		for i, k := range sortedKeys(fwd) {
			if i > 0 {
				sb.WriteString(", ")
			}
			fmt.Fprintf(&sb, "(%s, %v)", leanStr(k), fwd[k])
		}
		sb.WriteString("]\n")
		fmt.Fprintf(&sb, "/-- source text of rxGarbleFlag -/\ndef rxGarbleFlagSource : String := %s\n", leanStr(rx))
		// garble's own flags, from flagSet.XxxVar(&v, "name", ...)
		var own []string
		for _, f := range p.files {
			ast.Inspect(f, func(n ast.Node) bool {
				c, ok := n.(*ast.CallExpr)
				if !ok {
					return true
				}
				sel, ok := c.Fun.(*ast.SelectorExpr)
				if !ok {
					return true
				}
				if id, ok := sel.X.(*ast.Ident); ok && id.Name == "flagSet" && (sel.Sel.Name == "BoolVar" || sel.Sel.Name == "StringVar" || sel.Sel.Name == "Var") {
					own = append(own, strLit(c.Args[1]))
				}
				return true
			})
		}
		sort.Strings(own)
		expect(len(own) >= 5, "garble's own flag registrations not found")
		sb.WriteString("/-- garble's own flags (flagSet registrations in main.go) -/\ndef garbleOwnFlags : List String := [")
		for i, k := range own {
			if i > 0 {
				sb.WriteString(", ")
			}
			sb.WriteString(leanStr(k))
		}
		sb.WriteString("]\nend GV.Gen\n")
		writeIfChanged("FlagTables.lean", sb.String())
	}
	generators["GoFlags"] = func() {
		build := goDocumentedFlags("build")
		test := goDocumentedFlags("testflag")
		src := goSourceFlags()
		all := map[string]bool{}
		for _, m := range []map[string]bool{build, test} {
			for k, v := range m {
				if k == "args" {
					continue // excluded by the property
				}
				sv, ok := src[k]
				expect(ok, "documented flag -%s has no registration in cmd/go's source", k)
				expect(sv == v, "flag -%s: documentation says boolean=%v, source registration says %v", k, v, sv)
				all[k] = v
			}
		}
		// -o is documented in the running text of `go help build`, not in the flag list
		if v, ok := src["o"]; ok {
			all["o"] = v
		}
		var sb strings.Builder
		sb.WriteString(header + "namespace GV.Gen\n")
		sb.WriteString("/-- flags documented by `go help build` / `go help testflag` (minus -args): (name without dash, boolean?) ;\n    boolean-ness cross-checked against the registrations in cmd/go's source -/\ndef goFlags : List (String × Bool) := [")
		for i, k := range sortedKeys(all) {
			if i > 0 {
				sb.WriteString(", ")
			}
			fmt.Fprintf(&sb, "(%s, %v)", leanStr(k), all[k])
		}
		sb.WriteString("]\n/-- the flags listed by `go help build` -/\ndef goBuildFlags : List String := [")
		for i, k := range sortedKeys(build) {
			if i > 0 {
				sb.WriteString(", ")
			}
			sb.WriteString(leanStr(k))
		}
		sb.WriteString("]\nend GV.Gen\n")
		writeIfChanged("GoFlags.lean", sb.String())
	}
}
