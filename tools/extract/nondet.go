package main

import (
	"bytes"
	"crypto/sha256"
	"encoding/json"
	"fmt"
	"go/ast"
	"go/format"
	"go/importer"
	"go/parser"
	"go/token"
	"go/types"
	"io"
	"os"
	"os/exec"
	"path/filepath"
	"sort"
	"strings"
)

// Nondeterminism inventory (C03).  Every place in garble's build path whose result could depend on something other
// than its inputs: a `range` over a map (or maps.Keys/Values/All), a package-level math/rand or crypto/rand call,
// clock / pid / hostname / temp-name / working-directory reads, goroutines and selects.  Each site is identified by
// package, function and an ordinal per kind, and carries a hash of the enclosing statement's source.  A hand-written
// expectation file (nondet_expect.json, next to this file) classifies each site into a class for which
// Props/C03.lean has an order-independence theorem, or marks it as not on the build path.  A site that is not in the
// file, or whose hash changed, is emitted as `.unclassified` and breaks the tie.

type ndSite struct {
	Key   string `json:"key"`  // pkg|func|kind#ordinal
	Kind  string `json:"kind"` // map-range, maps-iter, global-rand, crypto-rand, clock, pid, hostname, tempname, cwd, goroutine, select, numcpu
	Hash  string `json:"hash"`
	// FnHash is the hash of the whole enclosing function; the expectation file sets it for classes whose
	// justification depends on code outside the statement (collectSort: the sort that follows the loop).
	FnHash string `json:"fnhash,omitempty"`
	Class string `json:"class"`
	Note  string `json:"note,omitempty"`
	Text  string `json:"-"`
	Pos   string `json:"-"`
}

func typedLoad(repoDir string, rels []string) map[string]*pkgInfo {
	cmd := exec.Command("go", "list", "-export", "-deps", "-json=ImportPath,Export,Dir,GoFiles,Standard", "./...")
	cmd.Dir = repoDir
	cmd.Stderr = os.Stderr
	out, err := cmd.Output()
	expect(err == nil, "go list -export in %s failed: %v", repoDir, err)
	exports := map[string]string{}
	dec := json.NewDecoder(bytes.NewReader(out))
	for {
		var p struct{ ImportPath, Export, Dir string }
		if err := dec.Decode(&p); err == io.EOF {
			break
		} else {
			expect(err == nil, "go list output: %v", err)
		}
		if p.Export != "" {
			exports[p.ImportPath] = p.Export
		}
	}
	res := map[string]*pkgInfo{}
	for _, rel := range rels {
		fset := token.NewFileSet()
		imp := importer.ForCompiler(fset, "gc", func(path string) (io.ReadCloser, error) {
			f, ok := exports[path]
			if !ok {
				return nil, fmt.Errorf("no export data for %s", path)
			}
			return os.Open(f)
		})
		dir := filepath.Join(repoDir, rel)
		ents, err := os.ReadDir(dir)
		expect(err == nil, "cannot read %s: %v", dir, err)
		pi := &pkgInfo{fset: fset, files: map[string]*ast.File{}}
		var list []*ast.File
		for _, e := range ents {
			n := e.Name()
			if !strings.HasSuffix(n, ".go") || strings.HasSuffix(n, "_test.go") {
				continue
			}
			src, err := os.ReadFile(filepath.Join(dir, n))
			expect(err == nil, "read %s: %v", n, err)
			if bytes.Contains(src, []byte("//go:build verif")) || bytes.Contains(src, []byte("//go:build ignore")) {
				continue
			}
			f, err := parser.ParseFile(fset, filepath.Join(dir, n), src, parser.ParseComments|parser.SkipObjectResolution)
			expect(err == nil, "parse %s: %v", n, err)
			pi.files[n] = f
			list = append(list, f)
		}
		var terrs []string
		conf := types.Config{Importer: imp, Error: func(e error) { terrs = append(terrs, e.Error()) }, FakeImportC: true}
		pi.info = &types.Info{Defs: map[*ast.Ident]types.Object{}, Uses: map[*ast.Ident]types.Object{}, Types: map[ast.Expr]types.TypeAndValue{}, Selections: map[*ast.SelectorExpr]*types.Selection{}}
		pi.pkg, _ = conf.Check("p", fset, list, pi.info)
		expect(len(terrs) == 0, "type errors in %s: %v", rel, terrs[:min(3, len(terrs))])
		res[rel] = pi
	}
	return res
}

func stmtHash(fset *token.FileSet, n ast.Node) (string, string) {
	var buf bytes.Buffer
	format.Node(&buf, fset, n)
	// comments are not part of the node text; whitespace is normalised by the printer
	sum := sha256.Sum256(buf.Bytes())
	return fmt.Sprintf("%x", sum[:6]), buf.String()
}

func inventory(rel string, pi *pkgInfo) []ndSite {
	var sites []ndSite
	names := sortedKeys(pi.files)
	for _, fname := range names {
		file := pi.files[fname]
		for _, decl := range file.Decls {
			var fn string
			var body ast.Node
			switch d := decl.(type) {
			case *ast.FuncDecl:
				fn = d.Name.Name
				if d.Recv != nil && len(d.Recv.List) == 1 {
					t := d.Recv.List[0].Type
					if s, ok := t.(*ast.StarExpr); ok {
						t = s.X
					}
					if ix, ok := t.(*ast.IndexExpr); ok {
						t = ix.X
					}
					fn = fmt.Sprint(t) + "." + fn
				}
				if d.Body == nil {
					continue
				}
				body = d.Body
			case *ast.GenDecl:
				if d.Tok != token.VAR {
					continue
				}
				fn = "var:" + fname
				body = d
			}
			counts := map[string]int{}
			fnHash, _ := stmtHash(pi.fset, decl)
			add := func(kind string, n ast.Node) {
				counts[kind]++
				h, text := stmtHash(pi.fset, n)
				pkg := rel
				if pkg == "." {
					pkg = "main"
				}
				sites = append(sites, ndSite{Key: fmt.Sprintf("%s|%s|%s#%d", pkg, fn, kind, counts[kind]), Kind: kind, Hash: h, FnHash: fnHash, Text: text,
					Pos: pi.fset.Position(n.Pos()).String()})
			}
			var stack []ast.Node
			enclosingStmt := func() ast.Node {
				for i := len(stack) - 1; i >= 0; i-- {
					if s, ok := stack[i].(ast.Stmt); ok {
						if _, isBlock := s.(*ast.BlockStmt); !isBlock {
							return s
						}
					}
					if s, ok := stack[i].(*ast.ValueSpec); ok {
						return s
					}
				}
				return stack[len(stack)-1]
			}
			ast.Inspect(body, func(n ast.Node) bool {
				if n == nil {
					stack = stack[:len(stack)-1]
					return true
				}
				stack = append(stack, n)
				switch n := n.(type) {
				case *ast.RangeStmt:
					if tv, ok := pi.info.Types[n.X]; ok {
						if _, isMap := tv.Type.Underlying().(*types.Map); isMap {
							add("map-range", n)
						}
					}
				case *ast.GoStmt:
					add("goroutine", n)
				case *ast.SelectStmt:
					add("select", n)
				case *ast.CallExpr:
					sel, ok := n.Fun.(*ast.SelectorExpr)
					if !ok {
						break
					}
					// library calls whose result order is a map's iteration order
					switch sel.Sel.Name {
					case "AllPackages", "AllFunctions", "MapKeys", "MapRange":
						if pi.info.Selections[sel] != nil {
							add("unordered-api", enclosingStmt())
						}
					}
					id, ok := sel.X.(*ast.Ident)
					if !ok {
						break
					}
					pn, ok := pi.info.Uses[id].(*types.PkgName)
					if !ok {
						break
					}
					path, name := pn.Imported().Path(), sel.Sel.Name
					kind := ""
					switch {
					case path == "maps" && (name == "Keys" || name == "Values" || name == "All"):
						kind = "maps-iter"
					case (path == "math/rand" || path == "math/rand/v2") && !strings.HasPrefix(name, "New"):
						kind = "global-rand"
					case path == "crypto/rand":
						kind = "crypto-rand"
					case path == "time" && (name == "Now" || name == "Since" || name == "Until"):
						kind = "clock"
					case path == "os" && (name == "Getpid" || name == "Getppid"):
						kind = "pid"
					case path == "os" && name == "Hostname":
						kind = "hostname"
					case path == "os" && (name == "MkdirTemp" || name == "CreateTemp" || name == "TempDir"):
						kind = "tempname"
					case path == "os" && (name == "Getwd" || name == "Executable"), path == "path/filepath" && name == "Abs":
						kind = "cwd"
					case path == "runtime" && (name == "NumCPU" || name == "GOMAXPROCS"):
						kind = "numcpu"
					}
					if kind != "" {
						add(kind, enclosingStmt())
					}
				}
				return true
			})
		}
	}
	return sites
}

var ndClasses = []string{"setBuild", "collectSort", "commutative", "anyMatch", "perKeyIndependent", "notOnBuildPath", "notInOutput", "seededElsewhere", "orderDependent", "unclassified"}

func init() {
	generators["Nondet"] = func() {
		rels := []string{".", "internal/literals", "internal/ctrlflow", "internal/ssa2ast", "internal/asthelper", "internal/linker"}
		pkgs := typedLoad(*repo, rels)
		var sites []ndSite
		for _, rel := range rels {
			sites = append(sites, inventory(rel, pkgs[rel])...)
		}
		exe, _ := os.Executable()
		_ = exe
		expPath := os.Getenv("GV_NONDET_EXPECT")
		if expPath == "" {
			expPath = "/verif/tools/extract/nondet_expect.json"
		}
		var exp []ndSite
		if data, err := os.ReadFile(expPath); err == nil {
			expect(json.Unmarshal(data, &exp) == nil, "bad %s", expPath)
		}
		byKey := map[string]ndSite{}
		for _, e := range exp {
			byKey[e.Key] = e
		}
		var problems []string
		seen := map[string]bool{}
		for i := range sites {
			s := &sites[i]
			seen[s.Key] = true
			e, ok := byKey[s.Key]
			switch {
			case !ok:
				s.Class = "unclassified"
				problems = append(problems, fmt.Sprintf("new nondeterminism site %s at %s", s.Key, s.Pos))
			case e.Hash != s.Hash:
				s.Class = "unclassified"
				problems = append(problems, fmt.Sprintf("site %s at %s changed (hash %s, classified at %s as %s)", s.Key, s.Pos, s.Hash, e.Hash, e.Class))
			case e.FnHash != "" && e.FnHash != s.FnHash:
				s.Class = "unclassified"
				problems = append(problems, fmt.Sprintf("the function around site %s at %s changed (its class %s depends on the code after the statement)", s.Key, s.Pos, e.Class))
			default:
				s.Class, s.Note = e.Class, e.Note
			}
		}
		if dump := os.Getenv("GV_NONDET_DUMP"); dump != "" {
			var sb strings.Builder
			for _, s := range sites {
				fmt.Fprintf(&sb, "=== %s  [%s]  fn[%s]  %s  class=%s\n%s\n\n", s.Key, s.Hash, s.FnHash, s.Pos, s.Class, s.Text)
			}
			os.WriteFile(dump, []byte(sb.String()), 0o644)
		}
		sort.SliceStable(sites, func(i, j int) bool { return sites[i].Key < sites[j].Key })
		var sb strings.Builder
		sb.WriteString(header)
		sb.WriteString("import GV.Model.Nondet\nnamespace GV.Gen\nopen GV.Nondet\n\n")
		sb.WriteString("/-- every nondeterminism site of garble's packages, with the class the expectation file assigns to it -/\n")
		sb.WriteString("def nondetSites : List Site := [\n")
		for i, s := range sites {
			sep := ","
			if i == len(sites)-1 {
				sep = ""
			}
			fmt.Fprintf(&sb, "  ⟨%s, %s, .%s⟩%s\n", leanStr(s.Key), leanStr(s.Kind), s.Class, sep)
		}
		sb.WriteString("]\n\nend GV.Gen\n")
		writeIfChanged("Nondet.lean", sb.String())
		if len(problems) > 0 {
			panic(tieError{strings.Join(problems, "; ")})
		}
	}
}
