module gvtools

go 1.26.2
