#!/bin/sh
# runs every registered quick check in turn on the current tree; prints one line per property
cd /verif
for id in C16 C12 C20 C15 C05 C09 C04 C13 C14 C02 C08 C01 C06 C07 C10 C03 C11 C17 C18 C19; do
  s=$(date +%s)
  ./check $id --tier ${1:-quick} > /var/tmp/gv/sweep_$id.log 2>&1
  rc=$?
  e=$(date +%s)
  echo "$id rc=$rc $((e-s))s $(grep -c '^VIOLATION' /var/tmp/gv/sweep_$id.log) violations $(grep -c '^KNOWN-FINDING' /var/tmp/gv/sweep_$id.log) known"
done
