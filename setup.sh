#!/bin/sh
# Builds the framework from files on disk only (offline): tools, Lean project (all proofs), oracle.
set -e
cd "$(dirname "$0")"
python3 - <<'PY'
import sys
sys.path.insert(0, ".")
from gvlib import core
core.build_tools()
ok, broken = core.regen([])
print("regen:", ok, broken)
o, err = core.build_oracle()
print("oracle:", o, err[-500:] if not o else "")
g, err = core.build_garble()
print("garble:", g, err[-500:] if not g else "")
ok, failing, log = core.lake_build([])
print(log[-2000:])
sys.exit(0 if ok and o and g else 1)
PY
