#!/bin/sh
# Builds the framework from files on disk only (offline): tools, Lean project (all proofs), oracle and garble;
# then warms the (optional, accelerator-only) build caches under /var/tmp/gv-cache for the flag sets the quick tiers use.
set -e
cd "$(dirname "$0")"
python3 - <<'PY'
import sys, time
sys.path.insert(0, ".")
from gvlib import core
core.build_tools()
ok, broken = core.regen([])
print("regen:", ok, broken)
o, err = core.build_oracle()
print("oracle:", o, err[-500:] if not o else "")
g, err = core.build_garble()
print("garble:", g, err[-500:] if not g else "")
try:
    from gvlib import c10
    c10.regenerate()          # Gen/RuntimeGraph.lean from the stripped runtime
except Exception as e:
    print("runtime graph not regenerated:", e)
ok, failing, log = core.lake_build([])
print(log[-2000:])
if not (ok and o and g):
    sys.exit(1)
# warm caches (best effort)
try:
    from gvlib import e2e
    E = e2e.E2E("setup")
    root = E.write_module("hello", {"go.mod": "module gv.test/hello\n\ngo 1.26\n", "main.go": "package main\n\nimport (\n\t\"fmt\"\n\t\"os\"\n\t\"strconv\"\n\t\"strings\"\n)\n\nfunc main() { fmt.Println(strings.Repeat(strconv.Itoa(len(os.Args)), 2)) }\n"})
    for fl in ([], ["-literals", "-seed=o9WDTZ4CN4w"], ["-tiny"]):
        t = time.time()
        r = E.run_garble(fl, ["build", "-o", "out", "."], root)
        print("warm", fl, r.returncode, round(time.time() - t, 1), r.stderr[-200:])
    E.cleanup()
except Exception as e:
    print("cache warm-up skipped:", e)
PY
