module gv.test
go 1.26
