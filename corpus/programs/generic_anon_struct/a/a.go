package a
type Box[T any] struct{ V T; next *Box[T] }
func Mk[T any]() struct{ F T; G int } { var z struct{ F T; G int }; return z }
func MkPtr[T any]() *struct{ Elem []T; box Box[T] } { return &struct{ Elem []T; box Box[T] }{} }
