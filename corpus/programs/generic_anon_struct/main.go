package main
import "gv.test/a"
func main() {
	m := a.Mk[int]()
	println(m.F)
	mp := a.MkPtr[string]()
	println(len(mp.Elem))
}
