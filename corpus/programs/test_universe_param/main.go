package main

func TestConnection(err error) string {
	if err != nil {
		return err.Error()
	}
	return "ok"
}

func main() { println(TestConnection(nil)) }
