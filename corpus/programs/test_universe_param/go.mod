module gv.test/testerr
go 1.26
