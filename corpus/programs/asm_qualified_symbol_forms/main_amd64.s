#include "textflag.h"

// the qualified name is the last thing on its line (a macro body)
#define ADDIMPL gv·example·test∕asm·forms∕v2∕mathx·AddImpl
#define EXPORTED gv·example·test∕asm·forms∕v2∕mathx·Exported

TEXT ·viaMacroAtEndOfLine(SB),NOSPLIT,$0-12
	JMP ADDIMPL(SB)

TEXT ·viaDirectJump(SB),NOSPLIT,$0-12
	JMP gv·example·test∕asm·forms∕v2∕mathx·AddImpl(SB)

TEXT ·viaCall(SB),$16-12
	MOVL x+0(FP), AX
	MOVL AX, 0(SP)
	MOVL y+4(FP), AX
	MOVL AX, 4(SP)
	CALL gv·example·test∕asm·forms∕v2∕mathx·AddImpl(SB)
	MOVL 8(SP), AX
	ADDL EXPORTED(SB), AX
	MOVL AX, ret+8(FP)
	RET
