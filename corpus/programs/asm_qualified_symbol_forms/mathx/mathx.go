package mathx

// AddImpl is implemented in mathx_amd64.s.
func AddImpl(x, y int32) int32

var Exported int32 = 5
