#include "textflag.h"

TEXT ·AddImpl(SB),NOSPLIT,$0-12
	MOVL x+0(FP), BX
	MOVL y+4(FP), CX
	ADDL CX, BX
	MOVL BX, ret+8(FP)
	RET
