module gv.example.test/asm.forms/v2

go 1.26
