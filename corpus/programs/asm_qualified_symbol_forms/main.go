package main

import (
	"fmt"
	"os"

	"gv.example.test/asm.forms/v2/mathx"
)

// implemented in main_amd64.s; each reaches mathx.AddImpl through a differently written qualified symbol
func viaMacroAtEndOfLine(x, y int32) int32
func viaDirectJump(x, y int32) int32
func viaCall(x, y int32) int32

func main() {
	n := int32(len(os.Args))
	fmt.Println(viaMacroAtEndOfLine(n, 40), viaDirectJump(n, 41), viaCall(n, 42), mathx.AddImpl(n, 1), mathx.Exported)
}
