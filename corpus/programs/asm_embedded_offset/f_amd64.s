#include "textflag.h"
#include "go_asm.h"

TEXT ·getB(SB),NOSPLIT,$0-16
	MOVQ o+0(FP), AX
	MOVQ (outer_inner+inner_b)(AX), BX
	MOVQ BX, ret+8(FP)
	RET

TEXT ·getNamedB(SB),NOSPLIT,$0-16
	MOVQ o+0(FP), AX
	MOVQ (outer_named+inner_b)(AX), BX
	MOVQ BX, ret+8(FP)
	RET
