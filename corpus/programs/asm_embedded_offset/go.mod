module gv.test/asmemb
go 1.26
