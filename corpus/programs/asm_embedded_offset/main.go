package main

type inner struct{ a, b int64 }
type outer struct {
	pad int64
	inner
	named inner
}

func getB(o *outer) int64
func getNamedB(o *outer) int64

func main() {
	o := &outer{pad: 1, inner: inner{2, 3}, named: inner{4, 5}}
	println(getB(o), getNamedB(o))
}
