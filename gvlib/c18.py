"""C18 — an interrupted build leaves nothing that breaks the next one."""
import os, random, shutil, signal, subprocess, time
from . import core, e2e, progen, c06

PID = "C18"
GENS = ["Consts", "Steps"]
MODULES = ["GV.Props.C18"]


def stamp_correspondence(chk, tier, E, diffs):
    """the decision taken under the lock (real checkVersion && fileExists on real files) vs the model's `reusable`, over
    stamp files in every state a crash or an upgrade can leave: none, empty, every proper prefix, other Go version, other
    patch version, other binary size, extra bytes, missing final newline; binary missing / empty / truncated / complete"""
    from . import c01model
    from .c01model import hx
    orc, err = core.build_oracle()
    S = c01model.OracleSession(orc, E.env())
    rnd = random.Random(chk.seed * 89 + 2)
    mops, expect = [], []
    try:
        for _ in range(6 if tier == "quick" else 60):
            gv = rnd.choice(["go1.26.2", "go1.26", "go1.27rc1", "devel go1.27-abcdef"])
            pv = "".join(rnd.choice("0123456789abcdef") for _ in range(rnd.choice([8, 40])))
            size = rnd.choice([0, 1, 9, 10, 4096, 8123456])
            good = S.ask("linkstamp %d %s %s" % (size, hx(gv), hx(pv)))
            mops.append("linkstampm %d %s %s" % (size, hx(gv), hx(pv))); expect.append(good)
            raw = bytes.fromhex(good) if good != "-" else b""
            stamps = ["none", "-", good, good[:-2] or "-", good + "0a", hx((gv + "x " + pv + "\n%d\n" % size)), hx((gv + " " + pv + "0\n%d\n" % size)),
                      hx((gv + " " + pv + "\n%d\n" % (size + 1))), hx((gv + " " + pv + "\n")), hx(gv + " " + pv)]
            stamps += [raw[:k].hex() or "-" for k in sorted(set(rnd.randrange(0, len(raw)) for _ in range(4)))]
            sizes = [-1, 0, size, size + 1, max(0, size - 1), size // 2]
            for stp in stamps:
                for sz in sizes:
                    a = S.ask("linkreuse %s %d %s %s" % (stp, sz, hx(gv), hx(pv)))
                    mops.append("linkreusem %s %d %s %s" % (stp, sz, hx(gv), hx(pv))); expect.append(a)
    finally:
        S.close()
    ans = c01model.model_answers(mops)
    st = chk.cov["streams"].setdefault("oracle:linker-stamp", {"cases": 0, "reused": 0, "disagreements": 0})
    for o, e, m in zip(mops, expect, ans):
        st["cases"] += 1
        if e == "1":
            st["reused"] += 1
        if e != m:
            st["disagreements"] += 1
            diffs.append({"op": o[:200], "impl": e[:100], "model": m[:100]})
    chk.count_cases(mops)


def main(tier, replay=None):
    chk = core.Check(PID, tier)
    core.build_tools()
    chk.proofs(GENS, MODULES)
    E = e2e.E2E("c18")
    fails = []
    STAMPDIFFS = []
    stamp_correspondence(chk, tier, E, STAMPDIFFS)
    if STAMPDIFFS:
        chk.cov["broken"].append({"kind": "correspondence", "what": "%d disagreements on the linker stamp decision, first: %s" % (len(STAMPDIFFS), STAMPDIFFS[0])})
        chk.log("correspondence broken:", str(STAMPDIFFS[0])[:300])
    try:
        rnd = random.Random(chk.seed * 47 + 9)
        prog = c06.program(rnd)
        files = prog.render()
        hello = E.write_module("hello", {"go.mod": "module gv.test/hello\n\ngo 1.26\n", "main.go": "package main\n\nimport (\n\t\"encoding/json\"\n\t\"fmt\"\n\t\"os\"\n\t\"reflect\"\n\t\"strconv\"\n\t\"strings\"\n)\n\nfunc main() { b, _ := json.Marshal(os.Args); fmt.Println(strings.Repeat(strconv.Itoa(len(b)), 2), reflect.TypeOf(b)) }\n"})
        E.run_garble([], ["build", "-o", "out", "."], hello)
        base = c06.CacheSet(E, "base"); base.drop(); os.makedirs(base.dir)
        c06.copy_tree(E.gocache, base.go); c06.copy_tree(E.garblecache, base.garble)
        R = c06.CacheSet(E, "ref", base)
        refroot = os.path.join(E.scratch, "ref_src"); c06.write_prog(refroot, files)
        t0 = time.time()
        b = E.run_garble([], ["build", "-o", "out_ref", "."], refroot, R.env())
        if b.returncode != 0:
            raise RuntimeError("reference build failed: " + b.stderr[-500:])
        ref = e2e.sha256_file(os.path.join(refroot, "out_ref"))
        R.drop()
        # the victim build: caches without the patched linker and without any std object of the obfuscated closure would
        # take minutes; instead the linker is removed (so that the patch/build/stamp window exists, ~13 s) and the module is new
        # to the caches (go list, obfuscation of each package, link, trim all happen)
        C0 = c06.CacheSet(E, "probe", base)
        shutil.rmtree(os.path.join(C0.garble, "tool"), ignore_errors=True)
        root = os.path.join(E.scratch, "src"); c06.write_prog(root, files)
        t0 = time.time()
        b = E.run_garble([], ["build", "-o", "out", "."], root, C0.env())
        full = time.time() - t0
        C0.drop()
        n = 6 if tier == "quick" else 40
        instants = sorted(set([0.05, 0.3] + [round(full * k / n, 2) for k in range(1, n)]))
        st = chk.cov["streams"].setdefault("e2e:kill", {"uninterrupted_build_s": round(full, 1), "kill_instants": 0, "killed_while_running": 0, "rerun_identical": 0})
        for t in instants:
            C = c06.CacheSet(E, "kill", base)
            shutil.rmtree(os.path.join(C.garble, "tool"), ignore_errors=True)
            shutil.rmtree(root, ignore_errors=True); c06.write_prog(root, files)
            p = subprocess.Popen([E.garble, "build", "-o", "out", "."], cwd=root, env=E.env(C.env()), stdout=subprocess.DEVNULL, stderr=subprocess.DEVNULL, start_new_session=True)
            time.sleep(t)
            alive = p.poll() is None
            try:
                os.killpg(p.pid, signal.SIGKILL)
            except ProcessLookupError:
                pass
            p.wait()
            st["kill_instants"] += 1
            st["killed_while_running"] += 1 if alive else 0
            # a second kill, earlier, on the rerun for some instants (repeated interruption)
            if tier == "thorough" and alive and rnd.random() < 0.3:
                p2 = subprocess.Popen([E.garble, "build", "-o", "out", "."], cwd=root, env=E.env(C.env()), stdout=subprocess.DEVNULL, stderr=subprocess.DEVNULL, start_new_session=True)
                time.sleep(t / 2)
                try:
                    os.killpg(p2.pid, signal.SIGKILL)
                except ProcessLookupError:
                    pass
                p2.wait()
            r = E.run_garble([], ["build", "-o", "out", "."], root, C.env())
            chk.count_cases(["kill|%.2f" % t])
            if r.returncode != 0:
                fails.append({"why": "the build after an interrupted build fails", "detail": {"killed_after_s": t, "of_s": round(full, 1), "stderr": r.stderr[-1200:]}, "key": "rerun-fails"})
            elif e2e.sha256_file(os.path.join(root, "out")) != ref:
                fails.append({"why": "the build after an interrupted build differs from an uninterrupted one", "detail": {"killed_after_s": t, "of_s": round(full, 1)}, "key": "rerun-differs"})
            else:
                st["rerun_identical"] += 1
            C.drop()
        # the same with -debugdir: a killed build must not leave a debug directory that the re-run refuses or leaves incomplete
        dd = os.path.join(E.scratch, "kill_debugdir")
        for t in ([4.0] if tier == "quick" else [1.0, 4.0, 12.0, 30.0]):
            C = c06.CacheSet(E, "killdd", base)
            shutil.rmtree(root, ignore_errors=True); c06.write_prog(root, files)
            shutil.rmtree(dd, ignore_errors=True)
            cmdline = [E.garble, "-debugdir=" + dd, "build", "-o", "out", "."]
            p = subprocess.Popen(cmdline, cwd=root, env=E.env(C.env()), stdout=subprocess.DEVNULL, stderr=subprocess.DEVNULL, start_new_session=True)
            time.sleep(t)
            alive = p.poll() is None
            try:
                os.killpg(p.pid, signal.SIGKILL)
            except ProcessLookupError:
                pass
            p.wait()
            left = sorted(os.listdir(dd)) if os.path.isdir(dd) else None
            st["kill_instants"] += 1
            st["killed_while_running"] += 1 if alive else 0
            r = E.run_garble(["-debugdir=" + dd], ["build", "-o", "out", "."], root, C.env())
            chk.count_cases(["kill-debugdir|%.2f" % t])
            if r.returncode != 0:
                fails.append({"why": "the -debugdir build after an interrupted -debugdir build fails", "detail": {"killed_after_s": t, "debugdir_left_with": left, "stderr": r.stderr[-600:]}, "key": "rerun-fails:debugdir"})
            elif not os.path.exists(os.path.join(dd, "garbled", prog.mod)) or not os.path.exists(os.path.join(dd, "source", prog.mod)):
                fails.append({"why": "after the re-run the debug directory is incomplete", "detail": {"killed_after_s": t, "entries": sorted(os.listdir(dd))}, "key": "rerun-debugdir-incomplete"})
            else:
                st["rerun_identical"] += 1
            C.drop()
        chk.add_sample({"uninterrupted_build_s": round(full, 1), "kill_instants_s": instants[:8]})
        base.drop()
    finally:
        E.cleanup()
    seen = set()
    for f in fails:
        if f["key"] not in seen:
            seen.add(f["key"])
            chk.violation(f["why"] + ": " + str(f["detail"])[:500], {"kind": "kill", **f}, True, key=f["key"])
    chk.cov["rule"] = ("kill sweep: a build of a new module over caches without the patched linker (go list, obfuscation of each package, linker patch/build/stamp, link, cache trim all happen) is killed with SIGKILL "
                       "(whole process group) at instants spread over its duration; the same build is run again on the same caches and compared byte for byte with an uninterrupted build")
    chk.assumptions += ["kill -9 semantics of the OS (lock release, partially written files) are sampled, not modelled: partial", "entries cut short by a crash are misses (C07)"]
    return chk.finish()
