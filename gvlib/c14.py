"""C14 — GOGARBLE selects exactly which packages are obfuscated."""
import itertools, json, os, random, re
from . import core, e2e, progen, c01model
from .c01model import hx, unhex, parse_list, OracleSession

PID = "C14"
GENS = ["Consts", "StdTables"]
MODULES = ["GV.Props.C14"]


def gen_patterns(rnd, paths):
    """pattern lists over the literal / * / ? fragment: exact, prefix, glob, comma lists, std patterns, non-matching"""
    pats = ["*", "", ",", "runtime", "fmt", "strconv,os", "nomatch.example/x", "std*", "*/*", "?"]
    for p in paths:
        parts = p.split("/")
        pats += [p, parts[0], "/".join(parts[:2]), parts[0] + "/*", p + "/sub", p[:-1] + "?", p[:-1], p + ",fmt", "x," + p + ",,"]
        if len(parts) > 2:
            pats.append("/".join(parts[:1] + ["*"] + parts[2:]))
            pats.append("*/" + "/".join(parts[1:]))
    rnd.shuffle(pats)
    return pats


def library_tie(chk, S, rnd, paths, diffs, n):
    """module.MatchPrefixPatterns vs Model/Scope.matchPrefixPatterns"""
    mops, expect = [], []
    alphabet = "ab/*?,."
    targets = list(paths) + ["runtime", "a", "a/b", "a/b/c", "ab/c", "", "a//b", "internal/abi", "command-line-arguments"]
    for k in range(n):
        if k % 3 == 0:
            g = "".join(rnd.choice(alphabet) for _ in range(rnd.randrange(0, 7)))
            t = "".join(rnd.choice("ab/.") for _ in range(rnd.randrange(0, 7)))
        else:
            g = rnd.choice(gen_patterns(rnd, paths[:2]))
            t = rnd.choice(targets)
        a = S.ask("matchprefix %s %s" % (hx(g), hx(t)))
        mops.append("matchm %s %s" % (hx(g), hx(t))); expect.append(a)
    ans = c01model.model_answers(mops)
    for o, e, m in zip(mops, expect, ans):
        if e != m:
            diffs.append({"op": o, "impl": e, "model": m, "what": "pattern matcher vs x/mod"})
    chk.count_cases(mops)
    chk.cov["streams"].setdefault("library:MatchPrefixPatterns", {"cases": 0})["cases"] += len(mops)


def oracle_part(chk, tier, E, orc, prog, root, diffs, fails):
    rnd = random.Random(chk.seed * 17 + 1)
    # reference for "the runtime and its dependencies": the toolchain's own answer, not garble's table
    runtime_deps = set(E.run_go(["list", "-deps", "runtime"], root).stdout.split())
    S = OracleSession(orc, E.env(), cwd=root)
    try:
        paths = [prog.ipath(rel) for rel in prog.libs] + [prog.mod]
        library_tie(chk, S, rnd, paths, diffs, 400 if tier == "quick" else 20000)
        pats = gen_patterns(rnd, paths)
        npat = 12 if tier == "quick" else len(pats)
        for cmd in (["load"], ["loadcmd", hx("test")]):
            for gg in pats[:npat] if cmd == ["load"] else pats[:4] + ["*", paths[0]]:
                a = S.ask(" ".join(cmd + [hx(root), hx(gg), hx("./...")]))
                mops, expect = [], []
                if a.startswith("err"):
                    msg = unhex(a.split(" ")[1]).decode("utf-8", "replace")
                    pk = []
                    nomatch = "does not match any packages" in msg
                    if not nomatch:
                        diffs.append({"op": "load GOGARBLE=" + gg, "impl": msg[:200], "model": "(listing succeeds)"}); continue
                    # the model must also say "error": needs the package list, which the failed load still holds
                    pkl = parse_list(S.ask("pkgs"))
                else:
                    nomatch = False
                    pkl = parse_list(S.ask("pkgs"))
                items = []
                gg_eff = gg if gg else "*"
                for line in pkl:
                    f = line.split("|")
                    items.append(f)
                    mops.append("toobfm %s %s %s %s %s" % (hx(gg_eff), f[0], f[1], f[4], f[6])); expect.append(f[2])
                flat = []
                for f in items:
                    flat += [f[0], f[1], f[4], f[6]]
                if items:
                    mops.append("nomatchm %s %s" % (hx(gg_eff), " ".join(flat))); expect.append("1" if nomatch else "0")
                ans = c01model.model_answers(mops)
                for o, e, m in zip(mops, expect, ans):
                    if e != m:
                        diffs.append({"op": o[:300], "impl": e, "model": m, "gogarble": gg, "command": cmd[-1]})
                chk.count_cases(["%s|%s|%s" % (cmd[-1], gg, o) for o in mops])
                st = chk.cov["streams"].setdefault("oracle:scope", {"pattern_lists": 0, "package_decisions": 0, "nothing_matches_errors": 0})
                st["pattern_lists"] += 1; st["package_decisions"] += len(items); st["nothing_matches_errors"] += 1 if nomatch else 0
                # property level on the implementation: a test variant follows the package it tests
                byp = {unhex(f[0]).decode(): f for f in items}
                for f in items:
                    ft = unhex(f[4]).decode()
                    if ft and ft in byp and int(f[6]) > 0 and int(byp[ft][6]) > 0 and unhex(f[1]).decode() != "main" and f[2] != byp[ft][2]:
                        fails.append({"why": "a test variant of a package is %s while the package itself is %s" % ("obfuscated" if f[2] == "1" else "left plain", "obfuscated" if byp[ft][2] == "1" else "left plain"),
                                      "detail": {"package": unhex(f[0]).decode(), "ForTest": ft, "GOGARBLE": gg, "command": "garble test"}, "key": "fortest-differs"})
                # property level on the implementation: runtime and deps never in scope
                for f in items:
                    p = unhex(f[0]).decode()
                    if f[2] == "1" and p in runtime_deps:
                        fails.append({"why": "the runtime or one of its dependencies is selected for obfuscation", "detail": {"package": p, "GOGARBLE": gg}, "key": "runtime-in-scope"})
        chk.add_sample({"gogarble": pats[0], "packages": paths})
    finally:
        S.close()


def e2e_part(chk, tier, E, prog, root, fails):
    """real builds for GOGARBLE subsets: behaviour equal, map lists exactly the in-scope packages, out-of-scope
    packages are not rewritten (no garbled artefact or verbatim names), nothing-matches is an error"""
    libs = [prog.ipath(rel) for rel in prog.libs]
    allp = libs + [prog.mod]
    subsets = []
    for r in range(len(allp) + 1):
        for c in itertools.combinations(range(len(allp)), r):
            subsets.append(c)
    rnd = random.Random(chk.seed)
    if tier == "quick":
        subsets = [(0,), (len(allp) - 1,)]
    plain = os.path.join(root, "out_plain")
    r = E.run_go(["build", "-trimpath"] + e2e.ldflag_args(prog) + ["-o", plain, "."], root)
    if r.returncode != 0:
        chk.notes.append("regular build failed: " + r.stderr[-300:]); return
    for c in subsets:
        pats = [allp[i] for i in c]
        gg = ",".join(pats)
        # GOGARBLE patterns are path PREFIXES: selecting a path selects everything below it
        sel = [p for p in allp if any(p == q or p.startswith(q + "/") for q in pats)]
        env = {"GOGARBLE": gg} if gg else {"GOGARBLE": "nomatch.example/none"}
        dbg = os.path.join(E.scratch, "dbg_%s" % "_".join(map(str, c)))
        out = os.path.join(root, "out_g")
        b = E.run_garble(["-debugdir=" + dbg], ["build"] + e2e.ldflag_args(prog) + ["-o", out, "."], root, env)
        chk.count_cases(["e2e|" + gg])
        st = chk.cov["streams"].setdefault("e2e:subsets", {"builds": 0})
        st["builds"] += 1
        if not sel:
            if b.returncode == 0 or "does not match any packages" not in b.stderr:
                fails.append({"why": "a GOGARBLE that matches nothing being built is not rejected", "detail": {"GOGARBLE": env["GOGARBLE"], "rc": b.returncode, "stderr": b.stderr[-300:]}, "key": "nothing-matches-accepted"})
            continue
        if b.returncode != 0:
            key = "subset-build-fails"
            if "cannot convert" in b.stderr and "crosspkg" in prog.features and 0 < len(sel) < len(allp):
                key = "subset-build-fails:conversion-between-identical-structs-across-the-GOGARBLE-boundary"
            fails.append({"why": "garble build fails for a GOGARBLE subset", "detail": {"GOGARBLE": gg, "stderr": b.stderr[-1500:]}, "key": key})
            continue
        res = {"plain": plain, "garbled": out}
        for d in e2e.compare_behaviour(E, res):
            fails.append({"why": "the mixed (partly obfuscated) program behaves differently from the regular build", "detail": {"GOGARBLE": gg, **d}, "key": "subset-behaviour"})
            break
        m = E.run_garble([], ["map", "./..."], root, env)
        if m.returncode == 0:
            listed = set(k for k in json.loads(m.stdout) if k in allp)
            if listed != set(sel):
                fails.append({"why": "garble map lists a different set of packages than GOGARBLE selects", "detail": {"GOGARBLE": gg, "listed": sorted(listed)}, "key": "map-scope"})
        # names: in-scope packages must have their GO-stem identifiers renamed in the garbled tree, out-of-scope ones must not be rewritten
        for rel, ip in zip(prog.libs + [""], allp):
            gdir = os.path.join(dbg, "garbled", ip)
            files = [f for f in (os.listdir(gdir) if os.path.isdir(gdir) else []) if f.endswith(".go")]
            txt = "".join(open(os.path.join(gdir, f)).read() for f in files)
            decl_names = [n for n in prog.go_names if re.search(r"\b(func|type|var)\s+(\([^)]*\)\s*)?%s\b" % re.escape(n), "".join(prog.render().get((rel + "/" if rel else "") + f, "") for f in prog.pkgs[rel]["files"]))]
            if ip in sel:
                left = [n for n in decl_names if re.search(r"\b%s\b" % re.escape(n), txt)]
                if not files or left:
                    fails.append({"why": "a package selected by GOGARBLE keeps original declaration names", "detail": {"GOGARBLE": gg, "package": ip, "names": left[:5]}, "key": "in-scope-not-obfuscated"})
            else:
                if files and any(not re.search(r"\b%s\b" % re.escape(n), txt) for n in decl_names):
                    fails.append({"why": "a package outside GOGARBLE has renamed declarations", "detail": {"GOGARBLE": gg, "package": ip}, "key": "out-of-scope-renamed"})
                if files and "/*line " in txt:
                    fails.append({"why": "a package outside GOGARBLE has obfuscated positions", "detail": {"GOGARBLE": gg, "package": ip}, "key": "out-of-scope-positions"})


def chain_module(chk, tier, E, fails):
    """a plain package that uses fields and methods of an obfuscated package's types WITHOUT importing it (it gets them
    through another plain package): every file of a plain package still has to be rewritten"""
    mod = "gv.test/chain"
    files = {"go.mod": "module %s\n\ngo 1.26\n" % mod,
             "model/m.go": "package model\n\ntype Product struct {\n\tLabelText string\n\tCount     int\n\tInner     Detail\n}\n\ntype Detail struct{ NoteText string }\n\nfunc (p *Product) Describe() string { return p.LabelText + \"/\" + p.Inner.NoteText }\n\nfunc New() *Product { return &Product{LabelText: \"label\", Count: 3, Inner: Detail{NoteText: \"note\"}} }\n",
             "store/s.go": "package store\n\nimport \"%s/model\"\n\ntype Box struct{ P *model.Product }\n\nfunc Load() *model.Product { return model.New() }\n\nfunc NewBox() Box { return Box{P: model.New()} }\n" % mod,
             "report/r.go": "package report\n\nimport (\n\t\"fmt\"\n\t\"%s/store\"\n)\n\nfunc Render() string {\n\tp := store.Load()\n\tp.Count++\n\tb := store.NewBox()\n\treturn fmt.Sprint(p.LabelText, p.Count, p.Describe(), b.P.Inner.NoteText, len(b.P.LabelText))\n}\n" % mod,
             "report/plain.go": "package report\n\nfunc Untouched() int { return 7 }\n",
             "main.go": "package main\n\nimport (\n\t\"fmt\"\n\t\"%s/report\"\n)\n\nfunc main() { fmt.Println(report.Render(), report.Untouched()) }\n" % mod}
    root = E.write_module("chain", files)
    pb = E.run_go(["build", "-trimpath", "-o", "plain", "."], root)
    if pb.returncode != 0:
        chk.notes.append("chain module does not build: " + pb.stderr[-300:]); return
    _, want, _ = E.run_bin(os.path.join(root, "plain"))
    subsets = [mod + "/model", mod + "/store", mod + "/model," + mod + "/report"] if tier == "quick" else \
        [",".join(mod + "/" + x for x in c) for r in (1, 2, 3) for c in itertools.combinations(("model", "store", "report"), r)] + [mod]
    st = chk.cov["streams"].setdefault("e2e:indirect-use-chain", {"builds": 0, "equal": 0})
    for gg in subsets:
        b = E.run_garble([], ["build", "-o", "garbled", "."], root, {"GOGARBLE": gg})
        st["builds"] += 1
        chk.count_cases(["chain|" + gg])
        if b.returncode != 0:
            fails.append({"why": "garble build fails for a GOGARBLE subset where a plain package reaches an obfuscated type through another plain package",
                          "detail": {"GOGARBLE": gg, "stderr": b.stderr[-800:]}, "key": "indirect-use-build-fails"})
            continue
        _, got, _ = E.run_bin(os.path.join(root, "garbled"))
        if got == want:
            st["equal"] += 1
        else:
            fails.append({"why": "the mixed program behaves differently", "detail": {"GOGARBLE": gg, "want": want.decode()[-200:], "got": got.decode()[-200:]}, "key": "indirect-use-behaviour"})


def main(tier, replay=None):
    chk = core.Check(PID, tier)
    core.build_tools()
    chk.proofs(GENS, MODULES)
    orc, err = core.build_oracle()
    E = e2e.E2E("c14")
    diffs, fails = [], []
    try:
        rnd = random.Random(chk.seed * 211 + 3)
        for i in range(1 if tier == "quick" else 3):
            prog = progen.gen_program(rnd, nsnip=8, toolchain=False, must=[progen.s_crosspkg, progen.s_imports, progen.s_tests])
            root = E.write_module("m%d" % i, prog.render())
            oracle_part(chk, tier, E, orc, prog, root, diffs, fails)
            e2e_part(chk, tier, E, prog, root, fails)
            if not getattr(chk, '_chain_done', False):
                chk._chain_done = True
                chain_module(chk, tier, E, fails)
    finally:
        E.cleanup()
    if diffs:
        chk.cov["broken"].append({"kind": "correspondence", "what": "%d disagreements, first: %s" % (len(diffs), diffs[0])})
        chk.log("correspondence broken:", str(diffs[0])[:500])
        chk.proofs_ok = False
    seen = set()
    for f in fails:
        if f["key"] not in seen:
            seen.add(f["key"])
            chk.violation(f["why"] + ": " + json.dumps(f["detail"])[:300], {"kind": "scope", **f}, True, key=f["key"])
    chk.cov["rule"] = ("library tie: random and structured (globs, target) pairs through x/mod's MatchPrefixPatterns vs. the model; oracle: real go list (build and test mode) of a generated module "
                       "under pattern lists (exact, prefix, glob, comma lists, std, non-matching), every package's ToObfuscate vs. the model; e2e: GOGARBLE subsets of the module's packages built for real")
    chk.assumptions += ["path.Match is modelled on the fragment literal/*/? (patterns with [..] or \\ are outside the generators)", "literals/positions of out-of-scope packages: guarded by the same ToObfuscate flag; exercised by the e2e debugdir comparison, not proved"]
    if not chk.proofs_ok and not chk.violations:
        what = "; ".join(b["what"] for b in chk.cov["broken"])[:1500]
        chk.violation("no longer shown to hold: " + what, {"kind": "broken-obligation", "broken": chk.cov["broken"]}, False, key="broken:" + what[:200])
    return chk.finish()
