"""C05 — obfuscated literals evaluate to their original values."""
import os, random, re, subprocess
from . import core, e2e, c01model
from .c01model import hx, unhex

PID = "C05"
GENS = ["Consts", "LitConsts"]
MODULES = ["GV.Props.C05"]
OBFS = ["simple", "swap", "split", "shuffle", "seed"]
GO_TYPES = {8: "uint8", 16: "uint16", 32: "uint32", 64: "uint64"}


def gen_data(rnd, tier):
    """plaintexts: boundary lengths, all-equal / all-distinct / all byte values / random"""
    lens = [1, 2, 3, 7, 8, 9, 15, 16, 17, 31, 64, 255, 256, 257]
    if tier == "thorough":
        lens += [1000, 2047, 2048, 2049, 2056, 2064]
    out = []
    for n in lens:
        out.append(bytes([rnd.randrange(256)] * n))
        out.append(bytes((i * 7 + 3) % 256 for i in range(n)))
        out.append(bytes(rnd.randrange(256) for _ in range(n)))
    out.append(bytes(range(256)))
    out.append(b"hello, world! \xff\x00\x80 junk \"quotes\" \\ back\nslash")
    for _ in range(20 if tier == "quick" else 300):
        n = rnd.choice([rnd.randrange(1, 40), rnd.randrange(8, 300)])
        out.append(bytes(rnd.randrange(256) for _ in range(n)))
    return out


def go_program(cases):
    """one main package executing every emitted decoder; prints hex of each result"""
    parts = ["package main\n\nimport (\n\t\"encoding/hex\"\n\t\"fmt\"\n)\n\nfunc main() {\n"]
    for i, c in enumerate(cases):
        keys = "".join("\tvar garbleExternalKey%d %s = %d\n\t_ = garbleExternalKey%d\n" % (j, t, v, j) for j, (t, b, v, u) in enumerate(c["keys"]))
        body = c["block"].strip()
        body = body[1:-1] if body.startswith("{") and body.endswith("}") else body
        parts.append("\tfmt.Println(%d, hex.EncodeToString(func() []byte {\n%s\t%s\n\treturn data\n\t}()))\n" % (i, keys, body))
    parts.append("}\n")
    return "".join(parts)


def run_batch(chk, E, orc, rnd, cases_in, label, diffs, fails):
    """cases_in: list of (obf index, seed, data). Returns number of cases."""
    S = c01model.OracleSession(orc, E.env())
    cases = []
    try:
        for (oi, seed, data) in cases_in:
            a = S.ask("litobf %d %d %s" % (oi, seed, hx(data)))
            if a.startswith("!"):
                if len(data) == 0:
                    continue
                fails.append({"why": "the obfuscator panics", "detail": {"obfuscator": OBFS[oi], "seed": seed, "data": data.hex(), "panic": unhex(a.split(" ")[1]).decode("utf-8", "replace") if " " in a else a}, "key": "obfuscator-panic"})
                continue
            k, _, b = a.partition(" | ")
            kf = k.split(" ")
            nk = int(kf[0])
            keys = [(kf[1 + 4 * j], int(kf[2 + 4 * j]), int(kf[3 + 4 * j]), kf[4 + 4 * j]) for j in range(nk)]
            cases.append({"obf": OBFS[oi], "seed": seed, "data": data, "keys": keys, "blockhex": b, "block": unhex(b).decode("utf-8", "surrogateescape")})
    finally:
        S.close()
    if not cases:
        return 0
    # (a) the reading of the emitted syntax into the decoder IR
    r = subprocess.run([os.path.join(core.BUILD, "gvgen"), "litparse"], input="".join("%s %s\n" % (c["obf"], c["blockhex"]) for c in cases), capture_output=True, text=True)
    irs = r.stdout.splitlines()
    mops = []
    for c, ir in zip(cases, irs):
        c["ir"] = ir
        if ir.startswith("!"):
            diffs.append({"op": "litparse %s seed=%d len=%d" % (c["obf"], c["seed"], len(c["data"])), "impl": c["block"][:300], "model": ir})
            mops.append("litm 0 simple x S - 0 S - 0")
        else:
            mops.append("litm %d %s %s" % (len(c["keys"]), " ".join("%d %d" % (b, v) for (t, b, v, u) in c["keys"]), ir))
    # (a') the ENCODER model of split: rebuild the emitted machine from the recovered draws
    sp = [c for c in cases if c["obf"] == "split" and not c["ir"].startswith("!") and len(c["data"]) > 0]
    spops = ["splitplanm %d %s %s %s" % (len(c["keys"]), " ".join("%d %d" % (b, v) for (t, b, v, u) in c["keys"]), hx(c["data"]), c["ir"]) for c in sp]
    spops = [" ".join(o.split()) for o in spops]
    for c, m in zip(sp, c01model.model_answers(spops) if spops else []):
        st = chk.cov["streams"].setdefault("oracle:split-encoder", {"cases": 0, "rebuilt_identically": 0})
        st["cases"] += 1
        if m == "ok":
            st["rebuilt_identically"] += 1
        else:
            diffs.append({"op": "buildSplit vs real split obfuscator seed=%d data=%s" % (c["seed"], c["data"].hex()[:80]), "impl": c["ir"][:300], "model": m})
    ans = c01model.model_answers(mops)
    for c, m in zip(cases, ans):
        if c["ir"].startswith("!"):
            continue
        if m != hx(c["data"]):
            diffs.append({"op": "decoder IR of %s seed=%d data=%s" % (c["obf"], c["seed"], c["data"].hex()[:80]), "impl": "(emitted for this plaintext)", "model": "evaluates to " + m[:120], "ir": c["ir"][:400]})
    # (b) Go's own semantics of the emitted code: compile and run
    root = E.write_module(label, {"go.mod": "module gv.test/lit\n\ngo 1.26\n", "main.go": go_program(cases)})
    b = E.run_go(["build", "-o", "lit", "."], root)
    if b.returncode != 0:
        # find the culprit(s): build each case alone is too slow; report the first error line's case by position
        fails.append({"why": "an emitted decoder does not compile", "detail": {"stderr": b.stderr[-1500:], "cases": [(c["obf"], c["seed"], c["data"].hex()[:60]) for c in cases[:5]]}, "key": "decoder-does-not-compile"})
    else:
        rc, out, err = E.run_bin(os.path.join(root, "lit"), timeout=120)
        got = {}
        for l in out.decode().splitlines():
            i, _, h = l.partition(" ")
            got[int(i)] = h
        if rc != 0:
            fails.append({"why": "an emitted decoder panics at run time", "detail": {"stderr": err.decode("utf-8", "replace")[-800:]}, "key": "decoder-panics"})
        for i, c in enumerate(cases):
            if i in got and got[i] != c["data"].hex():
                fails.append({"why": "an emitted decoder evaluates to different bytes than the literal",
                              "detail": {"obfuscator": c["obf"], "seed": c["seed"], "data": c["data"].hex(), "decoded": got[i], "keys": c["keys"], "block": c["block"][:3000]}, "key": "decoder-wrong:" + c["obf"]})
                break
    chk.count_cases(["%s|%d|%s" % (c["obf"], c["seed"], c["data"].hex()) for c in cases])
    d = chk.cov["input_distribution"].setdefault("decoders", {})
    for c in cases:
        d[c["obf"]] = d.get(c["obf"], 0) + 1
        lb = "len<8" if len(c["data"]) < 8 else "len8-256" if len(c["data"]) <= 256 else "len>256"
        d[lb] = d.get(lb, 0) + 1
    if cases:
        c = cases[len(cases) // 2]
        chk.add_sample({"obfuscator": c["obf"], "seed": c["seed"], "plaintext_hex": c["data"].hex()[:64], "decoder_ir": c["ir"][:300]})
    return len(cases)


LIT_PROGRAM = r'''package main

import (
	"fmt"
	"strings"
)

type Named string

const konst = "a constant declared with const keyword"
const typedKonst Named = "typed constant, must stay constant"

var injected = "default value replaced by the linker"
var plainVar = "package level variable initialiser"
var arr [len("array length constant")]int
var bytesVar = []byte{1, 2, 3, 4, 5, 6, 7, 8, 9, 10, 0xff, 0x80}
var arrayVar = [12]byte{'a', 'r', 'r', 'a', 'y', ' ', 'v', 'a', 'l', 'u', 'e'}
var ptrSlice = &[]byte{9, 8, 7, 6, 5, 4, 3, 2, 1}
var ptrArray = &[9]byte{1, 1, 2, 3, 5, 8, 13, 21, 34}

type S struct {
	F string
	B []byte
}

//go:nosplit
func nosplit() string { return "inside a nosplit function body" }

// a table that fits the nosplit stack budget as written, and would not if it were built at run time
//
//go:nosplit
func nosplitTable(i int) byte {
	table := [512]byte{%TABLE%}
	return table[i&511]
}

func generic[T any](x T) string { return fmt.Sprint(x, " in a generic function") }

func label(s string) int {
	switch s {
	case "switch case label number one":
		return 1
	case konst:
		return 2
	}
	return 0
}

func init() { plainVar += " (touched by init function)" }

func main() {
	m := map[string]string{"map key literal": "map value literal"}
	s := S{F: "struct field literal", B: []byte("conversion of a string literal")}
	f := func() string { return "returned from a closure" + "; concatenated at compile time" }
	fmt.Println(konst, typedKonst, injected, plainVar, len(arr), bytesVar, arrayVar, *ptrSlice, *ptrArray)
	fmt.Println(m["map key literal"], s.F, string(s.B), f(), nosplit(), generic("type argument string"), label("switch case label number one"), label(konst))
	fmt.Println(strings.Repeat("short", 2), Named("converted to a named type"), "%MARKER%", nosplitTable(3), nosplitTable(400))
	const local = "function-local constant value"
	x := local + " appended"
	fmt.Printf("%s|%q|%v\n", x, "verb argument literal", []string{"slice element one", "slice element two"})
}
'''


EXEMPT = [("a constant declared with const keyword", "const declaration"), ("typed constant, must stay constant", "typed const declaration"),
          ("default value replaced by the linker", "-ldflags=-X target"), ("inside a nosplit function body", "nosplit function"),
          ("array length constant", "array length"), ("function-local constant value", "local const declaration"), ("short", "below the window")]
REWRITTEN = [("package level variable initialiser", "package var"), ("map key literal", "map key"), ("map value literal", "map value"),
             ("struct field literal", "struct field"), ("conversion of a string literal", "[]byte conversion"), ("type argument string", "call argument"),
             ("verb argument literal", "variadic argument"), ("slice element one", "slice element"), ("switch case label number one", "case label and its call-site twin")]


def linker_vars(chk, E, fails):
    """-ldflags=-X under -literals, for variables of main and of a package whose import path contains dots"""
    mod = "gv.test/x.y/ldx"
    files = {"go.mod": "module %s\n\ngo 1.26\n" % mod,
             "main.go": 'package main\n\nimport (\n\t"fmt"\n\t"%s/ver.sion"\n)\n\nvar inMain = "default value in main, long enough"\n\nfunc main() { fmt.Println(inMain, version.Version, version.Commit(), version.Untouched) }\n' % mod,
             "ver.sion/v.go": 'package version\n\nvar Version = "0.0.0-development-default"\n\nvar commit = "unknown-commit-default"\n\nvar Untouched = "not a linker target, long enough"\n\nfunc Commit() string { return commit }\n'}
    root = E.write_module("ldx", files)
    x = ["-ldflags=-X=main.inMain=injected-into-main -X=%s/ver.sion.Version=v1.22.33-injected -X=%s/ver.sion.commit=abcdef0123456789" % (mod, mod)]
    pb = E.run_go(["build"] + x + ["-o", "plain", "."], root)
    gb = E.run_garble(["-literals", "-seed=o9WDTZ4CN4w"], ["build"] + x + ["-o", "garbled", "."], root)
    chk.count_cases(["ldflags-X|literals"])
    st = chk.cov["streams"].setdefault("e2e:linker-vars", {"programs": 0, "equal": 0})
    st["programs"] += 1
    if pb.returncode != 0 or gb.returncode != 0:
        fails.append({"why": "the -ldflags=-X program does not build with -literals", "detail": {"go": pb.stderr[-300:], "garble": gb.stderr[-600:]}, "key": "ldflags-build-fails"}); return
    a, b = E.run_bin(os.path.join(root, "plain")), E.run_bin(os.path.join(root, "garbled"))
    if a[1] == b[1]:
        st["equal"] += 1
    else:
        fails.append({"why": "under -literals a variable set with -ldflags=-X does not hold the injected value", "detail": {"regular": a[1].decode()[-300:], "garbled": b[1].decode()[-300:], "flags": x}, "key": "ldflags-X-lost"})


def whole_file(chk, E, orc, rnd, n, diffs, fails):
    """the whole path (AST walk, wrappers, junk, proxy struct): real literals.Obfuscate on a program with a literal in
    every syntactic context; the rewritten file must compile and print exactly what the original prints"""
    S = c01model.OracleSession(orc, E.env())
    try:
        for k in range(n):
            marker = "marker-%08x-%s" % (rnd.getrandbits(32), "x" * rnd.choice([0, 1, 250, 2040]))
            src = LIT_PROGRAM.replace("%MARKER%", marker).replace("%TABLE%", ", ".join(str((11 + 37 * j) % 251) for j in range(512)))
            root = E.write_module("file%d" % k, {"go.mod": "module gv.test/litfile\n\ngo 1.26\n", "main.go": src})
            b = E.run_go(["build", "-o", "orig", "."], root)
            if b.returncode != 0:
                chk.notes.append("literal program does not build: " + b.stderr[-300:]); return
            _, want, _ = E.run_bin(os.path.join(root, "orig"))
            seed = rnd.randrange(1 << 40)
            a = S.ask("litfile %d %s %s" % (seed, hx(src), hx("main.injected=x")))
            chk.count_cases(["litfile|%d|%s" % (seed, marker)])
            st = chk.cov["streams"].setdefault("whole_file", {"files": 0})
            st["files"] += 1
            if a.startswith("err") or a.startswith("!"):
                fails.append({"why": "literals.Obfuscate fails on a program the compiler accepts", "detail": {"seed": seed, "answer": a[:300]}, "key": "obfuscate-fails"}); continue
            out = unhex(a).decode("utf-8", "surrogateescape")
            # the decision model at source level: exempt literals stay verbatim, the others are gone from the rewritten file
            for lit, why in EXEMPT:
                if '"%s"' % lit not in out:
                    fails.append({"why": "a literal that must be left alone was rewritten by -literals", "detail": {"literal": lit, "context": why, "seed": seed}, "key": "exempt-literal-rewritten:" + why})
            for lit, why in REWRITTEN:
                if '"%s"' % lit in out:
                    fails.append({"why": "a literal inside the obfuscation window was left verbatim by -literals", "detail": {"literal": lit, "context": why, "seed": seed}, "key": "literal-not-rewritten:" + why})
            st["decisions_checked"] = st.get("decisions_checked", 0) + len(EXEMPT) + len(REWRITTEN)
            root2 = E.write_module("file%d_obf" % k, {"go.mod": "module gv.test/litfile\n\ngo 1.26\n"})
            with open(os.path.join(root2, "main.go"), "w", encoding="utf-8", errors="surrogateescape") as f:
                f.write(out)
            b = E.run_go(["build", "-o", "obf", "."], root2)
            if b.returncode != 0:
                fails.append({"why": "a file rewritten by -literals does not compile (a literal that must stay constant was rewritten, or a decoder is malformed)",
                              "detail": {"seed": seed, "stderr": b.stderr[-1500:]}, "key": "rewritten-file-does-not-compile"}); continue
            _, got, err = E.run_bin(os.path.join(root2, "obf"))
            if got != want:
                fails.append({"why": "a program rewritten by -literals prints different values", "detail": {"seed": seed, "want": want.decode("utf-8", "replace")[-600:], "got": got.decode("utf-8", "replace")[-600:], "stderr": err.decode("utf-8", "replace")[-300:]}, "key": "rewritten-file-differs"})
    finally:
        S.close()


def main(tier, replay=None):
    chk = core.Check(PID, tier)
    core.build_tools()
    chk.proofs(GENS, MODULES)
    orc, err = core.build_oracle()
    E = e2e.E2E("c05")
    diffs, fails = [], []
    try:
        rnd = random.Random(chk.seed * 7 + 11)
        datas = gen_data(rnd, tier)
        cases = []
        for d in datas:
            for oi in range(5):
                if len(d) > 300 and oi in (2, 4) and rnd.random() < 0.7:
                    continue    # split/seed on long inputs are slow to compile; sample them
                cases.append((oi, rnd.randrange(1 << 40), d))
        if tier == "quick":
            rnd.shuffle(cases)
            cases = cases[:220]
        for k in range(0, len(cases), 110):
            run_batch(chk, E, orc, rnd, cases[k:k + 110], "b%d" % k, diffs, fails)
        whole_file(chk, E, orc, rnd, 2 if tier == "quick" else 25, diffs, fails)
        linker_vars(chk, E, fails)
    finally:
        E.cleanup()
    chk.cov["streams"]["decoders"] = {"cases": chk.cov["evaluations"], "disagreements": len(diffs), "property_failures": len(fails)}
    if diffs:
        chk.cov["broken"].append({"kind": "correspondence", "what": "%d disagreements, first: %s" % (len(diffs), str(diffs[0])[:700])})
        chk.log("correspondence broken:", str(diffs[0])[:500])
    seen = set()
    for f in fails:
        if f["key"] not in seen:
            seen.add(f["key"])
            chk.violation(f["why"] + ": " + str(f["detail"])[:300], {"kind": "literal", **f}, True, key=f["key"])
    chk.cov["rule"] = ("each case = (obfuscator, generator seed, plaintext): the REAL obfuscator emits a decoder; tools/gvgen litparse reads it into the model's decoder IR; the Lean model evaluates the IR "
                       "(must give the plaintext); the same decoders are compiled by the Go compiler and executed (must print the plaintext). Plus whole files through literals.Obfuscate "
                       "(every syntactic context, junk, proxy structs) compiled and run against the original.")
    chk.assumptions += ["Go's semantics of the emitted decoder subset is TESTED (compile and run), not modelled beyond the decoder IR",
                        "all five obfuscators (simple, swap, split, shuffle, seed), the ext-key statements, byte expressions and the junk/array wrappers are round-trip theorems for all inputs; the split ENCODER model is additionally rebuilt from the recovered draws and compared with the real output",
                        "well-formedness of the draws (positions < len, permutation, shift < width) follows from math/rand's contracts (Intn(n) < n, Perm is a permutation): assumed, and observed on every sample"]
    return chk.finish()
