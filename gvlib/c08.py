"""C08 — types that reach reflection keep their original names at run time."""
import os, random, re
from . import core, e2e, progen, c01model, c04
from .c01model import hx, unhex

PID = "C08"
GENS = ["Consts", "StdTables"]
MODULES = ["GV.Props.C08"]


def touch_all(root, k):
    """a comment-only edit: new action IDs, same behaviour -> the analysis is redone. Odd rounds edit only the
    library packages (the dependant's own listed action ID then stays the same), even rounds every file."""
    for d, _, fs in os.walk(root):
        if k % 2 == 1 and os.path.abspath(d) == os.path.abspath(root):
            continue
        for f in fs:
            if f.endswith(".go"):
                with open(os.path.join(d, f), "a") as fh:
                    fh.write("\n// rebuild %d\n" % k)


def oracle_part(chk, tier, E, orc, diffs, fails):
    """the replacer garble injects into the binary vs. the specification, on name-table-like pair lists"""
    rnd = random.Random(chk.seed * 29 + 6)
    S = c01model.OracleSession(orc, E.env())
    mops, expect = [], []
    alpha = "ABCDEFabcdef_0123"
    try:
        for _ in range(1200 if tier == "quick" else 40000):
            n = rnd.randrange(0, 9)
            keys = set()
            while len(keys) < n:
                keys.add("".join(rnd.choice(alpha) for _ in range(rnd.randrange(6, 13))) if rnd.random() < 0.8 else "".join(rnd.choice("Ab") for _ in range(rnd.randrange(1, 4))))
            pairs = sorted((k, "Orig" + str(i)) for i, k in enumerate(keys))     # sorted by obfuscated name, as reflectMainPostPatch does
            ks = [k for k, _ in pairs]
            parts = []
            for _ in range(rnd.randrange(0, 8)):
                parts.append(rnd.choice(ks) if ks and rnd.random() < 0.6 else rnd.choice(["*", "struct { ", " string; ", "[]", ".", " }", "map[string]", "x", "A"]))
            text = "".join(parts)
            flat = " ".join("%s %s" % (hx(k), hx(v)) for k, v in pairs)
            b = S.ask(("repl %d %s %s" % (len(pairs), flat, hx(text))).replace("  ", " "))
            inj, std = b.split(" ")
            mops.append(("replm %d %s %s" % (len(pairs), flat, hx(text))).replace("  ", " ")); expect.append(inj)
            if inj != std:
                fails.append({"why": "the injected run-time name replacer disagrees with strings.NewReplacer", "detail": {"pairs": pairs, "input": text}, "key": "injected-replacer-differs"})
    finally:
        S.close()
    ans = c01model.model_answers(mops)
    for o, e, m in zip(mops, expect, ans):
        if e != m:
            diffs.append({"op": o[:300], "impl": e[:200], "model": m[:200]})
    chk.count_cases(mops)
    chk.cov["streams"]["oracle:name-replacer"] = {"cases": len(mops), "disagreements": len(diffs)}


def e2e_part(chk, tier, E, fails):
    rnd = random.Random(chk.seed * 31 + 8)
    nprog, rebuilds = (1, 5) if tier == "quick" else (6, 12)
    flagsets = [[]] if tier == "quick" else [[], ["-seed=o9WDTZ4CN4w"], ["-literals"]]
    for i in range(nprog):
        prog = progen.gen_reflect_program(rnd, "all" if i == 0 else None)
        gflags = flagsets[i % len(flagsets)]
        root = E.write_module("r%d" % i, prog.render())
        pb = E.run_go(["build", "-trimpath", "-o", "plain", "."], root)
        if pb.returncode != 0:
            chk.notes.append("reflect program does not build: " + pb.stderr[-400:]); continue
        _, want, _ = E.run_bin(os.path.join(root, "plain"), ["a"])
        outcomes = {}
        for k in range(rebuilds):
            if k > 0:
                touch_all(root, k)
            gb = E.run_garble(gflags, ["build", "-o", "garbled", "."], root)
            chk.count_cases(["reflect|%d|%s|%d" % (i, " ".join(gflags), k)])
            if gb.returncode != 0:
                fails.append({"why": "garble build fails on the reflection program", "detail": gb.stderr[-1200:], "key": "reflect-build-fails"}); break
            _, got, _ = E.run_bin(os.path.join(root, "garbled"), ["a"])
            outcomes[got] = outcomes.get(got, 0) + 1
            if got != want:
                wl, gl = want.decode().splitlines(), got.decode("utf-8", "replace").splitlines()
                first = next((j for j, (a, b) in enumerate(zip(wl, gl)) if a != b), 0)
                fmt_line = getattr(prog, "fmt_only_line", -1)
                others_equal = len(wl) == len(gl) and all(a == b for j, (a, b) in enumerate(zip(wl, gl)) if j != fmt_line)
                if first == fmt_line and others_equal:
                    if "fmt-only" not in outcomes:
                        fails.append({"why": "a struct whose only path to reflection is a fmt verb (%+v) prints obfuscated field names",
                                      "detail": {"flags": gflags, "want": wl[first][:200], "got": gl[first][:200]}, "key": "fmt-verb-on-otherwise-unreflected-struct"})
                        outcomes["fmt-only"] = 1
                    continue
                fails.append({"why": "reflection-driven output of the obfuscated program differs from the regular build",
                              "detail": {"flags": gflags, "build_number": k, "note": "build 0 is cold; later builds follow a comment-only edit of every file (fresh analysis, warm caches)",
                                         "want": wl[first][:600] if wl else "", "got": gl[first][:600] if first < len(gl) else ""},
                              "files": prog.render(), "key": "reflect-output-differs" + ("" if k == 0 else ":after-comment-edit")})
                break
        st = chk.cov["streams"].setdefault("e2e:reflect", {"programs": 0, "builds": 0, "distinct_outcomes_max": 0})
        st["programs"] += 1; st["builds"] += sum(outcomes.values()); st["distinct_outcomes_max"] = max(st["distinct_outcomes_max"], len(outcomes))
        if i == 0:
            chk.add_sample({"flags": gflags, "expected_output_head": want.decode()[:300]})


CHAIN_MAIN = '''package main

import (
	"encoding/json"
	"fmt"
	"reflect"
)

%(types)s
var outbox []any

%(convs)s
func describe() {
	for _, v := range outbox {
		t := reflect.TypeOf(v)
		fmt.Printf("%%s %%s %%s\\n", t.Name(), t.Field(0).Name, t.Field(1).Name)
	}
}

func main() {
	v0 := %(first)s{Payload: "hi", Seq: 1}
	b, _ := json.Marshal(v0)
	fmt.Println(string(b))
%(calls)s
	outbox = append(outbox, %(all)s)
	describe()
}
'''


def chain_program(rnd, n=6):
    """identically shaped structs converted into one another, each in its own function; only the first reaches a
    reflecting API directly: reflection has to propagate along the whole chain, whatever order functions are visited in"""
    stem = "".join(rnd.choice("qxzjkv") for _ in range(4))
    names = ["%sMsg%s%d" % (w, stem, i) for i, w in enumerate(["Hello", "Ack", "Relay", "Forward", "Reply", "Close", "Extra", "Last"][:n])]
    types = "".join("type %s struct {\n\tPayload string\n\tSeq     int\n}\n\n" % t for t in names)
    convs = "".join("func conv%d(m %s) %s { return %s(m) }\n" % (i, names[i], names[i + 1], names[i + 1]) for i in range(n - 1))
    calls = "".join("\tv%d := conv%d(v%d)\n" % (i + 1, i, i) for i in range(n - 1))
    return {"go.mod": "module gv.test/chain%s\n\ngo 1.26\n" % stem,
            "main.go": CHAIN_MAIN % {"types": types, "convs": convs, "first": names[0], "calls": calls, "all": ", ".join("v%d" % i for i in range(n))}}


def fixed_scenarios(chk, tier, E, fails):
    from . import c06
    rnd = random.Random(chk.seed * 83 + 4)
    st = chk.cov["streams"].setdefault("e2e:reflect-scenarios", {"chain_builds": 0, "layered_builds": 0})
    # (1) the conversion chain, analysed afresh several times (map iteration order differs from process to process)
    files = chain_program(rnd)
    root = E.write_module("chain", files)
    pb = E.run_go(["build", "-trimpath", "-o", "plain", "."], root)
    if pb.returncode == 0:
        _, want, _ = E.run_bin(os.path.join(root, "plain"))
        for k in range(4 if tier == "quick" else 16):
            open(os.path.join(root, "main.go"), "a").write("\n// analysis %d\n" % k)
            gb = E.run_garble([], ["build", "-o", "garbled", "."], root)
            st["chain_builds"] += 1
            chk.count_cases(["chain|%d" % k])
            if gb.returncode != 0:
                fails.append({"why": "garble build fails on the conversion chain", "detail": gb.stderr[-800:], "key": "reflect-build-fails"}); break
            _, got, _ = E.run_bin(os.path.join(root, "garbled"))
            if got != want:
                fails.append({"why": "a struct converted from a reflected struct loses its names (reflection must propagate along conversions whatever order functions are analysed in)",
                              "detail": {"build": k, "want": want.decode()[-400:], "got": got.decode("utf-8", "replace")[-400:]}, "files": files, "key": "reflect-conversion-chain"})
                break
    else:
        chk.notes.append("chain program does not build: " + pb.stderr[-300:])
    # (2) main -> mid -> leaf, main reflects on a mid type holding leaf types and does not import leaf; a comment-only edit of leaf
    mod = "gv.test/layers"
    lfiles = {"go.mod": "module %s\n\ngo 1.26\n" % mod,
              "main.go": 'package main\n\nimport (\n\t"encoding/json"\n\t"fmt"\n\t"reflect"\n\n\t"%s/mid"\n)\n\nfunc main() {\n\tenv := mid.Envelope{ID: 7}\n\tenv.Body.Text = "hello"\n\tenv.Body.Meta.Lang = "en"\n\tb, _ := json.Marshal(env)\n\tfmt.Println(string(b))\n\tt := reflect.TypeOf(env)\n\tfor i := range t.NumField() {\n\t\tfmt.Println(t.Name(), t.Field(i).Name, t.Field(i).Type.Name())\n\t}\n\tbody := t.Field(1).Type\n\tfor i := range body.NumField() {\n\t\tfmt.Println(body.Name(), body.Field(i).Name, body.Field(i).Type.Name())\n\t}\n}\n' % mod,
              "mid/mid.go": 'package mid\n\nimport "%s/leaf"\n\ntype Envelope struct {\n\tID   int\n\tBody leaf.Body\n}\n' % mod,
              "leaf/leaf.go": "package leaf\n\ntype Meta struct {\n\tLang string\n}\n\ntype Body struct {\n\tText string\n\tMeta Meta\n}\n"}
    root = E.write_module("layers", lfiles)
    pb = E.run_go(["build", "-trimpath", "-o", "plain", "."], root)
    if pb.returncode == 0:
        _, want, _ = E.run_bin(os.path.join(root, "plain"))
        for k, edit in enumerate([None, "leaf/leaf.go", "mid/mid.go", "leaf/leaf.go"]):
            if edit:
                open(os.path.join(root, edit), "a").write("\n// edit %d\n" % k)
            gb = E.run_garble([], ["build", "-o", "garbled", "."], root)
            st["layered_builds"] += 1
            chk.count_cases(["layers|%d|%s" % (k, edit)])
            if gb.returncode != 0:
                fails.append({"why": "garble build fails on the layered module", "detail": gb.stderr[-800:], "key": "reflect-build-fails"}); break
            _, got, _ = E.run_bin(os.path.join(root, "garbled"))
            if got != want:
                fails.append({"why": "after a comment-only edit in an INDIRECT dependency the reflected names of its types are wrong (stale per-package reflection cache)",
                              "detail": {"step": k, "edited": edit, "want": want.decode()[-400:], "got": got.decode("utf-8", "replace")[-400:]}, "key": "reflect-stale-after-indirect-edit"})
                break
    else:
        chk.notes.append("layered program does not build: " + pb.stderr[-300:])
    # (3) values that reach a reflecting API without ever being stored: call results, field / element loads, assertions
    stem = "".join(rnd.choice("qxzjkv") for _ in range(4))
    vfiles = {"go.mod": "module gv.test/direct%s\n\ngo 1.26\n" % stem,
              "main.go": '''package main

import (
	"encoding/json"
	"fmt"
)

type Envelope%(s)s struct {
	Ident int
	Body  Inner%(s)s
}

type Inner%(s)s struct{ TextValue string }

type Holder%(s)s struct{ Kept Loaded%(s)s }

type Loaded%(s)s struct{ LoadedField int }

type Asserted%(s)s struct{ AssertedField bool }

type Elem%(s)s struct{ ElemField string }

//go:noinline
func newEnv(n int) Envelope%(s)s { return Envelope%(s)s{Ident: n, Body: Inner%(s)s{TextValue: "t"}} }

//go:noinline
func newPtr() *Inner%(s)s { return &Inner%(s)s{TextValue: "p"} }

//go:noinline
func pick(v any) any { return v }

func show(v any) {
	b, err := json.Marshal(v)
	fmt.Println(string(b), err)
}

func main() {
	b, _ := json.Marshal(newEnv(3))
	fmt.Println(string(b))
	c, _ := json.Marshal(newPtr())
	fmt.Println(string(c))
	h := Holder%(s)s{}
	d, _ := json.Marshal(h.Kept)
	fmt.Println(string(d))
	e, _ := json.Marshal(pick(Asserted%(s)s{true}).(Asserted%(s)s))
	fmt.Println(string(e))
	m := map[string]Elem%(s)s{"k": {"v"}}
	f, _ := json.Marshal(m["k"])
	fmt.Println(string(f))
}
''' % {"s": stem}}
    root = E.write_module("direct", vfiles)
    pb = E.run_go(["build", "-trimpath", "-o", "plain", "."], root)
    if pb.returncode == 0:
        _, want, _ = E.run_bin(os.path.join(root, "plain"))
        gb = E.run_garble([], ["build", "-o", "garbled", "."], root)
        st["direct_value_builds"] = st.get("direct_value_builds", 0) + 1
        chk.count_cases(["direct-values"])
        if gb.returncode != 0:
            fails.append({"why": "garble build fails on the direct-value program", "detail": gb.stderr[-800:], "key": "reflect-build-fails"})
        else:
            _, got, _ = E.run_bin(os.path.join(root, "garbled"))
            if got != want:
                wl, gl = want.decode().splitlines(), got.decode("utf-8", "replace").splitlines()
                first = next((j for j, (a, b) in enumerate(zip(wl, gl)) if a != b), 0)
                kinds = ["call result (struct)", "call result (pointer)", "field load", "type assertion", "map element"]
                fails.append({"why": "a value passed to a reflecting API straight from an expression (never stored in a variable) loses its names",
                              "detail": {"expression": kinds[first] if first < len(kinds) else first, "want": wl[first][:200], "got": gl[first][:200] if first < len(gl) else ""}, "key": "reflect-direct-value"})
    else:
        chk.notes.append("direct-value program does not build: " + pb.stderr[-300:])


def main(tier, replay=None):
    chk = core.Check(PID, tier)
    core.build_tools()
    chk.proofs(GENS, MODULES)
    orc, err = core.build_oracle()
    E = e2e.E2E("c08")
    diffs, fails = [], []
    try:
        oracle_part(chk, tier, E, orc, diffs, fails)
        e2e_part(chk, tier, E, fails)
        fixed_scenarios(chk, tier, E, fails)
    finally:
        E.cleanup()
    if diffs:
        chk.cov["broken"].append({"kind": "correspondence", "what": "%d disagreements, first: %s" % (len(diffs), diffs[0])})
    seen = set()
    for f in fails:
        if f["key"] not in seen:
            seen.add(f["key"])
            chk.violation(f["why"] + ": " + str(f["detail"])[:500], {"kind": "reflect", **f}, True, key=f["key"])
    chk.cov["rule"] = ("oracle: name-table-like sorted pair lists and type strings through the replacer injected into binaries vs. strings.NewReplacer vs. the specification; "
                       "e2e: generated programs reflecting on nested/embedded/pointer/slice/map/array/anonymous/generic/aliased structs declared in a dependency, through direct calls, 1-3 helpers, variadics, "
                       "stored-then-passed values, encoding/json and %+v; each program is rebuilt several times after comment-only edits (fresh analysis, fresh map orders, warm caches) and must print what the regular build prints")
    chk.assumptions += ["the package qualifier of Type.String()/%T is outside the compared observables (package names are obfuscated and not in the name table)",
                        "the SSA reflection analysis is not modelled in Lean (order independence is sampled by rebuilds); proved: the replacer specification (C04's theorems) restores every name under unique parse, and the cache-merge is monotone"]
    return chk.finish()
