"""C08 — types that reach reflection keep their original names at run time."""
import os, random, re
from . import core, e2e, progen, c01model, c04
from .c01model import hx, unhex

PID = "C08"
GENS = ["Consts", "StdTables"]
MODULES = ["GV.Props.C08"]


def touch_all(root, k):
    """a comment-only edit: new action IDs, same behaviour -> the analysis is redone. Odd rounds edit only the
    library packages (the dependant's own listed action ID then stays the same), even rounds every file."""
    for d, _, fs in os.walk(root):
        if k % 2 == 1 and os.path.abspath(d) == os.path.abspath(root):
            continue
        for f in fs:
            if f.endswith(".go"):
                with open(os.path.join(d, f), "a") as fh:
                    fh.write("\n// rebuild %d\n" % k)


def oracle_part(chk, tier, E, orc, diffs, fails):
    """the replacer garble injects into the binary vs. the specification, on name-table-like pair lists"""
    rnd = random.Random(chk.seed * 29 + 6)
    S = c01model.OracleSession(orc, E.env())
    mops, expect = [], []
    alpha = "ABCDEFabcdef_0123"
    try:
        for _ in range(1200 if tier == "quick" else 40000):
            n = rnd.randrange(0, 9)
            keys = set()
            while len(keys) < n:
                keys.add("".join(rnd.choice(alpha) for _ in range(rnd.randrange(6, 13))) if rnd.random() < 0.8 else "".join(rnd.choice("Ab") for _ in range(rnd.randrange(1, 4))))
            pairs = sorted((k, "Orig" + str(i)) for i, k in enumerate(keys))     # sorted by obfuscated name, as reflectMainPostPatch does
            ks = [k for k, _ in pairs]
            parts = []
            for _ in range(rnd.randrange(0, 8)):
                parts.append(rnd.choice(ks) if ks and rnd.random() < 0.6 else rnd.choice(["*", "struct { ", " string; ", "[]", ".", " }", "map[string]", "x", "A"]))
            text = "".join(parts)
            flat = " ".join("%s %s" % (hx(k), hx(v)) for k, v in pairs)
            b = S.ask(("repl %d %s %s" % (len(pairs), flat, hx(text))).replace("  ", " "))
            inj, std = b.split(" ")
            mops.append(("replm %d %s %s" % (len(pairs), flat, hx(text))).replace("  ", " ")); expect.append(inj)
            if inj != std:
                fails.append({"why": "the injected run-time name replacer disagrees with strings.NewReplacer", "detail": {"pairs": pairs, "input": text}, "key": "injected-replacer-differs"})
    finally:
        S.close()
    ans = c01model.model_answers(mops)
    for o, e, m in zip(mops, expect, ans):
        if e != m:
            diffs.append({"op": o[:300], "impl": e[:200], "model": m[:200]})
    chk.count_cases(mops)
    chk.cov["streams"]["oracle:name-replacer"] = {"cases": len(mops), "disagreements": len(diffs)}


def e2e_part(chk, tier, E, fails):
    rnd = random.Random(chk.seed * 31 + 8)
    nprog, rebuilds = (1, 5) if tier == "quick" else (6, 12)
    flagsets = [[]] if tier == "quick" else [[], ["-seed=o9WDTZ4CN4w"], ["-literals"]]
    for i in range(nprog):
        prog = progen.gen_reflect_program(rnd, "all" if i == 0 else None)
        gflags = flagsets[i % len(flagsets)]
        root = E.write_module("r%d" % i, prog.render())
        pb = E.run_go(["build", "-trimpath", "-o", "plain", "."], root)
        if pb.returncode != 0:
            chk.notes.append("reflect program does not build: " + pb.stderr[-400:]); continue
        _, want, _ = E.run_bin(os.path.join(root, "plain"), ["a"])
        outcomes = {}
        for k in range(rebuilds):
            if k > 0:
                touch_all(root, k)
            gb = E.run_garble(gflags, ["build", "-o", "garbled", "."], root)
            chk.count_cases(["reflect|%d|%s|%d" % (i, " ".join(gflags), k)])
            if gb.returncode != 0:
                fails.append({"why": "garble build fails on the reflection program", "detail": gb.stderr[-1200:], "key": "reflect-build-fails"}); break
            _, got, _ = E.run_bin(os.path.join(root, "garbled"), ["a"])
            outcomes[got] = outcomes.get(got, 0) + 1
            if got != want:
                wl, gl = want.decode().splitlines(), got.decode("utf-8", "replace").splitlines()
                first = next((j for j, (a, b) in enumerate(zip(wl, gl)) if a != b), 0)
                fmt_line = getattr(prog, "fmt_only_line", -1)
                others_equal = len(wl) == len(gl) and all(a == b for j, (a, b) in enumerate(zip(wl, gl)) if j != fmt_line)
                if first == fmt_line and others_equal:
                    if "fmt-only" not in outcomes:
                        fails.append({"why": "a struct whose only path to reflection is a fmt verb (%+v) prints obfuscated field names",
                                      "detail": {"flags": gflags, "want": wl[first][:200], "got": gl[first][:200]}, "key": "fmt-verb-on-otherwise-unreflected-struct"})
                        outcomes["fmt-only"] = 1
                    continue
                fails.append({"why": "reflection-driven output of the obfuscated program differs from the regular build",
                              "detail": {"flags": gflags, "build_number": k, "note": "build 0 is cold; later builds follow a comment-only edit of every file (fresh analysis, warm caches)",
                                         "want": wl[first][:600] if wl else "", "got": gl[first][:600] if first < len(gl) else ""},
                              "files": prog.render(), "key": "reflect-output-differs" + ("" if k == 0 else ":after-comment-edit")})
                break
        st = chk.cov["streams"].setdefault("e2e:reflect", {"programs": 0, "builds": 0, "distinct_outcomes_max": 0})
        st["programs"] += 1; st["builds"] += sum(outcomes.values()); st["distinct_outcomes_max"] = max(st["distinct_outcomes_max"], len(outcomes))
        if i == 0:
            chk.add_sample({"flags": gflags, "expected_output_head": want.decode()[:300]})


def main(tier, replay=None):
    chk = core.Check(PID, tier)
    core.build_tools()
    chk.proofs(GENS, MODULES)
    orc, err = core.build_oracle()
    E = e2e.E2E("c08")
    diffs, fails = [], []
    try:
        oracle_part(chk, tier, E, orc, diffs, fails)
        e2e_part(chk, tier, E, fails)
    finally:
        E.cleanup()
    if diffs:
        chk.cov["broken"].append({"kind": "correspondence", "what": "%d disagreements, first: %s" % (len(diffs), diffs[0])})
    seen = set()
    for f in fails:
        if f["key"] not in seen:
            seen.add(f["key"])
            chk.violation(f["why"] + ": " + str(f["detail"])[:500], {"kind": "reflect", **f}, True, key=f["key"])
    chk.cov["rule"] = ("oracle: name-table-like sorted pair lists and type strings through the replacer injected into binaries vs. strings.NewReplacer vs. the specification; "
                       "e2e: generated programs reflecting on nested/embedded/pointer/slice/map/array/anonymous/generic/aliased structs declared in a dependency, through direct calls, 1-3 helpers, variadics, "
                       "stored-then-passed values, encoding/json and %+v; each program is rebuilt several times after comment-only edits (fresh analysis, fresh map orders, warm caches) and must print what the regular build prints")
    chk.assumptions += ["the package qualifier of Type.String()/%T is outside the compared observables (package names are obfuscated and not in the name table)",
                        "the SSA reflection analysis is not modelled in Lean (order independence is sampled by rebuilds); proved: the replacer specification (C04's theorems) restores every name under unique parse, and the cache-merge is monotone"]
    return chk.finish()
