"""C20 — command lines are split the way the go command splits them."""
import os, re
from . import core, oracle

PID = "C20"
GENS = ["FlagTables", "GoFlags", "Steps"]
MODULES = ["GV.Props.C20"]
OWN = ["literals", "tiny", "debug", "debugdir", "seed"]
NOT_FORWARDED = {"a", "n", "x", "v", "trimpath", "toolexec", "buildvcs", "json"}


def go_tables():
    """go's own flag table, as regenerated into Gen/GoFlags.lean from `go help` + cmd/go source (not from garble)"""
    txt = open(os.path.join(core.LEAN, "GV", "Gen", "GoFlags.lean")).read()
    flags = {m.group(1): m.group(2) == "true" for m in re.finditer(r'\("([^"]+)", (true|false)\)', txt)}
    m = re.search(r"def goBuildFlags : List String := \[(.*?)\]", txt)
    build = set(re.findall(r'"([^"]+)"', m.group(1)))
    return flags, build


def unhex(s):
    return b"" if s == "-" else bytes.fromhex(s)


def go_split(vec, table):
    """Go's flag package over go's table. Returns (flags, args) or None when go rejects / outside the domain."""
    i, flags = 0, []
    while i < len(vec):
        s = vec[i]
        if len(s) < 2 or s[:1] != b"-":
            if s == b"-":
                return None
            break
        if s == b"--":
            return None
        body = s[2:] if s[1:2] == b"-" else s[1:]
        if not body or body[:1] in (b"-", b"="):
            return None
        name, eq, _ = body.partition(b"=")
        try:
            isbool = table.get(name.decode())
        except UnicodeDecodeError:
            return None
        if isbool is None:
            return None
        if isbool or eq:
            flags.append(s); i += 1
        else:
            if i + 1 >= len(vec):
                return None
            flags += [s, vec[i + 1]]; i += 2
    return flags, vec[i:]


def parse_list(fields):
    n = int(fields[0])
    return [unhex(x) for x in fields[1:1 + n]], fields[1 + n:]


def make_predicate():
    table, build = go_tables()

    def predicate(reqs, impl):
        fails = []
        for i, (q, a) in enumerate(zip(reqs, impl)):
            f = q.split(" ")
            if a.startswith("!"):
                continue
            if f[0] == "split":
                vec = [unhex(x) for x in f[1:]]
                exp = go_split(vec, table)
                if exp is None:
                    continue
                fl, rest = parse_list(a.split(" "))
                ar, _ = parse_list(rest[1:])
                if (fl, ar) != (exp[0], exp[1]):
                    fails.append({"index": i, "op": q, "key": "split-differs-from-go",
                                  "why": "garble splits %r into flags %r / args %r, the go command into %r / %r" % (vec, fl, ar, exp[0], exp[1])})
                elif fl + ar != vec:
                    fails.append({"index": i, "op": q, "key": "split-not-partition", "why": "flags+args is not the input vector"})
            elif f[0] == "filter":
                vec = [unhex(x) for x in f[1:]]
                exp = go_split(vec, table)
                if exp is None or exp[1]:
                    continue
                got, _ = parse_list(a.split(" "))
                # every build flag present must be forwarded together with its value
                j, want = 0, []
                while j < len(vec):
                    s = vec[j]
                    body = s[2:] if s[1:2] == b"-" else s[1:]
                    name, eq, _ = body.partition(b"=")
                    nm = name.decode()
                    single = table[nm] or bool(eq)
                    item = [b"-" + body] + ([] if single else [vec[j + 1]])
                    if nm in build and nm not in NOT_FORWARDED:
                        want += item
                    j += 1 if single else 2
                # `got` may also contain forwarded flags outside `go help build` (none documented today); require want to be a subsequence
                it = iter(got)
                if not all(any(x == y for y in it) for x in want):
                    fails.append({"index": i, "op": q, "key": "build-flag-not-forwarded",
                                  "why": "build flags %r of %r must reach go list with their values, got %r" % (want, vec, got)})
            elif f[0] == "rxgarble":
                tok = unhex(f[1])
                t = tok[1:] if tok[:2] == b"--" else tok
                own = any(t == b"-" + w.encode() or t.startswith(b"-" + w.encode() + b"=") for w in OWN)
                if own and a != "1":
                    fails.append({"index": i, "op": q, "key": "own-flag-accepted", "why": "garble's own flag %r after the command is not rejected" % tok})
                if not own and a == "1":
                    fails.append({"index": i, "op": q, "key": "value-rejected-as-garble-flag", "why": "%r is not a garble flag but is rejected as one (the user's go flags must reach go unchanged)" % tok})
        return fails
    return predicate


def rejection_probe(chk, tier):
    """the real binary on command lines with one of garble's own flags somewhere after the command: each must fail at once
    with the 'must precede command' error (the loop of toolexecCmd is not callable on its own, so it is run for real)"""
    import subprocess, tempfile, shutil, random
    garble, err = core.build_garble()
    if garble is None:
        return
    rnd = random.Random(chk.seed * 71 + 9)
    scratch = tempfile.mkdtemp(prefix="gv-c20-", dir="/var/tmp")
    st = chk.cov["streams"].setdefault("e2e:rejection-probe", {"command_lines": 0, "rejected_at_once": 0})
    try:
        os.makedirs(os.path.join(scratch, "m", "emptymod"))
        open(os.path.join(scratch, "m", "go.mod"), "w").write("module gv.test/rej\n\ngo 1.26\n")
        open(os.path.join(scratch, "m", "main.go"), "w").write("package main\n\nfunc main() {}\n")
        open(os.path.join(scratch, "m", "main_test.go"), "w").write("package main\n\nimport (\n\t\"flag\"\n\t\"testing\"\n)\n\nvar seed = flag.String(\"seed\", \"\", \"\")\n\nfunc TestX(t *testing.T) { t.Log(*seed) }\n")
        env = dict(core.env(), GOMODCACHE=os.path.join(scratch, "m", "emptymod"), GOCACHE="/var/tmp/gv-cache/gocache", GARBLE_CACHE="/var/tmp/gv-cache/garblecache", HOME=scratch)
        own = ["-literals", "--tiny", "-debug", "-debugdir=" + os.path.join(scratch, "dd"), "-seed=AAAAAAAAAAA", "--seed=AAAAAAAAAAA", "-tiny=true"]
        ctx = {"build": [[], ["-v"], ["--v"], ["-race"], ["--race"], ["-tags=x"], ["-tags", "x"], ["-o", "out.bin"], ["-trimpath", "--work"], ["-ldflags=-s -w"]],
               "test": [[], ["-short"], ["--short"], ["-v", "--short"], ["-run", "TestX"], ["-run=TestX", "--failfast"], ["--count", "1"], ["-json"], ["--cover"]]}
        lines = []
        for cmd, cs in ctx.items():
            for c in cs:
                for g in (own if tier == "thorough" else rnd.sample(own, 3)):
                    lines.append([cmd] + c + [g] + (["."] if rnd.random() < 0.7 else []))
                    if cmd == "test":
                        lines.append([cmd, "."] + c + [g])           # flags after the package list (go test)
        for argv in lines:
            st["command_lines"] += 1
            chk.count_cases(["reject|" + " ".join(argv)])
            try:
                r = subprocess.run([garble] + argv, cwd=os.path.join(scratch, "m"), env=env, capture_output=True, text=True, timeout=240)
                out, rc = r.stderr, r.returncode
            except subprocess.TimeoutExpired:
                out, rc = "(still running after 240 s: not rejected)", None
            if rc == 1 and "garble flags must precede command" in out:
                st["rejected_at_once"] += 1
            else:
                chk.violation("garble's own flag placed after the command is not rejected: garble %s (exit %s: %s)" % (" ".join(argv), rc, out[-200:].replace("\n", " ")),
                              {"kind": "argv", "argv": argv, "exit": rc, "stderr": out[-600:]}, True, key="own-flag-not-rejected")
                break
        # a build flag that the go command only accepts in first position: garble puts its own flags before the user's
        st2 = chk.cov["streams"].setdefault("e2e:chdir-flag", {"command_lines": 0, "accepted": 0})
        for argv in (["map", "-C", "m", "."], ["map", "-C=m", "."]):
            st2["command_lines"] += 1
            chk.count_cases(["chdir|" + " ".join(argv)])
            g = subprocess.run(["go", "list", "-C", "m", "."], cwd=scratch, env=env, capture_output=True, text=True, timeout=120)
            r = subprocess.run([garble] + argv, cwd=scratch, env=env, capture_output=True, text=True, timeout=240)
            if g.returncode == 0 and r.returncode == 0:
                st2["accepted"] += 1
            elif g.returncode == 0:
                chk.violation("a command line the go command accepts is refused: garble %s (%s)" % (" ".join(argv), r.stderr[-200:].replace("\n", " ")),
                              {"kind": "argv", "argv": argv, "exit": r.returncode, "stderr": r.stderr[-600:]}, True, key="chdir-flag-not-first")
                break
    finally:
        shutil.rmtree(scratch, ignore_errors=True)


def main(tier, replay=None):
    chk = core.Check(PID, tier)
    core.build_tools()
    if replay:
        core.regen(GENS)
        return oracle.replay_oracle(chk, replay, make_predicate())
    chk.proofs(GENS, MODULES)
    predicate = make_predicate()
    n = 20000 if tier == "quick" else 600000
    oracle.oracle_property(chk, [("c20", chk.seed, n)], predicate, [("c20", chk.seed + 7919 * k, 200000) for k in range(1, 4)],
                           explain="ops: split/filter/reject/fval/fvals/fset/splitfiles/trimpath <hex tokens>, rxgarble <tok>; answers are `n tok…` lists")
    rejection_probe(chk, tier)
    chk.cov["rule"] = "random argument vectors over documented go flags (bool/value, 1 and 2 dashes, =value and separate value), garble's own flags, unknown flags and values that look like flags/paths; case = op line"
    chk.assumptions += ["go's flag grammar is the Go flag package's parseOne (read from go1.26.2 source), modelled as goSplit", "`--` and a bare `-` in flag position are outside the property's vectors",
                        "the end-to-end argv of the nested go command is covered by theorem nested_preserves_user_args over the model of toolexecCmd, not executed"]
    return chk.finish()
