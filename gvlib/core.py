"""Common machinery for the garble verification checks (see DESIGN.md section 3).

Flow of a check:  build tools + oracle from /repo's working tree -> regenerate lean/GV/Gen -> lake build the
property's theorem modules (proof obligations) -> axiom audit -> correspondence streams (oracle vs. model) ->
if anything broke, search the IMPLEMENTATION for a property-level failing input -> evidence + verdict.
"""
import fcntl, hashlib, json, os, re, shutil, subprocess, sys, tempfile, time

VERIF = os.path.dirname(os.path.dirname(os.path.abspath(__file__)))
REPO = os.environ.get("GV_REPO", "/repo")
LEAN = os.path.join(VERIF, "lean")
BUILD = os.path.join(VERIF, ".build")
ALLOWED_AXIOMS = {"propext", "Classical.choice", "Quot.sound"}
TRUSTED_BASE = [
    "Lean 4.33.0 kernel (lake build; leanchecker in the thorough tier)",
    "axioms: at most propext, Classical.choice, Quot.sound (audited per theorem on every run by Audit.lean)",
    "translator /verif/tools/extract and its shape expectations (regenerates lean/GV/Gen from /repo on every run)",
    "correspondence harness: verif-tagged oracle hooks in /repo, generators /verif/tools/gvgen, differ /verif/gvlib",
    "Go toolchain go1.26.2 as reference semantics (go/token, go/types, math/rand, compiler)",
]


def goroot():
    """GOROOT of the toolchain /repo's go.mod selects (the system go auto-switches to it from the module cache)."""
    e = {k: v for k, v in os.environ.items() if k not in ("GOROOT", "GOTOOLCHAIN", "GOFLAGS")}
    e.update(GOPROXY="off", GOFLAGS="-mod=mod", GOTOOLCHAIN="auto")
    for go in ("/usr/bin/go", "go"):
        try:
            r = subprocess.run([go, "env", "GOROOT"], cwd=REPO, capture_output=True, text=True, env=e)
        except OSError:
            continue
        p = r.stdout.strip()
        if p and os.path.exists(os.path.join(p, "bin", "go")) and "toolchain@" in p:
            return p
    import glob
    c = sorted(glob.glob("/root/go/pkg/mod/golang.org/toolchain@v0.0.1-go1.26.2*"))
    return c[0] if c else "/root/go/pkg/mod/golang.org/toolchain@v0.0.1-go1.26.2.linux-amd64"


_ENV = None


def env():
    """Environment for every go / garble invocation (see DESIGN.md 3: toolchain first on PATH, offline)."""
    global _ENV
    if _ENV is None:
        e = dict(os.environ)
        gr = goroot()
        e["PATH"] = os.path.join(gr, "bin") + ":" + e.get("PATH", "")
        e.update(GOTOOLCHAIN="local", GOPROXY="off", GOFLAGS="-mod=mod", GOSUMDB="off", GONOSUMDB="*",
                 CGO_ENABLED=e.get("CGO_ENABLED", "1"))
        e["GV_GOROOT"] = gr
        e.pop("GOROOT", None)
        _ENV = e
    return _ENV


def run(cmd, cwd=None, inp=None, timeout=None, extra_env=None, check=False):
    e = env()
    if extra_env:
        e = {**e, **extra_env}
    r = subprocess.run(cmd, cwd=cwd, input=inp, capture_output=True, text=True, env=e, timeout=timeout)
    if check and r.returncode != 0:
        raise RuntimeError("command failed: %s\n%s\n%s" % (" ".join(cmd), r.stdout[-4000:], r.stderr[-4000:]))
    return r


class Lock:
    def __init__(self, name):
        os.makedirs(BUILD, exist_ok=True)
        self.path = os.path.join(BUILD, name + ".lock")

    def __enter__(self):
        self.f = open(self.path, "w")
        fcntl.flock(self.f, fcntl.LOCK_EX)

    def __exit__(self, *a):
        fcntl.flock(self.f, fcntl.LOCK_UN)
        self.f.close()


def build_tools():
    with Lock("tools"):
        for t in ("extract", "gvgen"):
            run(["go", "build", "-o", os.path.join(BUILD, t), "./" + t], cwd=os.path.join(VERIF, "tools"), check=True)


def build_oracle():
    """garble built from the CURRENT working tree with the verif hooks on."""
    out = os.path.join(BUILD, "garble-oracle")
    with Lock("oracle"):
        r = run(["go", "build", "-tags", "verif", "-o", out, "."], cwd=REPO)
    return out if r.returncode == 0 else None, r.stderr


def build_garble():
    """garble built from the CURRENT working tree WITHOUT the tag (what users run)."""
    out = os.path.join(BUILD, "garble")
    with Lock("garble"):
        r = run(["go", "build", "-o", out, "."], cwd=REPO)
    return out if r.returncode == 0 else None, r.stderr


def regen(gens):
    """Run the translator for the named generators. Returns (ok, [broken-tie messages])."""
    with Lock("lake"):
        r = run([os.path.join(BUILD, "extract"), "-repo", REPO, "-goroot", env()["GV_GOROOT"],
                 "-out", os.path.join(LEAN, "GV", "Gen")] + list(gens))
    broken = [l for l in r.stdout.splitlines() if l.startswith("BROKEN-TIE")]
    if r.returncode not in (0, 3):
        broken.append("BROKEN-TIE extractor crashed: " + r.stderr[-2000:])
    return not broken, broken


def lake_build(targets):
    """Returns (ok, failing_modules, log)."""
    with Lock("lake"):
        r = run(["lake", "build"] + list(targets), cwd=LEAN, timeout=3600)
    log = r.stdout + r.stderr
    failing = re.findall(r"^- (\S+)$", log, re.M)
    return r.returncode == 0, failing, log


def lake_errors(log):
    """first error lines of a lake log: (file, line, message)"""
    out = []
    for m in re.finditer(r"^error: (\S+?):(\d+):(\d+): (.*)$", log, re.M):
        out.append({"file": m.group(1), "line": int(m.group(2)), "msg": m.group(4)[:300]})
    return out


def theorem_at(file, line):
    """name of the theorem whose declaration encloses file:line (for replay files)"""
    try:
        src = open(os.path.join(LEAN, file)).read().splitlines()
    except OSError:
        return None
    for i in range(min(line, len(src)) - 1, -1, -1):
        m = re.match(r"\s*(?:private |protected )?(?:theorem|lemma|example|def|instance)\s+(\S+)", src[i])
        if m:
            return m.group(1)
    return None


def audit(modules):
    """#print-axioms style audit of every theorem of the given compiled modules.
    Returns (theorems: list of (module, name, axioms), bad: list)."""
    with Lock("lake"):
        exe = os.path.join(LEAN, ".lake", "build", "bin", "gvaudit")
        if not os.path.exists(exe):
            run(["lake", "build", "gvaudit"], cwd=LEAN, timeout=1200)
        r = run(["lake", "env", exe] + list(modules), cwd=LEAN, timeout=1200)
    thms, bad = [], []
    for l in r.stdout.splitlines():
        m = re.match(r"THEOREM (\S+) (\S+) :\s*(.*)$", l)
        if m:
            axs = m.group(3).split()
            thms.append((m.group(1), m.group(2), axs))
            if not set(axs) <= ALLOWED_AXIOMS:
                bad.append((m.group(2), axs))
        elif l.startswith("AXIOM"):
            bad.append((l, ["declared axiom"]))
    if r.returncode != 0:
        bad.append(("audit failed to run", [r.stderr[-500:] + r.stdout[-500:]]))
    return thms, bad


FORBIDDEN = re.compile(r"\bsorry\b|\badmit\b|^axiom\s|native_decide|bv_decide|implemented_by|\bunsafe\s|maxHeartbeats\s+0")


def grep_forbidden():
    """sorry/admit/axiom/native_decide/... anywhere in the Lean sources (comments stripped)"""
    hits = []
    for root, _, files in os.walk(os.path.join(LEAN, "GV")):
        for f in files:
            if not f.endswith(".lean"):
                continue
            p = os.path.join(root, f)
            txt = open(p).read()
            txt = re.sub(r"/-.*?-/", lambda m: "\n" * m.group(0).count("\n"), txt, flags=re.S)
            for i, l in enumerate(txt.splitlines(), 1):
                l = l.split("--")[0]
                if FORBIDDEN.search(l):
                    hits.append("%s:%d: %s" % (os.path.relpath(p, LEAN), i, l.strip()))
    return hits


def gen_ops(stream, seed, n):
    r = run([os.path.join(BUILD, "gvgen"), stream, str(seed), str(n)], check=True)
    lines = r.stdout.splitlines()
    stats = {}
    if lines and lines[-1].startswith("#stats "):
        stats = json.loads(lines[-1][7:])
        lines = lines[:-1]
    return lines, stats


def run_lines(binary_cmd, lines, timeout=1800, extra_env=None, cwd=None):
    r = run(binary_cmd, inp="\n".join(lines) + "\n", timeout=timeout, extra_env=extra_env, cwd=cwd)
    return r.stdout.splitlines(), r


def oracle_cmd(oracle):
    return [oracle, "verif-oracle"]


def driver_cmd():
    return [os.path.join(LEAN, ".lake", "build", "bin", "gvdriver")]


def canon(line):
    if line.startswith("!panic"):
        return "!panic"
    return line


def diff_streams(ops, impl, model):
    """positions where the canonicalised answers differ; ops are the non-comment request lines"""
    reqs = [l for l in ops if l and not l.startswith("#")]
    out = []
    if len(impl) != len(reqs) or len(model) != len(reqs):
        out.append({"index": -1, "op": "(stream length)", "impl": "%d answers" % len(impl),
                    "model": "%d answers for %d requests" % (len(model), len(reqs))})
    for i, (q, a, b) in enumerate(zip(reqs, impl, model)):
        if canon(a) != canon(b):
            out.append({"index": i, "op": q, "impl": a, "model": b})
    return out


def shrink_history(ops, fails_fn, max_rounds=200):
    """delta-debug an op list against a predicate `fails_fn(ops) -> bool`"""
    cur = list(ops)
    n = 2
    rounds = 0
    while len(cur) >= 2 and rounds < max_rounds:
        rounds += 1
        chunk = max(1, len(cur) // n)
        reduced = False
        for i in range(0, len(cur), chunk):
            cand = cur[:i] + cur[i + chunk:]
            if cand and fails_fn(cand):
                cur = cand
                n = max(n - 1, 2)
                reduced = True
                break
        if not reduced:
            if chunk == 1:
                break
            n = min(len(cur), n * 2)
    return cur


def load_known_findings():
    p = os.path.join(VERIF, "known_findings.json")
    if not os.path.exists(p):
        return []
    return json.load(open(p)).get("findings", [])


class Check:
    """Book-keeping for one run of one property's check."""

    def __init__(self, pid, tier, level="proof"):
        self.pid, self.tier, self.level = pid, tier, level
        self.seed = int(os.environ.get("VERIF_SEED", "1") or "1")
        self.t0 = time.time()
        self.cov = {"obligations": 0, "discharged": 0, "checker_cmd": "", "trusted_base": list(TRUSTED_BASE),
                    "evaluations": 0, "distinct_nontrivial": 0, "rule": "", "samples": [], "streams": {},
                    "input_distribution": {}, "theorems": [], "broken": []}
        self.assumptions = []
        self.violations = []      # dicts: {"kind", "what", "replay": {...}, "found_input": bool, "key": str}
        self.known_hits = []
        self.notes = []
        self._distinct = set()

    def log(self, *a):
        print("[%s %5.1fs]" % (self.pid, time.time() - self.t0), *a, flush=True)

    # -- coverage accounting -------------------------------------------------
    def count_cases(self, cases):
        for c in cases:
            self.cov["evaluations"] += 1
            self._distinct.add(hashlib.sha1(c.encode()).digest()[:8])
        self.cov["distinct_nontrivial"] = len(self._distinct)

    def add_sample(self, s, limit=6):
        if len(self.cov["samples"]) < limit:
            self.cov["samples"].append(s)

    # -- proofs --------------------------------------------------------------
    def proofs(self, gens, modules, extra_targets=("gvdriver", "gvaudit")):
        """regenerate, build, audit. Returns True when every obligation is discharged."""
        ok = True
        tie_ok, broken = regen(gens)
        if not tie_ok:
            ok = False
            for b in broken:
                self.log(b)
                self.cov["broken"].append({"kind": "translator", "what": b})
        built, failing, log = lake_build(list(modules) + list(extra_targets))
        self.cov["checker_cmd"] = "cd /verif/lean && lake build %s && lake env .lake/build/bin/gvaudit %s" % (
            " ".join(modules), " ".join(modules))
        if not built:
            ok = False
            errs = lake_errors(log)
            for e in errs[:10]:
                e["theorem"] = theorem_at(e["file"], e["line"])
                self.cov["broken"].append({"kind": "proof", "what": "%s:%d %s: %s" % (e["file"], e["line"], e["theorem"], e["msg"])})
                self.log("proof obligation broken:", e["file"], e["line"], e["theorem"], e["msg"][:160])
            if not errs:
                self.cov["broken"].append({"kind": "proof", "what": "lake build failed: " + log[-1500:]})
                self.log("lake build failed:\n" + log[-3000:])
            okmods = [m for m in modules if m not in failing and not any(f.startswith(m) for f in failing)]
        else:
            okmods = list(modules)
        thms, bad = (audit(okmods) if okmods and built else ([], []))
        forb = grep_forbidden()
        for name, axs in bad:
            ok = False
            self.cov["broken"].append({"kind": "axiom", "what": "%s depends on %s" % (name, axs)})
            self.log("axiom audit:", name, axs)
        for h in forb:
            ok = False
            self.cov["broken"].append({"kind": "forbidden", "what": h})
            self.log("forbidden construct:", h)
        self.cov["theorems"] = [{"name": n, "axioms": a} for _, n, a in thms]
        self.cov["obligations"] = len(thms) + len([b for b in self.cov["broken"] if b["kind"] in ("proof", "translator")])
        self.cov["discharged"] = len(thms) - len(bad)
        self.proofs_ok = ok
        return ok

    # -- verdict ---------------------------------------------------------------
    def violation(self, what, replay, found_input, key=None):
        self.violations.append({"what": what, "replay": replay, "found_input": found_input, "key": key or what})

    def finish(self):
        known = [k for k in load_known_findings() if k.get("property") == self.pid and k.get("status", "open") == "open"]
        real = []
        for v in self.violations:
            hit = next((k for k in known if k["key"] == v["key"]), None)
            if hit:
                if hit["key"] not in [h["key"] for h in self.known_hits]:
                    self.known_hits.append(hit)
            else:
                real.append(v)
        # a broken proof obligation / translator expectation / correspondence stream with no NEW concrete failing input
        # is still a violation: the property is no longer shown to hold (reported with no-failing-input-found)
        if self.cov["broken"] and not any(v["found_input"] for v in real) and not any(v["key"].startswith("broken:") for v in real):
            what = "; ".join(b["what"] for b in self.cov["broken"])[:1500]
            real.append({"what": "no longer shown to hold: " + what, "found_input": False, "key": "broken:" + what[:200],
                         "replay": {"kind": "broken-obligation", "broken": self.cov["broken"]}})
        # once a concrete failing input is in hand it is the replay; the "no longer shown to hold" report is redundant
        if any(v["found_input"] for v in real):
            real = [v for v in real if v["found_input"]]
        wall = time.time() - self.t0
        ev = {"property_id": self.pid, "tier": self.tier, "seed": self.seed, "level": self.level,
              "coverage": self.cov, "assumptions": self.assumptions, "wall_s": round(wall, 2),
              "violations": len(real), "known_findings_hit": [k["key"] for k in self.known_hits], "notes": self.notes}
        if not self.cov["samples"]:
            self.cov["samples"] = ["(no sample recorded)"]
        os.makedirs(os.path.join(VERIF, "evidence"), exist_ok=True)
        with open(os.path.join(VERIF, "evidence", self.pid + ".json"), "w") as f:
            json.dump(ev, f, indent=1, default=str)
        for k in self.known_hits:
            print("KNOWN-FINDING: property=%s %s" % (self.pid, k["what"]), flush=True)
        if real:
            os.makedirs(os.path.join(VERIF, "replays"), exist_ok=True)
            # prefer a violation with a concrete failing input
            real.sort(key=lambda v: not v["found_input"])
            for i, v in enumerate(real[:5]):
                path = os.path.join(VERIF, "replays", "%s-%d-%d.json" % (self.pid, int(self.t0), i))
                with open(path, "w") as f:
                    json.dump({"property": self.pid, "what": v["what"], "found_failing_input": v["found_input"],
                               "seed": self.seed, "tier": self.tier, "replay": v["replay"],
                               "rerun": "cd /verif && ./check %s --replay %s" % (self.pid, path)}, f, indent=1, default=str)
                print("VIOLATION property=%s replay=%s%s" % (self.pid, path, "" if v["found_input"] else " no-failing-input-found"), flush=True)
            self.log("FAILED in %.1fs" % wall)
            return 1
        self.log("ok in %.1fs: %d theorems, %d cases (%d distinct)" % (wall, self.cov["discharged"], self.cov["evaluations"], self.cov["distinct_nontrivial"]))
        return 0
