"""C16 — obfuscated names are well-formed, export-preserving and stable."""
import re
from . import core, oracle

PID = "C16"
GENS = ["Consts"]
MODULES = ["GV.Props.C16"]
IDENT = re.compile(r"^[A-Za-z_][A-Za-z0-9_]*$")


def unhex(s):
    return b"" if s == "-" else bytes.fromhex(s)


def predicate(reqs, impl):
    """Property-level oracle on the implementation's answers: identifier, 6..12 chars, charset, exportedness
    preserved, equal (seed, salt, name) => equal output within the history."""
    fails, seed, memo = [], "-", {}
    for i, (q, a) in enumerate(zip(reqs, impl)):
        f = q.split(" ")
        if f[0] == "seed":
            seed = f[1]
        if f[0] != "hash" or a.startswith("!"):
            continue
        name = unhex(a).decode("latin-1")
        cls = f[3]
        why = None
        if not (6 <= len(name) <= 12):
            why = "name length %d outside 6..12" % len(name)
        elif not IDENT.match(name):
            why = "obfuscated name %r is not an identifier over [A-Za-z0-9_]" % name
        elif cls == "1" and not name[0].isupper():
            why = "exported original got unexported name %r" % name
        elif cls == "2" and name[0].isupper():
            why = "unexported original got exported name %r" % name
        key = (seed, f[1], f[2])
        if why is None and key in memo and memo[key] != name:
            why = "same (seed, salt, name) gave %r then %r: not a pure function" % (memo[key], name)
        memo.setdefault(key, name)
        if why:
            fails.append({"index": i, "op": q, "why": why, "key": why.split(" ")[0] + ":" + q})
    return fails


def main(tier, replay=None):
    chk = core.Check(PID, tier)
    core.build_tools()
    if replay:
        return oracle.replay_oracle(chk, replay, predicate)
    chk.proofs(GENS, MODULES)
    n = 20000 if tier == "quick" else 400000
    specs = [("c16", chk.seed, n)]
    if tier == "thorough":
        specs += [("c16", chk.seed + 1000 + k, 200000) for k in range(4)]
    oracle.oracle_property(chk, specs, predicate, [("c16", chk.seed + 7919 * k, 200000) for k in range(1, 4)],
                           explain="ops are oracle protocol lines (DESIGN.md appendix B); `hash <salt> <name> <class>` calls the real hashWithCustomSalt")
    chk.cov["rule"] = ("histories of oracle ops (hash/hpkg/gaction/cfg/seed/pkg/magic interleaved) generated from VERIF_SEED; a case is one op line; "
                       "distinct = distinct op lines (sha1); the directed tail hits every (leading base64 symbol x class x length) combination")
    chk.assumptions += ["SHA-256 is executed on both sides, never reasoned about", "token.IsIdentifier/IsExported (Go stdlib) computes the name class for both sides",
                        "not proved: that a name is not a Go keyword/predeclared identifier (hash-prefix event, <= 2^-30 per name)"]
    return chk.finish()
