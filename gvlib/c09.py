"""C09 — with -literals, literal contents do not appear in the binary."""
import base64, os, random, re
from . import core, e2e, c01model, c05
from .c01model import hx, unhex

PID = "C09"
GENS = ["Consts", "LitConsts"]
MODULES = ["GV.Props.C09"]


class MarkerProgram:
    """a program with a unique high-entropy marker in every syntactic position the generator knows; each marker comes
    with the model's decision (must be absent from the binary / may remain, and why)"""

    def __init__(self, rnd, sizes=(12, 40)):
        self.rnd = rnd
        self.markers = []      # (text, must_vanish, position)
        self.k = 0

    def mk(self, must_vanish, position, n=None):
        n = n or self.rnd.choice([8, 9, 17, 33, 64, 255, 256, 257, 700, 2048])
        body = "".join(self.rnd.choice("ABCDEFGHJKLMNPQRSTUVWXYZ23456789") for _ in range(max(0, n - 6)))
        self.k += 1
        m = ("M%02dq%s" % (self.k, body))[:n].ljust(n, "Z")
        self.markers.append((m, must_vanish, position))
        return m

    def byteslit(self, must_vanish, position, n=12):
        m = self.mk(must_vanish, position, n)
        return ", ".join("'%s'" % c for c in m)

    def source(self):
        mk, bl = self.mk, self.byteslit
        src = '''package main

import (
	"fmt"

	"gv.test/markers/lib"
)

type Named string

const typedPart string = "%(typed_part_a)s"
const typedLabel string = "%(typed_label)s"

const konst = "%(const_decl)s"
const typedKonst Named = "%(typed_const)s"

var injected = "%(linker_var)s"
var plainVar = "%(pkg_var)s"
var short = "%(short7)s"
var long = "%(long2049)s"
var bytesVar = []byte{%(byte_slice)s}
var arrayVar = [16]byte{%(byte_array)s}
var ptrSlice = &[]byte{%(ptr_slice)s}
var ptrArray = &[12]byte{%(ptr_array)s}
var shortBytes = []byte{%(short_bytes)s}
var named Named = "%(named_typed_var)s"

type S struct {
	F string
	B []byte
}

//go:nosplit
func nosplit() string { return "%(nosplit)s" }

func generic[T any](x T) string { return fmt.Sprint(x, "%(generic_fn)s") }

//go:noinline
func label(s string) int {
	switch s {
	case "%(case_label)s":
		return 1
	}
	return use(s)
}

var initVar string

func init() { initVar = "%(init_fn)s" }

//go:noinline
func use(s string) int {
	n := 0
	for i := 0; i < len(s); i++ {
		n += int(s[i])
	}
	return n
}

//go:noinline
func useb(b []byte) int { return use(string(b)) }

func main() {
	m := map[string]string{"%(map_key)s": "%(map_value)s"}
	s := S{F: "%(struct_field)s", B: []byte("%(conv_bytes)s")}
	f := func() string { return "%(closure)s" }
	g := "%(concat_a)s" + "%(concat_b)s"
	fmt.Println(use(konst), use(string(typedKonst)), len(injected), use(plainVar), use(short), use(long), useb(bytesVar), useb(arrayVar[:]), useb(*ptrSlice), useb(ptrArray[:]), useb(shortBytes), use(string(named)))
	for k, v := range m {
		fmt.Println(use(k), use(v))
	}
	fmt.Println(use(s.F), useb(s.B), use(f()), use(g), use(nosplit()), use(generic(1)), label("%(call_arg)s"), use(initVar))
	fmt.Println(use(fmt.Sprintf("%%s", "%(verb_arg)s")), use([]string{"%(slice_elem)s"}[0]), use(ret()))
	fmt.Println(use(oversized()), use(string(labelled())), use(lib.Injected()), use(lib.Other))
}

func ret() string { return "%(return_stmt)s" }

//go:noinline
func oversized() string { return typedPart + "%(typed_part_b)s" + "%(typed_part_c)s" }

//go:noinline
func labelled() Named { return Named(typedLabel) }
'''
        vals = {
            # a const DECLARATION is skipped, but every USE of the constant in a string-typed position is rewritten; the
            # constant itself is folded away by the compiler, so its text must not survive either
            "const_decl": mk(True, "const declaration (uses are rewritten)"),
            "typed_const": mk(False, "constant of a named string type (exempt)"),
            "linker_var": mk(False, "declaration of a -ldflags=-X target (exempt)"),
            "pkg_var": mk(True, "package-level var initialiser"),
            "short7": mk(False, "7-byte string, below the window (exempt)", 7),
            "long2049": mk(False, "2049-byte string, above the window (exempt)", 2049),
            "byte_slice": bl(True, "[]byte composite literal"),
            "byte_array": bl(True, "[16]byte composite literal", 14),
            "ptr_slice": bl(True, "&[]byte composite literal"),
            "ptr_array": bl(True, "&[12]byte composite literal", 12),
            "short_bytes": bl(False, "7-element []byte, below the window (exempt)", 7),
            "named_typed_var": mk(False, "literal of a named string type (exempt: type is not `string`)"),
            "nosplit": mk(False, "inside a //go:nosplit function (exempt)"),
            "generic_fn": mk(True, "inside a generic function"),
            "case_label": mk(True, "switch case label"),
            "init_fn": mk(True, "inside init"),
            "map_key": mk(True, "map key"), "map_value": mk(True, "map value"),
            "struct_field": mk(True, "struct field value"), "conv_bytes": mk(True, "argument of a []byte conversion"),
            "closure": mk(True, "inside a closure"),
            "concat_a": mk(True, "left operand of a constant concatenation", 20), "concat_b": mk(True, "right operand of a constant concatenation", 20),
            "call_arg": mk(True, "call argument"), "verb_arg": mk(True, "variadic interface argument"),
            "slice_elem": mk(True, "[]string element"), "return_stmt": mk(True, "return statement"),
            # a concatenation of typed string constants that is too long as a whole: every operand is rewritten on its own
            "typed_part_a": mk(True, "typed constant operand of an oversized concatenation", 900),
            "typed_part_b": mk(True, "literal operand of an oversized typed concatenation", 900),
            "typed_part_c": mk(True, "second literal operand of an oversized typed concatenation", 900),
            "typed_label": mk(True, "typed string constant converted to a defined string type", 48),
        }
        # another package has a variable with the NAME of main's -X target: it is not a linker target itself
        self.lib = '''package lib

var injected = "%s"

var Other = "%s"

func Injected() string { return injected }
''' % (mk(True, "variable named like main's -X target, in another package"), mk(True, "package var of a dependency"))
        return src % vals


def main(tier, replay=None):
    chk = core.Check(PID, tier)
    core.build_tools()
    chk.proofs(GENS, MODULES)
    E = e2e.E2E("c09")
    fails = []
    try:
        rnd = random.Random(chk.seed * 3 + 1)
        seeds = ["o9WDTZ4CN4w"] if tier == "quick" else ["o9WDTZ4CN4w", "k3mTq0Zf9vJxW2hL7dRpYw", "Vd8nqLr0c2M5xw", None, None]
        for i, seed in enumerate(seeds):
            mp = MarkerProgram(rnd)
            src = mp.source()
            root = E.write_module("m%d" % i, {"go.mod": "module gv.test/markers\n\ngo 1.26\n", "main.go": src, "lib/lib.go": mp.lib})
            linker = mp.markers[2][0]
            gflags = ["-literals"] + (["-seed=" + seed] if seed else [])
            pb = E.run_go(["build", "-trimpath", "-o", "plain", "."], root)
            gb = E.run_garble(gflags, ["build", "-ldflags=-X=main.injected=" + "I" * 20, "-o", "garbled", "."], root)
            chk.count_cases(["markers|%s|%d" % (seed, i)] + [m[2] for m in mp.markers])
            if gb.returncode != 0:
                fails.append({"why": "garble -literals build fails on the marker program", "detail": gb.stderr[-1500:], "key": "literals-build-fails"}); continue
            # behaviour (lengths) must be the same
            a = E.run_bin(os.path.join(root, "plain")); b = E.run_bin(os.path.join(root, "garbled"))
            if a[1] != b[1].replace(b"I" * 20, b"") and (a[0], a[1].split()[3:]) != (b[0], b[1].split()[3:]):
                fails.append({"why": "the -literals build behaves differently", "detail": {"plain": a[1].decode()[-300:], "garbled": b[1].decode()[-300:]}, "key": "literals-behaviour"})
            data = open(os.path.join(root, "garbled"), "rb").read()
            plain = open(os.path.join(root, "plain"), "rb").read()
            st = chk.cov["streams"].setdefault("marker_scan", {"binaries": 0, "markers_must_vanish": 0, "markers_exempt": 0, "exempt_found_in_plain_build": 0})
            st["binaries"] += 1
            for (m, must, pos) in mp.markers:
                found = m.encode() in data
                if must:
                    st["markers_must_vanish"] += 1
                    if m.encode() not in plain and len(m) > 16 and "composite" not in pos and "const decl" not in pos:
                        chk.notes.append("marker for %s is not even in the regular binary (dead code?)" % pos)
                    if found:
                        fails.append({"why": "a literal in the obfuscation window appears verbatim in the -literals binary", "detail": {"position": pos, "marker": m[:80], "length": len(m), "seed": seed}, "key": "literal-leaks:" + pos})
                else:
                    st["markers_exempt"] += 1
            if seed:
                raw = base64.b64decode(seed + "=" * (-len(seed) % 4))
                for needle, what in ((seed.encode(), "the -seed value (base64 text)"), (raw, "the -seed value (raw bytes)")):
                    if len(needle) >= 8 and needle in data:
                        fails.append({"why": "the binary contains " + what, "detail": {"seed": seed}, "key": "seed-leaks"})
            chk.add_sample({"seed": seed, "positions": [m[2] for m in mp.markers][:8], "marker": mp.markers[3][0][:40]})
    finally:
        E.cleanup()
    seen = set()
    for f in fails:
        if f["key"] not in seen:
            seen.add(f["key"])
            chk.violation(f["why"] + ": " + str(f["detail"])[:300], {"kind": "literal-scan", **f}, True, key=f["key"])
    chk.cov["rule"] = ("a generated program with a unique high-entropy marker in each of 27 syntactic positions (lengths 7..2049), built with the real `garble -literals [-seed]`; "
                       "the binary is searched for every marker the model says must be rewritten, and for the seed (text and raw); case = (program, marker position)")
    chk.assumptions += ["that a plaintext cannot reappear in the binary by coincidence is a probability statement: not proved (partial)",
                        "the decision model (shouldObfuscate) is tied by the scan only; the AST walk itself is exercised by C05's whole-file runs"]
    return chk.finish()
