"""Regenerates MANIFEST.json from the per-property descriptions below (python3 -m gvlib.manifest)."""
import json, os, subprocess

VERIF = os.path.dirname(os.path.dirname(os.path.abspath(__file__)))

CHECKS = {}     # pid -> dict(text=..., note=..., technique=..., design_ref=...)
NOT_YET = {}    # pid -> reason


def claim(pid, text, note, technique, design_ref):
    CHECKS[pid] = dict(text=text, note=note, technique=technique, design_ref=design_ref)


claim("C16",
      "Lean 4 theorems over a model of hashWithCustomSalt's encoder, for EVERY digest and name class: length within [minHashLength,maxHashLength] = [6,12] (constants regenerated from hash.go on every run), charset [A-Za-z0-9_], starts with letter/underscore, exported originals give upper-case first letter and unexported never do, equal names force equal length and >=5 agreeing 6-bit groups of the SHA-256 prefix (up to the a/- merge). Tie: regenerated constants + differential histories (real hashWithCustomSalt/hashWithPackage/addGarbleToHash vs. the model, ~2e4 ops quick) including scratch-buffer aliasing histories and all 64x3x7 leading-symbol/class/length combinations.",
      "Trusted: Lean kernel; axioms propext/Classical.choice/Quot.sound; extractor; oracle hook + differ; go/token for the name class. SHA-256 executed not reasoned about; 'not a keyword' is a hash-prefix event, not proved.",
      "Lean 4 proof (all digests) + regenerated constants + oracle/model differential histories", "DESIGN.md 5/C16")

claim("C01",
      "PARTIAL by nature: behaviour preservation under renaming needs Go's semantics, which is not modelled. What IS proved (Lean 4, all configurations/packages/names): the naming decision (model of obfuscatedObjectName) is a function of the object descriptor and shared build data; interface and implementing methods agree; and each of the four RE-IMPLEMENTATIONS of that decision agrees with it - //go:linkname to functions, to T.m and (*T).m methods, assembly symbol references, go_asm.h offset names (incl. embedded fields), and the -ldflags=-X duplication - under explicitly stated hypotheses the proofs force (targets named main/init/TestMain/Test* with a testing.T signature are exempted only by the Go-source path; theorem exempt_names_disagree proves that gap). Tie: the oracle loads generated multi-package modules through the real go list route and dumps, for ~12k objects per run (module packages plus reflect, sync/atomic, embed, math/bits, fmt, os, testing...), the descriptor and the real decision; the model recomputes every decision, every obfuscated import path/package name, ~250 linkname rewrites and the assembly symbol names. End-to-end: generated programs (15 feature snippets incl. asm, linkname, -X, generics, cross-package struct conversion, tests) x garble flag sets x build/run/test x argument vectors vs. the regular toolchain.",
      "Trusted: Lean kernel, 3 standard axioms, extractor (std tables), oracle hooks, program generator. NOT proved: that consistent renaming preserves behaviour (compiler/linker semantics); sampled by the e2e differential. Assembly tokenisation (replaceAsmNames scanning) is exercised by correspondence only.",
      "Lean 4 proof (naming consistency across 5 code paths) + oracle/model differential on real go-list-loaded packages + e2e differential", "DESIGN.md 5/C01")

claim("C02",
      "PARTIAL: what the compiler/linker put in a binary is outside any model. Proved (Lean 4): kept_only_if_documented - for EVERY object descriptor and environment, the naming decision keeps a name only for one of the documented reasons (universe, the four special-cased std names, package out of scope, non-renamed kinds, intrinsics, exported methods, main/init/TestMain, test functions) - a new silent exemption breaks the tie; link_flags - for every link command line of the shape the go command produces, the transformed flags contain -w, -s and -X=runtime.buildVersion=unknown (proved through lemmas about flagSetValue: it keeps every argument that is not the one it rewrites); importcfg_only_known_lines - for every importcfg content the rewritten file has only importmap/packagefile lines (modinfo dropped); positions are empty under -tiny and a package-salted hash of file:offset otherwise. Tie: real transformLink on generated command lines and importcfg files, real printFile line directives vs. the model on reference call offsets, ~6k object decisions checked against the exception list. End-to-end: the garbled binary of generated programs is scanned for the program's unique name stem (identifiers, files, dirs, module), source and TMPDIR paths, Go version, symbol/DWARF sections, module info, build ID.",
      "Trusted: Lean kernel, 3 axioms, extractor, oracle hooks, generator (which names carry the must-go stem). Not modelled: compiler, assembler, linker output; sampled by the scan.",
      "Lean 4 proof (decision exceptions, link flags, importcfg, positions) + oracle/model differential + binary scan", "DESIGN.md 5/C02")

claim("C04",
      "Lean 4 theorems over a specification of multi-string replacement (leftmost position, first listed pair, non-overlapping) and of the line-wise driver reverseContent, for all pair lists and all inputs: passthrough (any bytes, any line endings, with or without final newline: if no line contains a key, output = input and modified = false), not_modified_output_eq, specific_first (name.go:1 listed before name.go maps frame :1 to file:LINE and any other :N to file:N), roundtrip_unique_parse (every obfuscated name written into otherwise clean text is replaced by its original and the surrounding text kept byte for byte, by induction over an arbitrary template of text and name segments, under the explicit unique-parse hypothesis), forward_position_in_reverse_table (the file name written by the build is the key reverse computes, for base-name files). Tie: 1500 random pair lists/inputs through the real reverseContent + strings.NewReplacer and through the replacer garble injects into binaries vs. the specification; end to end, panicking and debug.Stack programs (methods, generic functions/methods, closures, defers, goroutines, two packages and files) are built with garble and `garble reverse` of the obfuscated trace must equal the regular -trimpath build's trace; clean text must pass through with exit status 1.",
      "Trusted: Lean kernel, 3 axioms, oracle hooks, trace canonicalisation (addresses, goroutine ids). Not modelled: the go/printer + go/scanner pairing of identifiers to call offsets in position.go (sampled end to end).",
      "Lean 4 proof (replacement spec, pass-through, round trip) + oracle/model differential + end-to-end trace comparison", "DESIGN.md 5/C04")

claim("C05",
      "Lean 4 theorems over a model of the literal obfuscators (decoder IR with one constructor per emitted shape; build = what the Go code computes at obfuscation time; eval = meaning of the emitted decoder), for EVERY plaintext of every length and EVERY outcome of the random draws meeting explicit side conditions: rev_eval (evalOperator vs operatorToReversedBinaryExpr on all bytes), slicelit_roundtrip (external-key statement lists of any length with repeated or out-of-range indexes are undone by the reversed list), byteexpr_roundtrip, simple_roundtrip, seed_roundtrip, swap_roundtrip (forward decoder loop undoes the backward encoder loop, positions may repeat or coincide, Go's tuple-assignment order modelled), shuffle_roundtrip (any permutation of the doubled array, any index-key positions), junk_slice and array_copy for the wrappers. `split` is evaluated by the model and executed for every sample but its roundtrip is not yet a theorem. Tie: for ~220 (obfuscator, seed, plaintext) cases per run the REAL obfuscator emits a decoder, tools/gvgen litparse reads the Go syntax into the IR, the Lean model evaluates it (must equal the plaintext) and the Go compiler compiles and runs the very same decoders (must print the plaintext); whole files go through the real literals.Obfuscate (every syntactic context incl. const/array-length/case-label/-X/nosplit, junk, proxy structs), are compiled and must print what the original prints.",
      "Trusted: Lean kernel, 3 axioms, extractor, hooks, litparse (syntax to IR), Go compiler as the semantics of the emitted subset. Assumed: math/rand contracts (Intn(n) < n, Perm is a permutation) for well-formedness of the draws.",
      "Lean 4 proof (encoder/decoder round trips for all inputs and draws) + emitted-decoder evaluation in the model + compile-and-run", "DESIGN.md 5/C05")

claim("C06",
      "Lean 4 theorems. Key completeness: C12's unseeded_preimage_injective (re-proved after two fix commits: GOGARBLE hashed last; -X targets hashed under -literals) shows every garble input - action ID, garble binary, -literals, -tiny, -seed, control flow, GOGARBLE, -X target set - reaches the -V=full tool ID / garble action ID pre-image injectively, for all values; garble_keys_distinct (the three derived GARBLE_CACHE keys have different pre-images for every action ID); pkgcache_key_covers_deps (the deep per-package key changes when any dependency's garble action ID changes - the fix for the stale reflection cache). History correctness: history_correct - for EVERY history of builds and cache faults over a content-addressed store whose readable entries are sound, every build returns the cold result and soundness is preserved (induction over the operation list); noop_rebuild_hits. Tie: the oracle streams of C12 (real appendFlags / addGarbleToHash incl. the new ldx op); end to end, a history of real garble builds over a private cache pair (default, -literals -seed, -ldflags=-X values, comment-only and body edits in a dependency; thorough adds -tiny, seeds, GOGARBLE subsets incl. flag-lookalikes, control flow, -tags) where EVERY step's binary is compared byte for byte with a build in caches that never saw the module; a final no-op rebuild must recompile nothing.",
      "Trusted: Lean kernel, 3 axioms, hooks, e2e runner. Assumed: SHA-256 collision resistance; cmd/go's action IDs cover source/tags/GOOS/GOARCH/Go version. Bit-for-bit comparison relies on C03.",
      "Lean 4 proof (key injectivity, store invariant over all histories) + oracle differential + real build histories vs. cold references", "DESIGN.md 5/C06")

claim("C07",
      "Lean 4 theorems: get_never_wrong - for every store whose readable entries are sound and EVERY sequence of faults (entry deleted, entry damaged = index or data file emptied/truncated, whole cache wiped), a lookup misses or returns exactly the value put; load_eq_cold - over any acyclic import graph (well-founded recursion mirroring loadPkgCache/computePkgCache), with any subset of entries present, every package loads to what a computation from empty caches gives, at every depth; load_after_faults combines both; C06's history_correct covers builds interleaved with faults. Tie / search: a reflect-using three-package module is built, then for each fault case (every entry the build added to GARBLE_CACHE - index and data files - deleted/emptied/truncated, the patched linker and its version stamp, sampled GOCACHE entries, all subsets of up to 4 entries, whole-cache wipes) the warm caches are restored, the fault applied, main and a dependency edited, and the rebuild compared byte for byte with a build from caches that never saw the module.",
      "Trusted: Lean kernel, 3 axioms, e2e runner. rogpeppe/go-internal/cache's GetFile is modelled as 'any error is a miss'; a same-size corrupted data file is outside the quantifier.",
      "Lean 4 proof (lookup never wrong, recursive load = cold, for all fault sequences) + fault enumeration on real caches vs. cold reference", "DESIGN.md 5/C07")

claim("C08",
      "PARTIAL: the SSA analysis deciding WHICH types reach reflection is not modelled in Lean (its order independence is sampled by rebuilds). Proved (Lean 4): names_restored - for every name table and every type string built from literal syntax and obfuscated names, the replacement specification returns the string with every name replaced by its original (C04's round-trip theorem over an arbitrary template, under the explicit unique-parse hypothesis); merge_any / merge_monotone / merge_keys_comm - merging per-package name maps never loses a recorded name and the recorded key set does not depend on merge order. Tie: the replacer garble injects into binaries vs. strings.NewReplacer vs. the specification on 1200 sorted name-table-like pair lists; end to end, generated programs reflect on nested/embedded/pointer/slice/map/array/generic/aliased structs declared in a dependency through direct calls, helper chains, variadics, the stored-then-passed shape, encoding/json Marshal/Unmarshal and %+v, and are rebuilt 5 times after comment-only edits (alternately only the dependency, then every file) - each build must print exactly what the regular build prints.",
      "Trusted: Lean kernel, 3 axioms, hooks, generator. Package qualifiers of Type.String()/%T are outside the compared observables. Known finding (open): a struct reaching reflection only through a fmt verb keeps obfuscated field names.",
      "Lean 4 proof (name replacement, cache merge) + replacer differential + rebuilt end-to-end reflection programs", "DESIGN.md 5/C08")

claim("C09",
      "PARTIAL (absence by coincidence is a probability statement). Proved in Lean 4: rewritten_iff_not_exempt - the rewrite decision equals the negation of the property's exemption list, with the 8-byte..2-KiB window taken from constants regenerated from literals.go on every run (theorem window); simple_cipher_differs - for every plaintext and key the stored ciphertext of the simple strategy agrees with the plaintext exactly at the positions whose key byte is zero (an aligned leak needs an all-zero key window), via op_fixed_iff_zero for the three byte operators. Tie: a generated program with a unique high-entropy marker in each of 27 syntactic positions (var initialisers, arguments, returns, composite elements, struct fields, map keys/values, closures, generic functions, init, case labels, concatenations, []byte/[N]byte/&[]byte/&[N]byte literals; lengths 7..2049) is built with the real garble -literals [-seed]; every marker the model says must be rewritten is searched in the binary, together with the seed (text and raw bytes).",
      "Trusted: Lean kernel, 3 axioms, extractor, marker generator. Not modelled: the compiler's constant handling (sampled by the scan).",
      "Lean 4 proof (rewrite decision, ciphertext differs from plaintext) + regenerated window constants + binary marker scan", "DESIGN.md 5/C09")

claim("C12",
      "Lean 4 theorems over the model of garble's salt derivation (appendFlags, addGarbleToHash, hashWithPackage, hashWithStruct's salt, runtimeHashWithCustomSalt): seeded names depend only on (seed, import path | struct hash, identifier) for ANY two configurations and action IDs; the seeded pre-image is injective in the path (| separator) and in the seed; unseeded, the addGarbleToHash pre-image is injective in (action ID, garble binary ID, -literals, -tiny, -seed, ctrlflow, GOGARBLE) for all values - proved via unique decodability of the flag tokens and injectivity of base64 (this theorem was false before the fix: commit that hashes GOGARBLE last). Tie: differential histories of the real functions vs. the model over few seeds/paths/names and many configurations, plus the real seed flag parser.",
      "Trusted: Lean kernel, 3 standard axioms, oracle hook + differ. Assumed: SHA-256 collision resistance on the compared pre-images; cmd/go's action ID covers source/tags/GOOS/GOARCH/Go version; import paths contain no '|'.",
      "Lean 4 proof (depends-only-on + pre-image injectivity) + oracle/model differential histories", "DESIGN.md 5/C12")

claim("C13",
      "map = build is BY CONSTRUCTION in the model (garble map and the compile step call one function, modelled by decideObj/decideIdent; theorems map_eq_build, map_lists_every_renamed); reverse uses a third piece of code, modelled as reversePairs, and Lean 4 theorems show for all packages and names that every renamed function, method, type, struct field and package-level variable, and the import path, has its (obfuscated, original) pair in the reverse table. The content of the property is in the tie, which runs the REAL commands: `garble map ./...` JSON vs. the identifiers of the real build's -debugdir garbled tree (zipped with the original source by a go/ast helper) vs. x/tools objectpath of every defined object (computed independently of commandMap) vs. `garble reverse` applied to every listed name.",
      "Trusted: Lean kernel, 3 axioms, oracle hook (objectpath dump), identzip helper, generator. The -debugdir garbled tree is taken to be what the compiler received.",
      "Lean 4 proof (reverse table completeness; map=build by construction) + four-way end-to-end comparison of the real commands", "DESIGN.md 5/C13")

claim("C14",
      "Lean 4 theorems over the model of the per-package scope decision (cache_shared.go) with the runtimeAndDeps table regenerated from go_std_tables.go: scope_exact (iff characterisation), runtime_never (for EVERY GOGARBLE, incl. *), fortest_follows (test variants decided on the tested package's path), out_of_scope_names / import_path / package_name (a package outside the scope keeps every object name, its import path and package name, for all objects and configurations - via the naming model), nothing_matches_is_error. Tie: library-level differential of the pattern matcher against golang.org/x/mod's MatchPrefixPatterns (structured + random globs; it caught the TrimSuffix step my first model lacked); the real go list route in build and test mode under ~30 pattern lists with every package's ToObfuscate compared to the model; end-to-end builds of GOGARBLE subsets (behaviour equal, garble map lists exactly the selected packages, selected packages renamed, others verbatim and without line directives, nothing-matches rejected).",
      "Trusted: Lean kernel, 3 axioms, extractor, oracle hooks. path.Match is modelled on the literal/*/? fragment. Known finding (open): struct conversion across the GOGARBLE boundary fails to build.",
      "Lean 4 proof (scope decision) + library/oracle differential + subset builds", "DESIGN.md 5/C14")

claim("C15",
      "Lean 4 theorems over a model of go/types (mutual inductive Ty with named/alias/generic/struct/func types), Go's identity relation, type-parameter substitution and garble's modified struct hasher: for ALL struct types, identical (tags ignored, aliases transparent) => same struct salt; instantiation with any type arguments keeps the salt; tags never matter; hence corresponding fields of identical structs get the same obfuscated name under any configuration, whichever package computes it. Tie: per run ~360 generated struct pairs over 4 packages (each struct re-declared elsewhere with <=1 perturbation, generic/alias/anonymous/embedded forms); shapes are serialised from go/types itself; the model's identity relation is checked against types.IdenticalIgnoreTags/Identical, its hash against the real typeutil_hash, field names against the real hashWithStruct, and computeFieldToStruct must resolve every field object.",
      "Trusted: Lean kernel, 3 standard axioms, oracle hook (type serialiser) + differ; go/types as the reference for Go's type identity. Interfaces are modelled by method count (generated ones are empty). Conversions are compiled end-to-end only by the e2e tiers.",
      "Lean 4 proof (all struct types) + go/types-validated model + oracle/model differential", "DESIGN.md 5/C15")

claim("C20",
      "Lean 4 theorems, for argument vectors of any length: tables_agree (kernel-evaluated on tables regenerated from main.go and from `go help build/testflag` + cmd/go source on every run), split_eq_goSplit (garble's split = the Go flag package's parse over go's own table whenever go accepts the vector; forms -f, --f, -f=v, -f v; arbitrary values), split_partition and nested_preserves_user_args (user flags and packages reach go unchanged, in order), forward_exact / forward_complete (every `go help build` flag with its value reaches the internal go list, with a stated exception list), reject_iff (reverse/map reject exactly when a non-build flag is present), garble_flag_rejected / rx_only_own (garble's own flags after the command are rejected, and nothing else is). Tie: regenerated tables + 2e4 differential vectors through the real splitFlagsFromArgs, filterForwardBuildFlags, rejectUnknownBuildFlags, flagValue(s), flagSetValue, splitFlagsFromFiles, alterTrimpath, rxGarbleFlag.",
      "Trusted: Lean kernel, 3 standard axioms, extractor, oracle hook. `--` and bare `-` in flag position are outside the domain (stated in the model). The argv of the nested go command is modelled (nestedGoArgs), not executed.",
      "Lean 4 proof (all vectors) + regenerated flag tables + oracle/model differential", "DESIGN.md 5/C20")

claim("C17",
      "PARTIAL: flock, rename and process scheduling are the OS's and are parameters of the model. Proved (Lean 4) over a small-step model of N processes sharing one linker cache slot (steps regenerated from internal/linker/linker.go and main.go on every run: lock, check stamp, remove, build to the final path, write stamp, unlock; the toolexec link step; crash at any step): for EVERY interleaving and any N, the invariant {at most one process between lock and unlock; the stamp is present only if the binary is complete; whoever is past unlock saw or made a stamped complete linker} is preserved by every step (inv_step), so running_has_complete_linker: no process ever executes a linker that is not complete and stamped, and mutual_exclusion. Tie: the step order is extracted from the source (a reordering - stamp before build, unlock before stamp, missing lock - changes Gen/Steps.lean and breaks the proofs); end to end, groups of 2..4 real garble builds (same project, different flags, different projects; -p 1/4) are started simultaneously over cold-linker, linker-less and warm shared GOCACHE/GARBLE_CACHE/TMPDIR and each binary is compared byte for byte with the one built alone.",
      "Trusted: Lean kernel, 3 axioms, the step extractor, flock(2)/rename(2) semantics as assumed in Model/Protocol.lean; GOCACHE's own concurrency safety is cmd/go's contract. Schedules are sampled by the e2e runs, not enumerated.",
      "Lean 4 proof (invariant over all interleavings of the extracted lock protocol) + regenerated step order + concurrent real builds vs. isolated references", "DESIGN.md 5/C17")

claim("C18",
      "PARTIAL: what a kill leaves on disk is the file system's behaviour. Proved (Lean 4) over the same protocol model with a crash transition at every step: stamp_written_last (in the extracted step order the stamp is the last thing written, after the build completed; a stamp from an earlier build stops validating once the binary is rewritten because since fix 94314bb it records the binary's size - modelled as `stamp := none` at startBuild, exact up to a kill at the instant the partial file has the old size), and rerun_after_crash: from EVERY state reachable with crashes, a fresh process that runs the protocol to completion ends with a complete, stamped linker - a partial binary is never trusted because the stamp (which since fix 94314bb also records the binary size) is missing or stale. Cache entries: C07's load_after_faults covers every subset of deleted/truncated/empty entries. Tie: extracted step order; end to end, a cold build of a generated program is killed (SIGKILL to the whole process group) at evenly spaced instants across its duration (7 quick / 40 thorough, incl. during the linker build), then the same build is re-run on the same caches and must succeed and be byte-identical to an uninterrupted reference.",
      "Trusted: Lean kernel, 3 axioms, step extractor; assumption: a killed writer leaves a prefix of the file (no torn same-size garbage) - recorded in Model/Protocol.lean. Kill instants are sampled.",
      "Lean 4 proof (crash at every protocol step, all reachable states) + SIGKILL sweep of real builds and byte comparison of the re-run", "DESIGN.md 5/C18")

claim("C19",
      "PARTIAL: 'writes nowhere else' is observed, not proved, for the file system at large. Proved (Lean 4) over a model of the -debugdir decision (Model/DebugDir.lean: absent / empty / has marker / anything else incl. regular file and symlink target contents) and of the command skeletons extracted from main.go: foreign_never_wiped and unknown_contents_refused (for EVERY directory content without the marker the command fails before RemoveAll and the content is returned unchanged), owned_is_recreated (marker present or empty/absent: result = marker + complete trees, nothing of the old content), cleanup_registered_first / run_after_cleanup_registered (in build, test, run, reverse, map the deferred RemoveAll of the shared temp dir is registered before the first step that can fail or spawn go). Tie: extracted step lists; end to end, the enumeration command {build, run, test, reverse, map} x outcome {success, go list error, type error, compile error in a dependency, link error, bad flags} x -debugdir target {none, absent, empty, owned with stale files, foreign files, foreign subdirs, symlink to a foreign dir, regular file}: recursive hash of the source tree before/after, TMPDIR must be empty, foreign targets byte-identical and the command refused, owned targets complete (source/ and garbled/ for every package) on a cold and again on a warm run.",
      "Trusted: Lean kernel, 3 axioms, step extractor, the e2e observer (hashes the source tree, TMPDIR and the debug dir only).",
      "Lean 4 proof (debugdir ownership decision, cleanup ordering) + regenerated command skeletons + e2e enumeration with tree hashes", "DESIGN.md 5/C19")

ALL = ["C%02d" % i for i in range(1, 21)]


def build():
    hooks = subprocess.run(["git", "-C", "/repo", "log", "--format=%H %s"], capture_output=True, text=True).stdout.splitlines()
    hook_commits = [l.split()[0] for l in hooks if " verif:" in l or l.split(" ", 1)[1].startswith("verif")]
    checks = []
    for pid in ALL:
        if pid not in CHECKS:
            continue
        c = CHECKS[pid]
        checks.append({
            "property_id": pid,
            "quick_cmd": "./check %s --tier quick" % pid,
            "thorough_cmd": "./check %s --tier thorough" % pid,
            "evidence_file": "/verif/evidence/%s.json" % pid,
            "replay_cmd_template": "./check %s --replay {path}" % pid,
            "engine": "gv-lean",
            "level_claimed": {"category": "proof", "text": c["text"], "design_ref": c["design_ref"]},
            "level_note": c["note"],
            "technique": c["technique"],
        })
    m = {
        "version": 1,
        "setup_cmd": "./setup.sh",
        "hooks": {
            "guard": "verif",
            "enable": "go build -tags verif (files verif_oracle*.go, internal/*/verif_export.go); checks build /repo's working tree into /verif/.build",
            "baseline_off_cmd": "cd /repo && go test -mod=mod -json -vet=off -count=1 -timeout 25m ./...",
            "source_commits": hook_commits,
            "add_only": True,
        },
        "engines": [{"name": "gv-lean", "path": "/verif/lean", "serves_properties": sorted(CHECKS),
                     "kind_free_text": "Lean 4 model + theorems (lake project GV), translator tools/extract, oracle correspondence (verif-tagged hooks in /repo vs. native gvdriver), end-to-end runner"}],
        "checks": checks,
        "notes": "See DESIGN.md. Every check: rebuild oracle/garble from /repo's working tree, regenerate lean/GV/Gen, lake build the property's theorem module, axiom audit, correspondence streams, search for a failing input when anything breaks.",
        "not_applicable": [{"property_id": p, "reason": NOT_YET.get(p, "check not built yet in this round (planned: DESIGN.md section 5); not claimed until its theorems and tie exist")}
                           for p in ALL if p not in CHECKS],
    }
    with open(os.path.join(VERIF, "MANIFEST.json"), "w") as f:
        json.dump(m, f, indent=1)


if __name__ == "__main__":
    build()
