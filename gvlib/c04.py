"""C04 — garble reverse restores obfuscated traces exactly."""
import os, random, re
from . import core, e2e, c01model
from .c01model import hx, unhex

PID = "C04"
GENS = ["Consts", "StdTables"]
MODULES = ["GV.Props.C04"]


def gen_replacer_cases(rnd, n):
    """pair lists with shared prefixes / overlaps / `x.go:1` before `x.go`; inputs with CR/LF, no final newline, adversarial
    neighbours.  Keys are non-empty and pairwise distinct, as garble's hashed names are."""
    cases = []
    alpha = "abAB_1"
    for _ in range(n):
        npairs = rnd.randrange(0, 7)
        keys = []
        while len(keys) < npairs:
            k = "".join(rnd.choice(alpha) for _ in range(rnd.randrange(1, 6)))
            if rnd.random() < 0.3 and keys:
                k = rnd.choice(keys) + rnd.choice([":1", "x", ".go", "a"])
            if k not in keys:
                keys.append(k)
        if rnd.random() < 0.5:
            # the shape reverse.go builds: specific "name.go:1" listed before "name.go"
            base = "".join(rnd.choice(alpha) for _ in range(4)) + ".go"
            if base not in keys and base + ":1" not in keys:
                keys = [base + ":1", base] + keys
        pairs = [(k, "".join(rnd.choice("xyzXY/.:0") for _ in range(rnd.randrange(0, 8)))) for k in keys]
        pieces = []
        for _ in range(rnd.randrange(0, 12)):
            r = rnd.random()
            if r < 0.45 and keys:
                pieces.append(rnd.choice(keys))
            elif r < 0.55 and keys:
                pieces.append(rnd.choice(keys) + ":" + str(rnd.randrange(0, 30)))
            elif r < 0.7:
                pieces.append(rnd.choice(["\n", "\r\n", "\n\n", " ", "\t", "("]))
            else:
                pieces.append("".join(rnd.choice(alpha + " \n") for _ in range(rnd.randrange(1, 6))))
        text = "".join(pieces)
        if rnd.random() < 0.3:
            text += "\n"
        cases.append((pairs, text))
    return cases


def oracle_part(chk, tier, E, orc, diffs, fails):
    rnd = random.Random(chk.seed * 19 + 2)
    cases = gen_replacer_cases(rnd, 1500 if tier == "quick" else 60000)
    S = c01model.OracleSession(orc, E.env())
    mops, expect = [], []
    try:
        for pairs, text in cases:
            flat = " ".join("%s %s" % (hx(k), hx(v)) for k, v in pairs)
            a = S.ask(("revcontent %d %s %s" % (len(pairs), flat, hx(text))).replace("  ", " "))
            mops.append(("revcontentm %d %s %s" % (len(pairs), flat, hx(text))).replace("  ", " ")); expect.append(a)
            b = S.ask(("repl %d %s %s" % (len(pairs), flat, hx(text))).replace("  ", " "))
            inj, std = b.split(" ")
            mops.append(("replm %d %s %s" % (len(pairs), flat, hx(text))).replace("  ", " ")); expect.append(inj)
            if inj != std:
                fails.append({"why": "the replacer injected into binaries disagrees with strings.NewReplacer", "detail": {"pairs": pairs, "input": text, "injected": unhex(inj).decode("utf-8", "replace"), "strings": unhex(std).decode("utf-8", "replace")}, "key": "injected-replacer-differs"})
            # property level on the implementation: text without any key passes through unchanged with modified=0
            out, mod = a.split(" ")
            if not any(k in text for k, _ in pairs):
                if out != hx(text) or mod != "0":
                    fails.append({"why": "text containing nothing obfuscated is not passed through byte for byte", "detail": {"pairs": pairs, "input": text, "output": unhex(out).decode("utf-8", "replace"), "modified": mod}, "key": "passthrough"})
            if (mod == "1") != (out != hx(text)) and not any(k == v for k, v in pairs):
                # a replacement of a key by an identical value is "modified" without a visible change; excluded above
                pass
    finally:
        S.close()
    ans = c01model.model_answers(mops)
    for o, e, m in zip(mops, expect, ans):
        if e != m:
            diffs.append({"op": o[:300], "impl": e[:200], "model": m[:200]})
    chk.count_cases(mops)
    chk.cov["streams"]["oracle:replacer"] = {"cases": len(cases), "disagreements": len(diffs)}
    chk.add_sample({"pairs": cases[3][0], "input": cases[3][1]})


TRACE_MAIN = '''package main

import (
	"fmt"
	"os"
	"%(lib)s"
)

type %(T)s struct{ n int }

//go:noinline
func (t *%(T)s) %(meth)s(k int) int { return %(outer)s(t.n + k) }

//go:noinline
func %(outer)s(k int) int {
	f := func(j int) int { return %(inner)s[int](j + 1) }
	return f(k)
}

//go:noinline
func %(inner)s[V any](k int) int {
	defer func() { fmt.Fprintln(os.Stderr, "deferred ran") }()
	return lib.%(libfn)s(k, %(mode)d)
}

type %(I)s interface{ %(im)s() }

type %(S)s string

//go:noinline
func %(conv)s(v any) %(I)s { return v.(%(I)s) }

//go:noinline
func %(conv2)s(v any) %(S)s { return v.(%(S)s) }

//go:noinline
func %(mkLocal)s() any {
	type %(L)s struct{ n int }
	return %(L)s{1}
}

func main() {
	t := &%(T)s{len(os.Args)}
	if %(mode)d == 5 {
		%(conv)s(%(mkLocal)s())
	}
	if %(mode)d == 3 {
		%(conv)s(*t)
	}
	if %(mode)d == 4 {
		%(conv2)s(*t)
	}
	if %(mode)d == 2 {
		done := make(chan int)
		go func() { done <- t.%(meth)s(3) }()
		<-done
		return
	}
	fmt.Println(t.%(meth)s(3))
}
'''

TRACE_LIB = '''package lib

import (
	"os"
	"runtime/debug"
)

type %(G)s[T any] struct{ v T }

//go:noinline
func (g %(G)s[T]) %(gm)s(k int) int {
	return %(deep)s(k)
}

//go:noinline
func %(libfn)s(k, mode int) int {
	g := %(G)s[string]{"x"}
	if mode == 1 {
		os.Stderr.Write(debug.Stack())
		return k
	}
	return g.%(gm)s(k)
}
'''

TRACE_LIB2 = '''package lib

//go:noinline
func %(deep)s(k int) int {
	var m map[string]int
	if k > 0 {
		panic("boom from the second file")
	}
	m["x"] = k
	return k
}
'''


def canon_trace(t):
    t = re.sub(r"\+0x[0-9a-f]+", "+0x?", t)
    t = re.sub(r"0x[0-9a-f]+", "0x?", t)
    t = re.sub(r"goroutine \d+", "goroutine N", t)
    t = re.sub(r"created by (\S+) in goroutine \d+", r"created by \1 in goroutine N", t)
    t = re.sub(r"\(\.\.\.\)|\([0x?, {}.]*\)", "(…)", t)
    return t


def e2e_part(chk, tier, E, fails):
    rnd = random.Random(chk.seed * 23 + 4)
    plan = [([], 0), ([], 1), ([], 3), ([], 4), ([], 5)] if tier == "quick" else [(fl, m) for fl in ([], ["-seed=o9WDTZ4CN4w"], ["-literals"]) for m in (0, 1, 2, 3, 4, 5)] * 2
    for i, (gflags, mode) in enumerate(plan):
        stem = "".join(rnd.choice("qxzjkv") for _ in range(5))
        names = {k: "%s%s%s" % (k[0].upper() if k in ("T", "G", "libfn", "deep", "I", "S", "L") else k[0].lower(), stem, k) for k in ("T", "meth", "outer", "inner", "libfn", "G", "gm", "deep", "I", "im", "S", "conv", "conv2", "L", "mkLocal")}
        mod = "gv%s.example/tr-%d" % (stem, i)
        files = {"go.mod": "module %s\n\ngo 1.26\n" % mod,
                 "main_%s.go" % stem: TRACE_MAIN % dict(names, lib=mod + "/lib", mode=mode),
                 "lib/first_%s.go" % stem: TRACE_LIB % names, "lib/second_%s.go" % stem: TRACE_LIB2 % names}
        root = E.write_module("t%d" % i, files)
        pb = E.run_go(["build", "-trimpath", "-o", "plain", "."], root)
        gb = E.run_garble(gflags, ["build", "-o", "garbled", "."], root)
        chk.count_cases(["trace|%s|%d|%s" % (" ".join(gflags), mode, stem)])
        if pb.returncode != 0 or gb.returncode != 0:
            chk.notes.append("trace program build failed: %s %s" % (pb.stderr[-200:], gb.stderr[-200:])); continue
        _, _, perr = E.run_bin(os.path.join(root, "plain"))
        grc, _, gerr = E.run_bin(os.path.join(root, "garbled"))
        tf = os.path.join(root, "trace.txt")
        open(tf, "wb").write(gerr)
        rv = E.run_garble(gflags, ["reverse", ".", tf], root)
        want, got = canon_trace(perr.decode("utf-8", "replace")), canon_trace(rv.stdout)
        st = chk.cov["streams"].setdefault("e2e:traces", {"programs": 0, "frames_compared": 0})
        st["programs"] += 1; st["frames_compared"] += want.count("\n\t")
        if stem in gerr.decode("utf-8", "replace"):
            chk.notes.append("the obfuscated trace already shows original names (C02's concern)")
        if rv.returncode != 0 and "+0x" in gerr.decode("utf-8", "replace"):
            fails.append({"why": "garble reverse reports nothing replaced on an obfuscated trace", "detail": {"flags": gflags, "stderr": rv.stderr[-300:]}, "key": "reverse-exit-status"})
        if want != got and mode in (3, 4, 5):
            # the fault is not at a call site: garble only keeps the positions of call expressions, so the line of the
            # TOP frame cannot be restored (recorded finding); everything else in the trace still has to match
            wl, gl = want.splitlines(), got.splitlines()
            top = next((j for j, l in enumerate(wl) if l.startswith("\t")), None)
            if top is not None and top < len(gl) and re.sub(r":\d+ ", ":N ", wl[top]) == re.sub(r":\d+ ", ":N ", gl[top]) and wl[top] != gl[top]:
                fails.append({"why": "the line of a frame that faults at a non-call expression (failed type assertion) is not restored by garble reverse",
                              "detail": {"flags": gflags, "want": wl[top].strip(), "got": gl[top].strip()}, "key": "line-of-non-call-fault"})
                gl[top] = wl[top]
                got = "\n".join(gl) + ("\n" if got.endswith("\n") else "")
        if want != got and mode == 2:
            # "created by f in goroutine N" is followed by the position of the `go` keyword, which stands before the call
            # expression that carries garble's line directive: not restorable either (recorded finding)
            wl, gl = want.splitlines(), got.splitlines()
            cb = next((j + 1 for j, l in enumerate(wl) if l.startswith("created by ")), None)
            if cb is not None and cb < len(wl) and cb < len(gl) and wl[cb] != gl[cb] and re.sub(r":\d+ ", ":N ", wl[cb]) == re.sub(r":\d+ ", ":N ", gl[cb]):
                fails.append({"why": "the line of the `go` statement in a `created by` frame is not restored by garble reverse",
                              "detail": {"flags": gflags, "want": wl[cb].strip(), "got": gl[cb].strip()}, "key": "line-of-go-statement"})
                gl[cb] = wl[cb]
                got = "\n".join(gl) + ("\n" if got.endswith("\n") else "")
        if want != got:
            wl, gl = want.splitlines(), got.splitlines()
            first = next((j for j, (a, b) in enumerate(zip(wl, gl)) if a != b), min(len(wl), len(gl)))
            fails.append({"why": "garble reverse does not restore the trace the regular -trimpath build prints",
                          "detail": {"flags": gflags, "mode": ["panic", "debug.Stack", "goroutine panic", "failed assertion to an interface (missing method)", "failed assertion to a concrete type", "failed assertion on a value of a function-local type"][mode], "first_difference_line": first,
                                     "want": wl[max(0, first - 1): first + 3], "got": gl[max(0, first - 1): first + 3], "obfuscated": gerr.decode("utf-8", "replace").splitlines()[max(0, first - 1): first + 3]},
                          "files": files, "key": "trace-not-restored"})
        # text with nothing obfuscated: exit status 1 and identity
        clean = os.path.join(root, "clean.txt")
        payload = b"nothing obfuscated here\r\nsecond line without newline"
        open(clean, "wb").write(payload)
        import subprocess
        rc = subprocess.run([E.garble] + gflags + ["reverse", ".", clean], cwd=root, env=E.env(), capture_output=True)   # bytes: no newline translation
        if rc.stdout != payload or rc.returncode != 1:
            fails.append({"why": "clean text is not passed through with exit status 1", "detail": {"rc": rc.returncode, "out": repr(rc.stdout[:100])}, "key": "clean-passthrough"})
    if plan:
        chk.add_sample({"flags": plan[0][0], "mode": plan[0][1], "trace_head": want.splitlines()[:6] if 'want' in dir() else []})


def main(tier, replay=None):
    chk = core.Check(PID, tier)
    core.build_tools()
    chk.proofs(GENS, MODULES)
    orc, err = core.build_oracle()
    E = e2e.E2E("c04")
    diffs, fails = [], []
    try:
        oracle_part(chk, tier, E, orc, diffs, fails)
        e2e_part(chk, tier, E, fails)
    finally:
        E.cleanup()
    if diffs:
        chk.cov["broken"].append({"kind": "correspondence", "what": "%d disagreements, first: %s" % (len(diffs), diffs[0])})
        chk.log("correspondence broken:", str(diffs[0])[:400])
    seen = set()
    for f in fails:
        if f["key"] not in seen:
            seen.add(f["key"])
            chk.violation(f["why"] + ": " + str(f["detail"])[:400], {"kind": "reverse", **f}, True, key=f["key"])
    chk.cov["rule"] = ("oracle: random pair lists (shared prefixes, overlaps, `x.go:1` before `x.go`) and inputs (CR/LF, no final newline, keys next to digits/colons) through the real reverseContent + strings.NewReplacer "
                       "and through the replacer injected into binaries, vs. the specification; e2e: panicking / debug.Stack programs (methods, generic functions and methods, closures, defers, goroutines, "
                       "two packages, two files) built with garble, `garble reverse` of the obfuscated trace vs. the regular -trimpath build's trace (addresses masked)")
    chk.assumptions += ["the pairing of identifiers to call offsets by go/printer + go/scanner (position.go) is sampled end to end, not modelled", "compiled file names are base names (cgo-generated files excluded)"]
    return chk.finish()
