"""C11 — control-flow obfuscation preserves function behaviour."""
import os, random, re
from . import core, e2e, c01model
from .c01model import hx

PID = "C11"
GENS = ["Consts"]
MODULES = ["GV.Props.C11"]

# (name, signature+body, list of call expressions).  Every function is deterministic; results are printed by main.
FUNCS = [
    ("loopBreakContinue", '''func loopBreakContinue(n int) int {
	s := 0
	for i := 0; i < n; i++ {
		if i%2 == 0 {
			continue
		}
		if i > 11 {
			break
		}
		s += i
	}
	return s
}''', ["loopBreakContinue(0)", "loopBreakContinue(7)", "loopBreakContinue(40)"]),
    ("nestedLabels", '''func nestedLabels(n int) int {
	c := 0
outer:
	for i := 0; i < n; i++ {
		for j := 0; j < n; j++ {
			if j > i {
				continue outer
			}
			if i*j > 20 {
				break outer
			}
			c += i + j
		}
	}
	return c
}''', ["nestedLabels(3)", "nestedLabels(9)"]),
    ("switchFallthrough", '''func switchFallthrough(x int) string {
	s := ""
	switch {
	case x < 0:
		s += "neg"
		fallthrough
	case x == 0:
		s += "zero"
	case x < 10:
		s += "small"
	default:
		s += "big"
	}
	switch x % 3 {
	case 0, 1:
		s += "-a"
	case 2:
		s += "-b"
	}
	return s
}''', ["switchFallthrough(-4)", "switchFallthrough(0)", "switchFallthrough(5)", "switchFallthrough(77)"]),
    ("rangeSlice", '''func rangeSlice(xs []int) (int, int) {
	si, sv := 0, 0
	for i, v := range xs {
		si += i
		sv += v * (i + 1)
	}
	for i := range xs {
		si += i * 2
	}
	return si, sv
}''', ["rangeSlice(nil)", "rangeSlice([]int{4, 5, 6, 7})"]),
    ("rangeArrayAndInt", '''func rangeArrayAndInt(k int) int {
	arr := [5]int{1, 2, 3, 4, 5}
	s := 0
	for i, v := range arr {
		s += i * v
	}
	for i := range k {
		s += i
	}
	return s
}''', ["rangeArrayAndInt(0)", "rangeArrayAndInt(6)"]),
    ("rangeMap", '''func rangeMap(m map[string]int) (int, int) {
	n, s := 0, 0
	for k, v := range m {
		n += len(k)
		s += v
	}
	return n, s
}''', ["rangeMap(nil)", 'rangeMap(map[string]int{"a": 1, "bcd": 5, "ef": 9})']),
    ("rangeChan", '''func rangeChan(n int) int {
	c := make(chan int, n)
	for i := 0; i < n; i++ {
		c <- i * i
	}
	close(c)
	s := 0
	for v := range c {
		s += v
	}
	return s
}''', ["rangeChan(0)", "rangeChan(6)"]),
    ("rangeString", '''func rangeString(s string) ([]int, int) {
	var idx []int
	sum := 0
	for i, r := range s {
		idx = append(idx, i)
		sum += int(r)
	}
	return idx, sum
}''', ['rangeString("")', 'rangeString("plain")', 'rangeString("a\\u00e9\\u4e16b")']),
    ("selectDefault", '''func selectDefault(n int) string {
	c := make(chan int, 1)
	out := ""
	for i := 0; i < n; i++ {
		select {
		case c <- i:
			out += "s"
		case v := <-c:
			out += fmt.Sprint("r", v)
		default:
			out += "d"
		}
	}
	return out
}''', ["selectDefault(0)", "selectDefault(5)"]),
    ("deferOrder", '''func deferOrder(n int) (out string) {
	for i := 0; i < n; i++ {
		defer func(k int) { out += fmt.Sprint(k) }(i)
	}
	out = "start"
	return out + "-ret"
}''', ["deferOrder(0)", "deferOrder(4)"]),
    ("namedRecover", '''func namedRecover(a, b int) (res int, err error) {
	defer func() {
		if r := recover(); r != nil {
			res, err = -1, fmt.Errorf("recovered: %v", r)
		}
	}()
	return a / b, nil
}''', ["namedRecover(6, 3)", "namedRecover(1, 0)"]),
    ("recoverUnnamed", '''func recoverUnnamed(xs []int, i int) string {
	msg := "none"
	func() {
		defer func() {
			if r := recover(); r != nil {
				msg = fmt.Sprint(r)
			}
		}()
		xs[i] = 1
	}()
	return msg
}''', ["recoverUnnamed([]int{1, 2}, 1)", "recoverUnnamed([]int{1, 2}, 5)"]),
    ("closures", '''func closures(n int) int {
	acc := 0
	add := func(k int) { acc += k }
	var fs []func() int
	for i := 0; i < n; i++ {
		add(i)
		fs = append(fs, func() int { return i * acc })
	}
	s := 0
	for _, f := range fs {
		s += f()
	}
	return s
}''', ["closures(0)", "closures(5)"]),
    ("multiReturn", '''func multiReturn(a, b int) (q, r int, ok bool) {
	if b == 0 {
		return 0, 0, false
	}
	q, r = a/b, a%b
	ok = true
	return
}''', ["multiReturn(17, 5)", "multiReturn(1, 0)"]),
    ("swapLoop", '''func swapLoop(n int) (int, int, int) {
	a, b, c := 1, 2, 3
	for i := 0; i < n; i++ {
		a, b = b, a
		if i%2 == 1 {
			b, c = c, b
		}
	}
	return a, b, c
}''', ["swapLoop(0)", "swapLoop(1)", "swapLoop(3)", "swapLoop(6)"]),
    ("fibRotate", '''func fibRotate(n int) (int, int) {
	prev, cur := 0, 1
	for i := 0; i < n; i++ {
		prev, cur = cur, prev+cur
	}
	return prev, cur
}''', ["fibRotate(0)", "fibRotate(10)"]),
    ("shortCircuit", '''func shortCircuit(a, b int, p *int) bool {
	x := a > 0 && (b > 0 || a > 5)
	y := p != nil && *p > 3
	z := p == nil || *p < 100
	return x != y || z
}''', ["shortCircuit(1, 0, nil)", "shortCircuit(7, 0, ptr(5))", "shortCircuit(-1, 2, ptr(500))"]),
    ("gotoLoop", '''func gotoLoop(n int) int {
	i, s := 0, 0
loop:
	if i < n {
		s += i * i
		i++
		goto loop
	}
	return s
}''', ["gotoLoop(0)", "gotoLoop(6)"]),
    ("typeSwitch", '''func typeSwitch(v any) string {
	switch x := v.(type) {
	case nil:
		return "nil"
	case int:
		return fmt.Sprint("int", x+1)
	case string:
		return "string" + x
	case []int:
		return fmt.Sprint("slice", len(x))
	case error:
		return "error" + x.Error()
	}
	if s, ok := v.(fmt.Stringer); ok {
		return s.String()
	}
	return "other"
}''', ["typeSwitch(nil)", "typeSwitch(4)", 'typeSwitch("s")', "typeSwitch([]int{1})", 'typeSwitch(fmt.Errorf("e"))', "typeSwitch(3.5)"]),
    ("arith", '''func arith(a int8, b uint16, f float64) (int8, uint16, float64, int) {
	a = a*3 + 100
	b = b<<3 | b>>13
	f = f*f - 1/f
	return a, b, f, int(a) ^ int(b)&^5
}''', ["arith(50, 40000, 1.5)", "arith(-7, 3, -0.25)"]),
    ("stringsBytes", '''func stringsBytes(s string) string {
	b := []byte(s)
	for i := range b {
		if b[i] >= 'a' && b[i] <= 'z' {
			b[i] -= 32
		}
	}
	out := string(b) + s[len(s)/2:]
	if len(out) > 3 {
		out = out[1:len(out)-1] + string(rune(out[0]))
	}
	return out
}''', ['stringsBytes("")', 'stringsBytes("hello, World")']),
    ("variadicAppend", '''func variadicAppend(base []int, more ...int) []int {
	out := append([]int{}, base...)
	out = append(out, more...)
	copy(out, out[1:])
	m := map[int]bool{}
	for _, v := range out {
		m[v] = true
	}
	delete(m, 2)
	return append(out, len(m), min(len(out), 3), max(1, len(base)))
}''', ["variadicAppend(nil)", "variadicAppend([]int{1, 2}, 3, 4, 2)"]),
    ("structMethods", '''func structMethods(n int) string {
	c := &counter{name: "c"}
	for i := 0; i < n; i++ {
		c.add(i)
		if i%2 == 0 {
			c.rename(fmt.Sprint("c", i))
		}
	}
	v := *c
	v.add(100)
	return fmt.Sprint(c.total, c.name, v.total)
}''', ["structMethods(0)", "structMethods(5)"]),
    ("goroutines", '''func goroutines(n int) int {
	var wg sync.WaitGroup
	res := make([]int, n)
	for i := 0; i < n; i++ {
		wg.Add(1)
		go func(k int) {
			defer wg.Done()
			res[k] = k * k
		}(i)
	}
	wg.Wait()
	s := 0
	for _, v := range res {
		s += v
	}
	return s
}''', ["goroutines(0)", "goroutines(8)"]),
    ("panicCustom", '''func panicCustom(k int) (out string) {
	defer func() {
		r := recover()
		out = fmt.Sprintf("%v|%v", out, r)
	}()
	if k > 2 {
		panic(fmt.Sprint("too big ", k))
	}
	var m map[string]int
	if k == 2 {
		m["x"] = 1
	}
	return "fine"
}''', ["panicCustom(0)", "panicCustom(2)", "panicCustom(5)"]),
    ("complexAndFloat", '''func complexAndFloat(re, im float64) (float64, complex128) {
	c := complex(re, im)
	c = c*c + complex(1, -1)
	f := real(c) / (imag(c) + 0.5)
	return f, c
}''', ["complexAndFloat(1, 2)", "complexAndFloat(0.5, -0.25)"]),
    ("pointers", '''func pointers(n int) int {
	x, y := 1, 2
	p, q := &x, &y
	for i := 0; i < n; i++ {
		*p += *q
		p, q = q, p
	}
	return x*1000 + y
}''', ["pointers(0)", "pointers(5)"]),
    ("discardedOps", '''func discardedOps(a, b int, x, y any) string {
	out := ""
	try := func(f func()) {
		defer func() {
			if r := recover(); r != nil {
				out += fmt.Sprint("[", r, "]")
			} else {
				out += "[ok]"
			}
		}()
		f()
	}
	try(func() { _ = a / b })
	try(func() { _ = a % b })
	try(func() { _ = 1 << b })
	try(func() { _ = x == y })
	try(func() {
		var p *counter
		_ = p.total + 1
	})
	return out
}''', ["discardedOps(7, 0, 1, 2)", "discardedOps(7, -1, []int{1}, []int{1})", "discardedOps(7, 2, nil, nil)"]),
    ("floatConstants", '''func floatConstants(x float64) (float64, float32, complex128) {
	y := x * 3.14159265358979
	var z float32 = 1.23456789
	const big = 1e100
	c := complex(x, 0.123456789012345) * (2.718281828459045 + 1.5i)
	return y + 2.718281828459045 + big/1e99, z * float32(x), c
}''', ["floatConstants(1.5)", "floatConstants(-0.001)"]),
    ("selectRecvOk", '''func selectRecvOk(n int) string {
	c := make(chan int, 1)
	out := ""
	for i := 0; i < n; i++ {
		if i == 1 {
			close(c)
		}
		if i == 0 {
			c <- 7
		}
		select {
		case v, ok := <-c:
			out += fmt.Sprint(v, ok, ";")
		default:
			out += "d;"
		}
	}
	return out
}''', ["selectRecvOk(0)", "selectRecvOk(3)"]),
    ("whileWithState", '''func whileWithState(n uint) (steps int, peak uint) {
	for n != 1 && steps < 200 {
		if n%2 == 0 {
			n /= 2
		} else {
			n = 3*n + 1
		}
		if n > peak {
			peak = n
		}
		steps++
	}
	return
}''', ["whileWithState(1)", "whileWithState(27)"]),
]

PRELUDE = '''package main

import (
	"fmt"
	"sync"
)

type counter struct {
	total int
	name  string
}

func (c *counter) add(k int)       { c.total += k }
func (c *counter) rename(s string) { c.name = s }

func ptr(v int) *int { return &v }

var _ sync.Mutex

func show(name string, f func() string) {
	defer func() {
		if r := recover(); r != nil {
			fmt.Printf("%s PANIC %v\\n", name, r)
		}
	}()
	fmt.Printf("%s = %s\\n", name, f())
}
'''


def directive(rnd, tier):
    splits = rnd.choice(["0", "2", "5", "max"])
    junk = rnd.choice(["0", "3", "16", "max" if tier == "thorough" else "8"])
    passes = rnd.choice(["0", "1", "1", "2"] + (["3"] if tier == "thorough" else []))
    hard = rnd.choice(["", "xor", "delegate_table", "xor,delegate_table"])
    trash = rnd.choice(["0", "0", "2", "8"])
    d = "//garble:controlflow block_splits=%s junk_jumps=%s flatten_passes=%s" % (splits, junk, passes)
    if hard and passes != "0":
        d += " flatten_hardening=" + hard
    if trash != "0":
        d += " trash_blocks=" + trash
    return d


def render(rnd, tier, funcs):
    body = [PRELUDE]
    dirs = {}
    for name, src, calls in funcs:
        dirs[name] = directive(rnd, tier)
        body.append(dirs[name] + "\n" + src + "\n")
    main = ["func main() {"]
    for name, src, calls in funcs:
        for c in calls:
            main.append('\tshow(%s, func() string { return fmt.Sprint(%s) })' % (repr(c).replace("'", '"') if '"' not in c else '`' + c + '`', c))
    main.append("}")
    return "\n".join(body) + "\n" + "\n".join(main) + "\n", dirs


def oracle_part(chk, tier, E, orc, diffs, fails):
    S = c01model.OracleSession(orc, E.env())
    mops, expect = [], []
    rnd = random.Random(chk.seed * 61 + 3)
    n = 60 if tier == "quick" else 1500
    stats = {"always_false_conditions": 0, "generateKeys_runs": 0, "xor_hardenings": 0, "delegate_hardenings": 0}
    try:
        for _ in range(n):
            seed = rnd.randrange(1, 1 << 40)
            # opaque predicates
            for item in S.ask("cffalse %d 12" % seed).split(";"):
                v1, op, v2 = item.split(",")
                mops.append("cffalsem %s %s %s" % (v1, op, v2)); expect.append("1F")
                stats["always_false_conditions"] += 1
            # key generation, with blacklists that collide with what would be drawn
            count = rnd.choice([0, 1, 2, 7, 40])
            d0, k0 = S.ask("cfkeys %d %d -" % (seed, count)).split(" ")
            black = [int(x) for x in k0.split(",")[:2]] if k0 != "-" and rnd.random() < 0.5 else []
            bl = ",".join(map(str, black)) or "-"
            d, k = S.ask("cfkeys %d %d %s" % (seed, count, bl)).split(" ")
            mops.append("cfkeysm %d %s %s" % (count, bl, d)); expect.append(k)
            stats["generateKeys_runs"] += 1
            # hardenings
            m = rnd.choice([1, 2, 5, 30])
            a = S.ask("cfxor %d %d" % (seed, m))
            f = dict(x.split("=", 1) for x in a.split(" "))
            ents = [e.split(":") for e in f["entries"].split(",")]
            ks, cmps = [e[0] for e in ents], [e[1] for e in ents]
            mops.append("cfxorm %s %s %s" % (f["first"], f["second"], ",".join(ks))); expect.append(",".join(cmps) + " " + ",".join(cmps))
            stats["xor_hardenings"] += 1
            if len(set(cmps)) != len(cmps) or "0" in cmps:
                fails.append({"why": "xor hardening emits compare literals that are zero or not distinct", "detail": {"seed": seed, "compares": cmps[:10]}, "key": "xor-keys"})
            a = S.ask("cfdeleg %d %d" % (seed, m))
            f = dict(x.split("=", 1) for x in a.split(" "))
            dels = [e.split(":") for e in f["delegates"].split(",")]
            ents = [e.split(":") for e in f["entries"].split(",")]
            mops.append("cfdelegm %s %s %s %s %s" % (f["key"], ",".join(x[0] for x in dels), ",".join(x[1] for x in dels), ",".join(e[0] for e in ents), ",".join(e[1] for e in ents)))
            cmps = [e[2] for e in ents]
            expect.append(",".join(cmps))
            stats["delegate_hardenings"] += 1
            if len(set(cmps)) != len(cmps) or "0" in cmps:
                fails.append({"why": "delegate hardening emits compare literals that are zero or not distinct", "detail": {"seed": seed, "compares": cmps[:10]}, "key": "delegate-keys"})
    finally:
        S.close()
    ans = c01model.model_answers(mops)
    for o, e, m in zip(mops, expect, ans):
        if e != m:
            diffs.append({"op": o[:300], "impl": e[:200], "model": m[:200]})
    chk.count_cases(mops)
    chk.cov["streams"]["oracle:ctrlflow-keys"] = dict(stats, disagreements=len(diffs))
    chk.add_sample({"op": mops[0], "expected": expect[0]})


FLAT_SRCS = [("loopIf", '''package main

func loopIf(n int) int {
	s := 0
	for i := 0; i < n; i++ {
		if i%2 == 0 {
			s += i
		} else {
			s -= 1
		}
	}
	return s
}
'''), ("nested", '''package main

func nested(n int) int {
	c := 0
	for i := 0; i < n; i++ {
		for j := i; j < n; j++ {
			if (i+j)%3 == 0 {
				continue
			}
			if c > 100 {
				return c
			}
			c += i * j
		}
	}
	return c
}
'''), ("sw", '''package main

func sw(x int) int {
	switch {
	case x < 0:
		x = -x
		fallthrough
	case x == 0:
		x++
	case x < 10:
		x *= 2
	default:
		x -= 10
	}
	for x > 3 && x%7 != 0 {
		x--
	}
	return x
}
'''), ("shortCircuit", '''package main

func shortCircuit(a, b int, p *int) bool {
	x := a > 0 && (b > 0 || a > 5)
	y := p != nil && *p > 3
	return x != y || p == nil
}
'''), ("straight", '''package main

func straight(a, b int) int {
	c := a + b
	d := c * 2
	return d - a
}
''')]


def flatten_structure(chk, tier, E, orc, fails):
    """the graph the real applyFlattening produces is an instance of the model's `flatten`: keys are a permutation of 1..n, the
    i-th successor slot goes to jump block i, the i-th chain block compares with key i and continues at the target of edge i,
    the chain ends at the real entry block"""
    S = c01model.OracleSession(orc, E.env())
    rnd = random.Random(chk.seed * 73 + 1)
    st = chk.cov["streams"].setdefault("oracle:flatten-structure", {"graphs": 0, "edges": 0, "not_flattened": 0})
    try:
        for name, src in FLAT_SRCS:
            for _ in range(3 if tier == "quick" else 40):
                seed = rnd.randrange(1, 1 << 40)
                a = S.ask("cfflat %d %s %s" % (seed, hx(src), hx(name)))
                chk.count_cases(["flat|%s|%d" % (name, seed)])
                if a.startswith("err") or a.startswith("!"):
                    fails.append({"why": "applyFlattening hook failed", "detail": {"function": name, "answer": a[:300]}, "key": "flatten-hook"}); break
                if a.endswith("notflattened"):
                    st["not_flattened"] += 1; continue
                f = dict(x.split("=", 1) for x in a.split(" "))
                edges = [tuple(e.split(">")) for e in f["edges"].split(",")]
                keys = [int(k) for k in f["keys"].split(",")]
                n = len(edges)
                st["graphs"] += 1; st["edges"] += n
                problems = []
                if sorted(keys) != list(range(1, n + 1)):
                    problems.append("keys %s are not a permutation of 1..%d" % (keys, n))
                if f["entry"] != "ok":
                    problems.append("entry block " + f["entry"])
                for i in range(n):
                    c = f.get("chain%d" % i, "missing")
                    want = "%d:%s:%s" % (keys[i], edges[i][1], "c%d" % (i + 1) if i + 1 < n else "real")
                    if c != want:
                        problems.append("chain block %d is %s, the model has %s" % (i, c, want))
                succ = f["succ"].split(",")
                want_succ = ["%s:%d" % (edges[i][0], i) for i in range(n)]
                if succ != want_succ:
                    problems.append("successor slots %s, the model has %s" % (succ[:6], want_succ[:6]))
                if problems:
                    fails.append({"why": "the flattened graph is not the dispatcher structure the theorems are about", "detail": {"function": name, "seed": seed, "problems": problems[:4], "dump": a[:600]},
                                  "key": "flatten-structure"})
                    break
    finally:
        S.close()


def e2e_part(chk, tier, E, fails):
    rnd = random.Random(chk.seed * 67 + 5)
    rounds = 2 if tier == "quick" else 12
    seeds = ["o9WDTZ4CN4w", "AAECAwQFBgc", None]
    st = chk.cov["streams"].setdefault("e2e:differential", {"programs": 0, "functions": 0, "calls_compared": 0, "calls_equal": 0, "directives": {}})
    CF = {"GARBLE_EXPERIMENTAL_CONTROLFLOW": "1"}
    for k in range(rounds):
        src, dirs = render(rnd, tier, FUNCS)
        root = E.write_module("cf%d" % k, {"go.mod": "module gv.test/cf%d\n\ngo 1.26\n" % k, "main.go": src})
        seed = seeds[k % len(seeds)]
        gflags = (["-seed=" + seed] if seed else []) + (["-literals"] if tier == "thorough" and k % 4 == 3 else [])
        pb = E.run_go(["build", "-o", "plain", "."], root)
        if pb.returncode != 0:
            raise RuntimeError("the generated control-flow program does not build with go: " + pb.stderr[-800:])
        gb = E.run_garble(gflags, ["build", "-o", "garbled", "."], root, CF)
        st["programs"] += 1
        for d in dirs.values():
            for kv in d.split()[1:]:
                st["directives"][kv] = st["directives"].get(kv, 0) + 1
        if gb.returncode != 0:
            # the property allows a rejection with a build error; find which function it is about
            m = re.search(r'(?:function|func)\s+"?([\w./]+)"?', gb.stderr)
            chk.notes.append("garble rejected a control-flow program (allowed by the property): " + gb.stderr[-300:].replace("\n", " "))
            fails.append({"why": "garble fails to build the control-flow catalogue", "detail": {"flags": gflags, "stderr": gb.stderr[-600:]}, "key": "ctrlflow-build-fails", "source": src})
            continue
        _, pout, _ = E.run_bin(os.path.join(root, "plain"))
        grc, gout, gerr = E.run_bin(os.path.join(root, "garbled"))
        pl, gl = pout.decode("utf-8", "replace").splitlines(), gout.decode("utf-8", "replace").splitlines()
        st["functions"] += len(FUNCS)
        pm = {l.split(" ", 1)[0] + "#%d" % i: l for i, l in enumerate(pl)}
        for i, l in enumerate(pl):
            st["calls_compared"] += 1
            g = gl[i] if i < len(gl) else "(missing: the program died: %s)" % gerr.decode("utf-8", "replace")[-200:]
            chk.count_cases(["call|%d|%s" % (k, l.split(" = ")[0])])
            if g == l:
                st["calls_equal"] += 1
            else:
                fn = re.match(r"(\w+)\(", l).group(1) if re.match(r"(\w+)\(", l) else "?"
                fails.append({"why": "a //garble:controlflow function behaves differently from the regular build",
                              "detail": {"function": fn, "directive": dirs.get(fn), "flags": gflags, "regular": l, "obfuscated": g},
                              "source": next((s for n_, s, _ in FUNCS if n_ == fn), None), "key": "ctrlflow-differs:" + fn})
    chk.add_sample({"functions": [f[0] for f in FUNCS][:8], "directive": directive(random.Random(1), tier)})


def main(tier, replay=None):
    chk = core.Check(PID, tier)
    core.build_tools()
    chk.proofs(GENS, MODULES)
    orc, err = core.build_oracle()
    E = e2e.E2E("c11")
    diffs, fails = [], []
    try:
        oracle_part(chk, tier, E, orc, diffs, fails)
        flatten_structure(chk, tier, E, orc, fails)
        e2e_part(chk, tier, E, fails)
    finally:
        E.cleanup()
    if diffs:
        chk.cov["broken"].append({"kind": "correspondence", "what": "%d disagreements, first: %s" % (len(diffs), diffs[0])})
        chk.log("correspondence broken:", str(diffs[0])[:400])
    seen = set()
    for f in fails:
        if f["key"] not in seen:
            seen.add(f["key"])
            chk.violation(f["why"] + ": " + str(f["detail"])[:500], {"kind": "ctrlflow", **f}, True, key=f["key"])
    chk.cov["rule"] = ("oracle: the real applyFlattening on import-free functions (the produced graph must be the dispatcher structure of the model); the real randomAlwaysFalseCond, generateKeys (recorded draws replayed by the model), xorHardening.Apply and delegateTableHardening.Apply (literals read back from the emitted AST, "
                       "store expression evaluated by the model) on random seeds; e2e: a catalogue of %d functions (loops, labels, switch/fallthrough, range over slice/array/int/map/chan/string, select, defer, recover, "
                       "closures, named results, tuple swaps, short circuit, goto, type switch, arithmetic, goroutines, panics) each carrying a random directive from the parameter grid "
                       "(block_splits, junk_jumps, flatten_passes, flatten_hardening, trash_blocks), built with GARBLE_EXPERIMENTAL_CONTROLFLOW=1 and compared call by call with the regular build" % len(FUNCS))
    chk.assumptions += ["ssa2ast's per-instruction conversion is not modelled: sampled by the differential", "the SSA construction (golang.org/x/tools/go/ssa) is trusted"]
    return chk.finish()
