"""C06 — cached builds never go stale."""
import os, random, re, shutil, subprocess
from . import core, e2e, progen

PID = "C06"
GENS = ["Consts"]
MODULES = ["GV.Props.C06"]

LIT = ["-literals", "-seed=o9WDTZ4CN4w"]


def copy_tree(src, dst):
    subprocess.run(["cp", "-a", src, dst], check=True)


class CacheSet:
    """a private (GOCACHE, GARBLE_CACHE) pair, created as a copy of a snapshot"""

    def __init__(self, E, name, base=None, link_go=False):
        """link_go: hard-link the (content-addressed, never rewritten in place) GOCACHE entries instead of copying them;
        only for callers that do not damage cache files themselves"""
        self.dir = os.path.join(E.scratch, name)
        os.makedirs(self.dir)
        self.go, self.garble = os.path.join(self.dir, "go"), os.path.join(self.dir, "garble")
        if base:
            if link_go:
                subprocess.run(["cp", "-al", base.go, self.go], check=True)
            else:
                copy_tree(base.go, self.go)
            copy_tree(base.garble, self.garble)
        else:
            os.makedirs(self.go); os.makedirs(self.garble)

    def env(self, extra=None):
        e = {"GOCACHE": self.go, "GARBLE_CACHE": self.garble}
        e.update(extra or {})
        return e

    def drop(self):
        subprocess.run(["chmod", "-R", "u+w", self.dir], capture_output=True)
        shutil.rmtree(self.dir, ignore_errors=True)


def program(rnd):
    """a reflect-using, literal-using three-package program with a -X target"""
    prog = progen.Prog(rnd, npkgs=3)
    progen.s_reflect(prog, None)
    progen.s_json_via_dependency(prog)
    progen.s_structs(prog)
    progen.s_ldflags(prog)
    progen.s_consts(prog)
    lit = prog.n("literalHolder", False)
    prog.add(prog.libs[0], 'var %s = "a literal long enough to be obfuscated by -literals"\n' % lit)
    prog.run_func(prog.libs[0], "\treturn %s" % lit)
    return prog


def write_prog(root, files):
    for rel, content in files.items():
        p = os.path.join(root, rel)
        os.makedirs(os.path.dirname(p), exist_ok=True)
        open(p, "w").write(content)


def edit(files, prog, kind, k):
    """source edits between builds"""
    files = dict(files)
    libfile = next(f for f in sorted(files) if f.startswith(prog.libs[0] + "/") and f.endswith(".go") and "_test" not in f)
    mainfile = next(f for f in sorted(files) if "/" not in f and f.endswith(".go"))
    if kind == "comment-in-dependency":
        files[libfile] += "\n// edit %d\n" % k
    elif kind == "body-in-dependency":
        files[libfile] += "\nfunc edit%d%s() int { return %d }\n" % (k, prog.go, k)
    elif kind == "comment-in-main":
        files[mainfile] += "\n// edit %d\n" % k
    return files


def history_steps(tier, rnd):
    """(label, garble flags, extra build args, env, edit before the build)"""
    x1 = lambda prog: ["-ldflags=-X=main.%s=first-%s" % (prog._xvar, prog.keep)]
    x2 = lambda prog: ["-ldflags=-X=main.%s=second-%s" % (prog._xvar, prog.keep)]
    none = lambda prog: []
    quick = [
        ("default", [], none, None, None),
        ("default after a comment-only edit in a dependency", [], none, None, "comment-in-dependency"),
        ("-literals -seed", LIT, none, None, None),
        ("-literals -seed with -ldflags=-X on a main variable", LIT, x1, None, None),
        ("-literals -seed, other -X value, after a body edit in a dependency", LIT, x2, None, "body-in-dependency"),
        ("default again", [], none, None, None),
    ]
    if tier == "quick":
        return quick
    more = [
        ("-tiny", ["-tiny"], none, None, None),
        ("-seed=A", ["-seed=o9WDTZ4CN4w"], none, None, None),
        ("-seed=B", ["-seed=AAECAwQFBgc"], none, None, "comment-in-main"),
        ("GOGARBLE subset", [], none, {"GOGARBLE": "SUBSET"}, None),
        ("GOGARBLE='mod, -tiny'", [], none, {"GOGARBLE": "MOD, -tiny"}, None),
        ("GOGARBLE='mod,' with -tiny", ["-tiny"], none, {"GOGARBLE": "MOD,"}, None),
        ("-tags", [], lambda prog: ["-tags=sometag"], None, None),
        ("controlflow on", [], none, {"GARBLE_EXPERIMENTAL_CONTROLFLOW": "1"}, "body-in-dependency"),
        ("default", [], none, None, "comment-in-dependency"),
        ("-literals", ["-literals"], x1, None, None),
    ]
    steps = quick + more
    tail = steps[:]
    rnd.shuffle(tail)
    return steps + tail[:8]


def key_correspondence(chk, E, root, prog, diffs):
    """the derived garble-cache keys of real packages (pkgCacheID, goAsmCacheID, debugArtifactsCacheID) vs the model's
    pre-images hashed by the model's SHA-256: which inputs a key covers is exactly what the theorems are about"""
    from . import c01model
    from .c01model import hx, unhex, parse_list
    orc, err = core.build_oracle()
    S = c01model.OracleSession(orc, E.env(), cwd=root)
    mops, expect, labels = [], [], []
    try:
        a = S.ask("load %s %s %s" % (hx(root), hx(""), hx("./...")))
        if not a.startswith("ok"):
            diffs.append({"op": "load", "impl": a, "model": "ok"}); return
        pkgs = [unhex(l.split("|")[0]).decode() for l in parse_list(S.ask("pkgs"))]
        mine = [p for p in pkgs if p.startswith(prog.mod)]
        std = [p for p in pkgs if p in ("fmt", "reflect", "encoding/json", "strings", "runtime", "os", "sync", "internal/abi", "unicode/utf8", "errors")]
        for p in mine + std:
            r = S.ask("cacheids " + hx(p))
            if r.startswith("!"):
                continue
            f = dict(x.split("=", 1) for x in r.split(" "))
            kc, ka = f["kinds"].split(",")
            mops.append("cacheidsm %s %s %s %s" % (f["gaid"], f["deps"], kc, ka))
            expect.append("%s %s %s %s" % (f["pkg"], f["asm"], f["dbgcompile"], f["dbgasm"]))
            labels.append((p, 0 if f["deps"] == "-" else f["deps"].count(",") + 1, int(f["ndeps"])))
    finally:
        S.close()
    ans = c01model.model_answers(mops)
    st = chk.cov["streams"].setdefault("oracle:cache-keys", {"packages": 0, "with_indirect_dependencies": 0, "disagreements": 0})
    for o, e, m, (p, nall, ndirect) in zip(mops, expect, ans, labels):
        st["packages"] += 1
        if nall > ndirect:
            st["with_indirect_dependencies"] += 1
        if e != m:
            st["disagreements"] += 1
            which = [n for n, a_, b_ in zip(("pkgCacheID", "goAsmCacheID", "debugArtifactsCacheID(compile)", "debugArtifactsCacheID(asm)"), e.split(" "), m.split(" ")) if a_ != b_]
            diffs.append({"op": "cache keys of %s (%d transitive, %d direct dependencies)" % (p, nall, ndirect), "impl": e[:140], "model": m[:140], "differs": which})
    chk.count_cases(mops)


def main(tier, replay=None):
    chk = core.Check(PID, tier)
    core.build_tools()
    chk.proofs(GENS, MODULES)
    E = e2e.E2E("c06")
    fails = []
    KEYDIFFS = []
    try:
        rnd = random.Random(chk.seed * 37 + 5)
        prog = program(rnd)
        prog._xvar = next(n for n in prog.go_names if "njected" in n)
        files = prog.render()
        kroot = E.write_module("keys", files)
        key_correspondence(chk, E, kroot, prog, KEYDIFFS)
        steps = history_steps(tier, rnd)
        # warm the std closure for every configuration of the history in the shared caches, then snapshot them
        hello = E.write_module("hello", {"go.mod": "module gv.test/hello\n\ngo 1.26\n", "main.go": "package main\n\nimport (\n\t\"encoding/json\"\n\t\"fmt\"\n\t\"os\"\n\t\"reflect\"\n\t\"strconv\"\n\t\"strings\"\n)\n\nfunc main() { b, _ := json.Marshal(os.Args); fmt.Println(strings.Repeat(strconv.Itoa(len(b)), 2), reflect.TypeOf(b)) }\n"})
        seen_cfg = set()
        for (label, gflags, xf, env, ed) in steps:
            envk = tuple(sorted((env or {}).items()))
            key = (tuple(gflags), "GARBLE_EXPERIMENTAL_CONTROLFLOW" in (env or {}))
            if key in seen_cfg:
                continue
            seen_cfg.add(key)
            wenv = {k: v for k, v in (env or {}).items() if k == "GARBLE_EXPERIMENTAL_CONTROLFLOW"}
            r = E.run_garble(gflags, ["build", "-o", "out", "."], hello, wenv or None)
            if r.returncode != 0:
                chk.notes.append("warm-up failed for %s: %s" % (gflags, r.stderr[-200:]))
        base = CacheSet(E, "base")
        base.drop(); os.makedirs(base.dir)
        copy_tree(E.gocache, base.go); copy_tree(E.garblecache, base.garble)
        H = CacheSet(E, "history", base)
        root = os.path.join(E.scratch, "hist_src")
        k = 0
        for (label, gflags, xf, env, ed) in steps:
            k += 1
            if ed:
                files = edit(files, prog, ed, k)
            shutil.rmtree(root, ignore_errors=True)
            write_prog(root, files)
            env = dict(env or {})
            if env.get("GOGARBLE"):
                env["GOGARBLE"] = env["GOGARBLE"].replace("SUBSET", prog.ipath(prog.libs[0]) + "," + prog.mod).replace("MOD", prog.mod)
            args = ["build"] + xf(prog) + ["-o", "out_hist", "."]
            b = E.run_garble(gflags, args, root, H.env(env))
            chk.count_cases(["history|%d|%s" % (k, label)])
            st = chk.cov["streams"].setdefault("e2e:history", {"steps": 0, "cold_references": 0, "identical_to_cold": 0})
            st["steps"] += 1
            if b.returncode != 0:
                fails.append({"why": "a build of the history fails", "detail": {"step": k, "label": label, "stderr": b.stderr[-1200:]}, "key": "history-build-fails:" + label}); continue
            # the cold reference: same source, same configuration, caches that have never seen this module
            R = CacheSet(E, "ref%d" % k, base)
            refroot = os.path.join(E.scratch, "ref_src")
            shutil.rmtree(refroot, ignore_errors=True)
            write_prog(refroot, files)
            rb = E.run_garble(gflags, ["build"] + xf(prog) + ["-o", "out_ref", "."], refroot, R.env(env))
            st["cold_references"] += 1
            if rb.returncode != 0:
                chk.notes.append("cold reference failed: " + rb.stderr[-300:]); R.drop(); continue
            hb, cb = os.path.join(root, "out_hist"), os.path.join(refroot, "out_ref")
            same = e2e.sha256_file(hb) == e2e.sha256_file(cb)
            if same:
                st["identical_to_cold"] += 1
            else:
                o1, o2 = E.run_bin(hb, ["a"]), E.run_bin(cb, ["a"])
                fails.append({"why": "a build over the shared cache differs from the cold build of the same configuration and source",
                              "detail": {"step": k, "history": [s[0] for s in steps[:k]], "label": label, "behaviour_differs": (o1[0], o1[1]) != (o2[0], o2[1]),
                                         "history_output": o1[1].decode("utf-8", "replace")[-400:], "cold_output": o2[1].decode("utf-8", "replace")[-400:]},
                              "key": "stale:" + label})
            R.drop()
            if k == 1:
                chk.add_sample({"step": label, "flags": gflags, "identical_to_cold": same})
        # a rebuild with nothing changed recompiles no package
        v = E.run_garble(steps[-1][1], ["build", "-v"] + steps[-1][2](prog) + ["-o", "out_hist", "."], root, H.env(steps[-1][3] and {kk: vv.replace("SUBSET", prog.ipath(prog.libs[0]) + "," + prog.mod).replace("MOD", prog.mod) for kk, vv in steps[-1][3].items()}))
        recompiled = [l for l in v.stderr.splitlines() if l and not l.startswith("#") and " " not in l]
        chk.cov["streams"]["e2e:history"]["noop_rebuild_packages"] = len(recompiled)
        if recompiled:
            fails.append({"why": "rebuilding with nothing changed recompiles packages", "detail": recompiled[:10], "key": "noop-recompiles"})
        H.drop(); base.drop()
    finally:
        E.cleanup()
    if KEYDIFFS:
        chk.cov["broken"].append({"kind": "correspondence", "what": "%d cache keys disagree with the model, first: %s" % (len(KEYDIFFS), KEYDIFFS[0])})
        chk.log("correspondence broken:", str(KEYDIFFS[0])[:400])
    seen = set()
    for f in fails:
        if f["key"] not in seen:
            seen.add(f["key"])
            chk.violation(f["why"] + ": " + str(f["detail"])[:500], {"kind": "history", **f}, True, key=f["key"])
    chk.cov["rule"] = ("one history of real garble builds over a private (GOCACHE, GARBLE_CACHE) pair - configurations drawn from default, -tiny, -literals, -seed=A/B, GOGARBLE subsets (incl. the flag-lookalike values), "
                       "control flow, -tags, -ldflags=-X, interleaved with comment-only and body edits in a dependency and in main; after every step the binary is compared byte for byte with a build of the same "
                       "source and configuration in caches that never saw the module (std closure pre-warmed); finally a no-op rebuild must recompile nothing")
    chk.assumptions += ["cmd/go's action IDs cover source, tags, GOOS/GOARCH and the Go version (its contract)", "bit-for-bit comparison relies on C03 (reproducible builds); a difference is reported with whether behaviour differs too"]
    return chk.finish()
