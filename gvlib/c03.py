"""C03 — builds are reproducible bit for bit."""
import os, random, shutil, subprocess
from . import core, e2e, progen, c06

PID = "C03"
GENS = ["Consts", "Nondet"]
MODULES = ["GV.Props.C03"]

CTRL_MAIN = '''package main

import (
	"fmt"
	"os"
	"strconv"
	"strings"
)

type acc struct {
	total int
	log   []string
}

//garble:controlflow flatten_passes=1 junk_jumps=4 block_splits=4 flatten_hardening=xor
func (a *acc) xorHardened(n int) int {
	for i := 0; i < n; i++ {
		if i%3 == 0 {
			a.total += i
		} else if i%3 == 1 {
			a.total -= 1
		} else {
			a.log = append(a.log, strconv.Itoa(i))
		}
	}
	return a.total
}

//garble:controlflow flatten_passes=1 junk_jumps=2 block_splits=max flatten_hardening=delegate_table
func delegated(s string) string {
	var sb strings.Builder
	for _, r := range s {
		switch {
		case r >= 'a' && r <= 'z':
			sb.WriteRune(r - 32)
		case r >= '0' && r <= '9':
			sb.WriteString("#")
		default:
			sb.WriteRune(r)
		}
	}
	return sb.String()
}

//garble:controlflow flatten_passes=2 junk_jumps=3 block_splits=3 flatten_hardening=xor,delegate_table
func both(a, b int) (int, int) {
	for a != b && a > 0 && b > 0 {
		if a > b {
			a -= b
		} else {
			b -= a
		}
	}
	return a, b
}

//garble:controlflow flatten_passes=1 junk_jumps=4 block_splits=4TRASH
func trashed(xs []int, name string, f float64) int {
	sum := len(name) + int(f)
	for i, x := range xs {
		if x%2 == 0 {
			sum += x * i
		} else {
			sum -= x
		}
	}
	return sum
}

//garble:controlflow flatten_passes=1 junk_jumps=0 block_splits=0
func manyVars(n int) (int, string, float64, bool) {
	a, b, c := 0, 1, 2
	s, t := "x", "y"
	f, g := 1.5, 2.5
	ok := false
	for i := 0; i < n; i++ {
		a, b, c = b, c, a+b
		s, t = t, s+t
		f, g = g, f+g
		ok = !ok
	}
	return a + b + c, s + t, f + g, ok
}

func main() {
	a := &acc{}
	fmt.Println(a.xorHardened(len(os.Args)+9), a.log)
	fmt.Println(delegated("hello 42 World"))
	fmt.Println(both(84*len(os.Args), 36))
	fmt.Println(trashed([]int{1, 2, 3, 4, 5, 6}, "name", 2.5))
	fmt.Println(manyVars(5))
}
'''


def build_cold(E, base, files, gflags, env, tag, srcname="src", tmpname=None, pflag=None, debugdir=False, wipe_garble=False):
    """one build in caches that never saw the module; returns (sha256, dict(debugdir files) or None, stderr)"""
    C = c06.CacheSet(E, "cold_" + tag, base, link_go=True)
    root = os.path.join(E.scratch, srcname)
    shutil.rmtree(root, ignore_errors=True)
    c06.write_prog(root, files)
    if wipe_garble:
        # garble's own entries gone (reflection info of every dependency has to be recomputed), the go build cache kept
        shutil.rmtree(os.path.join(C.garble, "build"), ignore_errors=True)
    ex = dict(env or {})
    if tmpname:
        t = os.path.join(E.scratch, tmpname)
        shutil.rmtree(t, ignore_errors=True)
        os.makedirs(t)
        ex["TMPDIR"] = t
    dd = None
    gf = list(gflags)
    if debugdir:
        dd = os.path.join(E.scratch, "dd_" + tag)
        shutil.rmtree(dd, ignore_errors=True)
        gf = gf + ["-debugdir=" + dd]
    args = ["build"] + (["-p=%d" % pflag] if pflag else []) + ["-o", "out_bin", "."]
    try:
        r = E.run_garble(gf, args, root, C.env(ex))
        if r.returncode != 0:
            return None, None, r.stderr
        h = e2e.sha256_file(os.path.join(root, "out_bin"))
        ddfiles = None
        if dd:
            ddfiles = {}
            g = os.path.join(dd, "garbled")
            for d, _, fs in os.walk(g):
                for f in fs:
                    p = os.path.join(d, f)
                    rel = os.path.relpath(p, g)
                    if rel.startswith(("gv", "main")) or "example" in rel or "gv.test" in rel:
                        ddfiles[rel] = open(p, "rb").read()
            shutil.rmtree(dd, ignore_errors=True)
        return h, ddfiles, r.stderr
    finally:
        C.drop()


def main(tier, replay=None):
    chk = core.Check(PID, tier)
    core.build_tools()
    chk.proofs(GENS, MODULES)
    E = e2e.E2E("c03")
    fails = []
    try:
        rnd = random.Random(chk.seed * 59 + 7)
        prog = progen.gen_program(rnd, nsnip=7, toolchain=True, must=[progen.s_asm, progen.s_generics])
        # literals above 256 bytes take another path when the obfuscator is picked
        big = prog.n("bigLiteral", False)
        prog.add("", 'var %s = []string{"%s", "%s"}\n' % (big, "".join(rnd.choice("abcdefghijklmnopqrstuvwxyz ") for _ in range(300)), "".join(rnd.choice("ABCDEFGHIJKLMNOP0123456789") for _ in range(450))))
        prog.run_func("", "\treturn %s[len(args)%%2][:20]" % big)
        gen_files = prog.render()
        # a second program: JSON through a dependency, built with GOGARBLE restricted to the module
        jprog = progen.Prog(rnd, npkgs=3)
        progen.s_json_via_dependency(jprog)
        progen.s_structs(jprog)
        json_files = jprog.render()
        ctrl_files = {"go.mod": "module gv.test/ctrl\n\ngo 1.26\n", "main.go": CTRL_MAIN.replace("block_splits=4TRASH", "block_splits=4")}
        trash_files = {"go.mod": "module gv.test/ctrl\n\ngo 1.26\n", "main.go": CTRL_MAIN.replace("block_splits=4TRASH", "block_splits=4 trash_blocks=6")}
        CF = {"GARBLE_EXPERIMENTAL_CONTROLFLOW": "1"}
        SEED = "-seed=o9WDTZ4CN4w"
        configs = [("default", [], None, gen_files), ("-literals -seed", ["-literals", SEED], None, gen_files),
                   ("controlflow -seed", [SEED], CF, ctrl_files), ("GOGARBLE=module", [], {"GOGARBLE": jprog.mod}, json_files)]
        if tier == "thorough":
            configs += [("-tiny", ["-tiny"], None, gen_files), ("controlflow, unseeded", [], CF, ctrl_files), ("controlflow -literals -tiny -seed", ["-literals", "-tiny", SEED], CF, ctrl_files),
                        ("-literals, unseeded", ["-literals"], None, gen_files)]
        hello = E.write_module("hello", {"go.mod": "module gv.test/hello\n\ngo 1.26\n", "main.go": "package main\n\nimport (\n\t\"fmt\"\n\t\"os\"\n\t\"strconv\"\n\t\"strings\"\n)\n\nfunc main() { fmt.Println(strings.Repeat(strconv.Itoa(len(os.Args)), 2)) }\n"})
        for (label, gflags, env, files) in configs:
            wroot = hello
            if env and env.get("GOGARBLE"):
                # the standard library's garble cache entries depend on GOGARBLE: warm them with another program of the same module path
                wroot = E.write_module("hello_gg", {"go.mod": "module %s\n\ngo 1.26\n" % env["GOGARBLE"],
                                                    "main.go": "package main\n\nimport (\n\t\"encoding/json\"\n\t\"fmt\"\n\t\"os\"\n\t\"strconv\"\n)\n\nfunc main() { b, _ := json.Marshal(os.Args); fmt.Println(strconv.Itoa(len(b))) }\n"})
            r = E.run_garble(gflags, ["build", "-o", "out", "."], wroot, env)
            if r.returncode != 0:
                chk.notes.append("warm-up failed for %s: %s" % (label, r.stderr[-200:]))
        base = c06.CacheSet(E, "base"); base.drop(); os.makedirs(base.dir)
        c06.copy_tree(E.gocache, base.go); c06.copy_tree(E.garblecache, base.garble)
        st = chk.cov["streams"].setdefault("e2e:cold-pairs", {"configurations": 0, "cold_builds": 0, "identical_binaries": 0, "debugdir_sources_identical": 0})
        variations = [("same everything", dict()), ("other source dir, other TMPDIR, -p=1", dict(srcname="elsewhere/deeper/src2", tmpname="tmp-two", pflag=1)),
                      ("-p=16", dict(pflag=16)), ("GARBLE_CACHE/build emptied, GOCACHE kept", dict(wipe_garble=True))]
        if tier == "thorough":
            variations += [("again", dict()), ("-p=3, other TMPDIR", dict(pflag=3, tmpname="tmp-three")), ("again 2", dict()), ("again 3", dict())]
        # -debugdir forces a full rebuild (-a, standard library included): only the thorough tier compares the
        # intermediate obfuscated sources, and only for one pair per configuration
        DD = tier == "thorough"
        for (label, gflags, env, files) in configs:
            st["configurations"] += 1
            ref, refdd, err = build_cold(E, base, files, gflags, env, "ref")
            st["cold_builds"] += 1
            if ref is None:
                fails.append({"why": "the build fails", "detail": {"config": label, "stderr": err[-800:]}, "key": "build-fails:" + label}); continue
            for k, (vlabel, kw) in enumerate(variations):
                h, dd, err = build_cold(E, base, files, gflags, env, "v%d" % k, **kw)
                st["cold_builds"] += 1
                chk.count_cases(["pair|%s|%s" % (label, vlabel)])
                if h is None:
                    fails.append({"why": "the build fails", "detail": {"config": label, "variation": vlabel, "stderr": err[-800:]}, "key": "build-fails:" + label}); continue
                if h == ref:
                    st["identical_binaries"] += 1
                else:
                    fails.append({"why": "two cold builds of the same source and configuration give different binaries",
                                  "detail": {"config": label, "flags": gflags, "env": env, "variation": vlabel}, "files": files if files is ctrl_files else None, "key": "binary-differs:" + label})
            if DD:
                ha, dda, erra = build_cold(E, base, files, gflags, env, "dda", debugdir=True)
                hb, ddb, errb = build_cold(E, base, files, gflags, env, "ddb", debugdir=True, srcname="elsewhere/src3", pflag=2)
                st["cold_builds"] += 2
                chk.count_cases(["debugdir-pair|%s" % label])
                if ha is None or hb is None:
                    fails.append({"why": "the build fails", "detail": {"config": label, "stderr": (erra or errb)[-800:]}, "key": "build-fails:" + label})
                else:
                    if ha == hb:
                        st["identical_binaries"] += 1
                    else:
                        fails.append({"why": "two cold -debugdir builds give different binaries", "detail": {"config": label}, "key": "binary-differs:" + label})
                    if dda == ddb:
                        st["debugdir_sources_identical"] += 1
                    else:
                        diff = sorted(f for f in set(dda) | set(ddb) if dda.get(f) != ddb.get(f))
                        # the obfuscated source is an intermediate: a difference there with identical binaries is reported as a note
                        chk.notes.append("garbled sources differ between cold builds (%s): %s" % (label, diff[:4]))
            # warm and partially filled caches: build, drop some of garble's own entries, rebuild
            W = c06.CacheSet(E, "warm", base, link_go=True)
            root = os.path.join(E.scratch, "warm_src"); shutil.rmtree(root, ignore_errors=True); c06.write_prog(root, files)
            hs = []
            for step in ("fill", "warm", "partial"):
                if step == "partial":
                    ents = sorted(os.path.join(d, f) for d, _, fs in os.walk(W.garble) for f in fs if "tool" not in d)
                    newer = sorted(ents, key=os.path.getmtime)[-40:]
                    for p in newer[::2]:
                        os.remove(p)
                    subprocess.run(["touch", os.path.join(root, "go.mod")])
                r = E.run_garble(gflags, ["build", "-o", "out_bin", "."], root, W.env(env))
                st["cold_builds"] += 1
                chk.count_cases(["cache-state|%s|%s" % (label, step)])
                if r.returncode != 0:
                    fails.append({"why": "the build fails", "detail": {"config": label, "cache": step, "stderr": r.stderr[-800:]}, "key": "build-fails:" + label}); break
                hs.append(e2e.sha256_file(os.path.join(root, "out_bin")))
            W.drop()
            for step, h in zip(("fill", "warm", "partial"), hs):
                if h == ref:
                    st["identical_binaries"] += 1
                else:
                    fails.append({"why": "the binary depends on the cache state", "detail": {"config": label, "cache": step}, "key": "cache-state-differs:" + label})
        # trash blocks import packages the function's package does not import; garble finds their archives through the action
        # graph as $WORK/bNNN/_pkg_.a, which only exists when that package is compiled in the same invocation
        T = c06.CacheSet(E, "trash", base, link_go=True)
        troot = os.path.join(E.scratch, "trash_src"); c06.write_prog(troot, trash_files)
        r = E.run_garble([SEED], ["build", "-o", "out_bin", "."], troot, T.env(CF))
        st["cold_builds"] += 1
        chk.count_cases(["trash|warm std cache"])
        if r.returncode != 0:
            fails.append({"why": "a build with trash_blocks fails when the standard library comes from a warm GOCACHE (it succeeds when everything is rebuilt): the outcome depends on the cache state",
                          "detail": {"stderr": r.stderr[-400:]}, "key": "trash-needs-rebuilt-dependency" if "could not import" in r.stderr else "build-fails:trash"})
        T.drop()
        if tier == "thorough":
            hs = []
            for k in range(3):
                A = c06.CacheSet(E, "trash_a%d" % k, base, link_go=True)
                aroot = os.path.join(E.scratch, "trash_a_src%d" % k); c06.write_prog(aroot, trash_files)
                r = E.run_garble([SEED], ["build", "-a", "-o", "out_bin", "."], aroot, A.env(CF))
                st["cold_builds"] += 1
                chk.count_cases(["trash|-a|%d" % k])
                if r.returncode == 0:
                    hs.append(e2e.sha256_file(os.path.join(aroot, "out_bin")))
                else:
                    fails.append({"why": "the build fails", "detail": {"config": "trash_blocks -a", "stderr": r.stderr[-600:]}, "key": "build-fails:trash -a"})
                A.drop()
            if len(set(hs)) > 1:
                fails.append({"why": "two full builds with trash_blocks and the same -seed give different binaries", "detail": {"hashes": hs}, "key": "binary-differs:trash_blocks"})
            else:
                st["identical_binaries"] += len(hs)
        chk.add_sample({"config": configs[0][0], "variation": variations[1][0]})
        base.drop()
    finally:
        E.cleanup()
    seen = set()
    for f in fails:
        if f["key"] not in seen:
            seen.add(f["key"])
            chk.violation(f["why"] + ": " + str(f["detail"])[:500], {"kind": "repro", **f}, True, key=f["key"])
    chk.cov["rule"] = ("for each configuration (default, -literals -seed, control flow with -seed; thorough adds -tiny, unseeded control flow / literals, all combined): a reference build and N further builds, each from caches that "
                       "never saw the module (std closure pre-warmed), varying source directory, TMPDIR and -p; then fill / warm / partially emptied cache states; every binary must have the reference's SHA-256. "
                       "Go randomises map iteration per process, so repeated cold builds also sample iteration orders.")
    chk.assumptions += ["determinism of the Go compiler, assembler and linker is the toolchain's contract", "clock and scheduling are varied only by running at different times / -p values: sampled"]
    return chk.finish()
