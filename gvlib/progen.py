"""Program generator: composes parameterised feature snippets into multi-package Go modules whose `main` prints only
computed values (DESIGN.md appendix C).  Every identifier, file, directory and module name that garble must remove
carries the program's GO-stem; every name that is documented to remain carries the KEEP-stem, so binary scans are exact.
All randomness comes from the `random.Random` passed in."""
import random, string


def _stem(rnd, n=6):
    # lower-case letters and digits, starting with a letter; rare enough not to occur in a binary by chance
    return rnd.choice("qxzjkv") + "".join(rnd.choice("qxzjkvw0123456789") for _ in range(n - 1))


class Prog:
    def __init__(self, rnd, npkgs=3, modsuffix=""):
        self.rnd = rnd
        self.go = _stem(rnd)       # must not survive in the binary
        self.keep = _stem(rnd)     # documented to remain
        while self.keep == self.go:
            self.keep = _stem(rnd)
        self.mod = "gv%smod.example/mod-%s%s" % (self.go, self.go[:2], modsuffix)
        self.counter = 0
        # package rel dir -> dict(name, files{fname: [decls]}, imports{fname: set}, asm{fname: text})
        self.pkgs = {}
        self.libs = []
        dirs = ["pkg%sdir" % self.go, "pkg.%s/sub-%s" % (self.go, self.go[:3]), "in%sner/deep%s" % (self.go, self.go)]
        names = ["lib%sone" % self.go, "lib%stwo" % self.go, "lib%sthree" % self.go]
        for i in range(npkgs - 1):
            self.add_pkg(dirs[i], names[i])
            self.libs.append(dirs[i])
        self.add_pkg("", "main")
        self.runs = []             # (pkgrel, func name)
        self.features = []
        self.markers = []          # (marker string, expectation) for -literals scans
        self.keep_names = []       # names expected to possibly remain (for information)
        self.go_names = []         # names that must be gone
        self.ldflags = []          # -X settings
        self.tests = False
        self.asm = False

    # -- naming ---------------------------------------------------------------
    def n(self, role, exported=True, keep=False):
        self.counter += 1
        stem = self.keep if keep else self.go
        first = role[0].upper() if exported else role[0].lower()
        name = "%s%s%s%d" % (first, stem, role[1:], self.counter)
        (self.keep_names if keep else self.go_names).append(name)
        return name

    def add_pkg(self, rel, name):
        self.pkgs[rel] = {"name": name, "files": {}, "imports": {}, "asm": {}, "extra": {}}

    def ipath(self, rel):
        return self.mod + ("/" + rel if rel else "")

    def file_of(self, rel, k=0):
        return "f%sfile%d.go" % (self.go, k)

    def add(self, rel, code, imports=(), k=None):
        p = self.pkgs[rel]
        if k is None:
            k = self.rnd.randrange(2)
        fn = self.file_of(rel, k)
        p["files"].setdefault(fn, []).append(code)
        p["imports"].setdefault(fn, set()).update(imports)

    def lib(self):
        return self.rnd.choice(self.libs) if self.libs else ""

    def run_func(self, rel, body, imports=()):
        """registers func RunN(args []string) string in package rel"""
        name = self.n("Run", True)
        self.add(rel, "func %s(args []string) string {\n%s\n}\n" % (name, body), set(imports))
        self.runs.append((rel, name))
        return name

    # -- rendering ------------------------------------------------------------
    def render(self):
        files = {"go.mod": "module %s\n\ngo 1.26\n" % self.mod}
        main_imports = {'"fmt"', '"os"'}
        calls = []
        aliases = {}
        for i, (rel, fn) in enumerate(self.runs):
            if rel == "":
                calls.append('\tfmt.Println("R%02d", %s(args))' % (i, fn))
            else:
                al = aliases.setdefault(rel, "p%d" % len(aliases))
                main_imports.add('%s "%s"' % (al, self.ipath(rel)))
                calls.append('\tfmt.Println("R%02d", %s.%s(args))' % (i, al, fn))
        for rel, p in self.pkgs.items():
            fns = dict(p["files"])
            if rel != "" and not fns:
                fns[self.file_of(rel, 0)] = ["var placeholder%s = 1\n" % self.go]   # a package that is imported must exist
            if rel == "":
                fn0 = self.file_of("", 0)
                fns.setdefault(fn0, [])
                p["imports"].setdefault(fn0, set()).update(main_imports)
                fns[fn0] = fns[fn0] + ["func main() {\n\targs := os.Args[1:]\n\t_ = args\n%s\n}\n" % "\n".join(calls)]
            for fn, decls in fns.items():
                imps = sorted(p["imports"].get(fn, ()))
                src = "package %s\n\n" % p["name"]
                if imps:
                    src += "import (\n" + "".join("\t%s\n" % (i if i.startswith('"') or " " in i or i.startswith(". ") or i.startswith("_ ") else '"%s"' % i) for i in imps) + ")\n\n"
                src += "\n".join(decls)
                files[(rel + "/" if rel else "") + fn] = src
            for fn, txt in p["asm"].items():
                files[(rel + "/" if rel else "") + fn] = txt
            for fn, txt in p["extra"].items():
                files[(rel + "/" if rel else "") + fn] = txt
        return files


# ---------------------------------------------------------------------------------------------------------------
# snippets.  Each takes the program and adds declarations plus a Run function; results depend only on values.
# ---------------------------------------------------------------------------------------------------------------

def s_structs(p):
    rel = p.lib() if p.rnd.random() < 0.7 else ""
    T, E, f1, f2, m1, m2 = p.n("Type"), p.n("Embedded"), p.n("field", False), p.n("Field"), p.n("method", False), p.n("Method", True, keep=True)
    p.add(rel, """
type %(E)s struct{ %(f2)s int }
func (e %(E)s) %(m1)s() int { return e.%(f2)s * 3 }
type %(T)s struct {
	%(E)s
	%(f1)s string
	next *%(T)s
}
func (t *%(T)s) %(m2)s(n int) string { t.%(f1)s += strconv.Itoa(n + t.%(m1)s()); return t.%(f1)s }
""" % locals(), {'"strconv"'})
    p.run_func(rel, """	t := &%(T)s{%(E)s: %(E)s{%(f2)s: len(args) + 2}, %(f1)s: "v"}
	t.next = t
	f := t.next.%(m2)s
	g := (*%(T)s).%(m2)s
	return f(1) + g(t, 2) + strconv.Itoa(t.%(E)s.%(f2)s)""" % locals(), {'"strconv"'})
    p.features.append("structs")


def s_method_struct_param(p):
    """an exported method taking NAMED structs (and a slice of them) by value: none of these types reaches reflection, so
    their names and field names must be gone from the binary (the method name itself is documented to stay)"""
    rel = p.lib()
    R, P, Q, f1, f2, f3, m = p.n("Receiver"), p.n("ParamStruct"), p.n("NestedStruct"), p.n("FieldOne"), p.n("fieldTwo", False), p.n("FieldThree"), p.n("Method", True, keep=True)
    p.add(rel, """
type %(Q)s struct{ %(f3)s int }
type %(P)s struct {
	%(f1)s int
	%(f2)s %(Q)s
}
type %(R)s struct{ n int }
func (r *%(R)s) %(m)s(a %(P)s, bs []%(P)s) string {
	r.n += a.%(f1)s + a.%(f2)s.%(f3)s + len(bs)
	return fmt.Sprint(r.n)
}
""" % locals(), {'"fmt"'})
    p.run_func(rel, """	r := &%(R)s{n: len(args)}
	return r.%(m)s(%(P)s{%(f1)s: 2, %(f2)s: %(Q)s{%(f3)s: 3}}, []%(P)s{{}, {}})""" % locals(), {'"fmt"'})
    p.features.append("method-struct-param")


def s_iface(p):
    rel = p.lib()
    I, m, A, B, S = p.n("Iface"), p.n("hidden", False), p.n("implA", False), p.n("ImplB"), p.n("Stringy")
    p.add(rel, """
type %(I)s interface {
	%(m)s(x int) int
	fmt.Stringer
}
type %(A)s struct{ k int }
func (a %(A)s) %(m)s(x int) int { return x + a.k }
func (a %(A)s) String() string { return "A" + strconv.Itoa(a.k) }
type %(B)s []int
func (b %(B)s) %(m)s(x int) int { return x * len(b) }
func (b %(B)s) String() string { return fmt.Sprint([]int(b)) }
type %(S)s int
func (s %(S)s) Error() string { return "e" + strconv.Itoa(int(s)) }
""" % locals(), {'"fmt"', '"strconv"'})
    p.run_func(rel, """	var xs = []%(I)s{%(A)s{len(args)}, %(B)s{1, 2, 3}}
	out := ""
	for i, x := range xs {
		switch v := x.(type) {
		case %(A)s:
			out += "a" + strconv.Itoa(v.k)
		case %(B)s:
			out += "b" + strconv.Itoa(len(v))
		}
		out += fmt.Sprintf("%%d:%%s;", x.%(m)s(i+1), x.String())
	}
	var err error = %(S)s(7)
	return out + err.Error()""" % locals(), {'"fmt"', '"strconv"'})
    p.features.append("iface")


def s_generics(p):
    rel = p.lib()
    Box, Num, Map, f, g, P = p.n("Box"), p.n("Number"), p.n("MapFn"), p.n("field", False), p.n("Get", True, keep=True), p.n("Pair")
    p.add(rel, """
type %(Num)s interface{ ~int | ~int64 | ~float64 }
type %(Box)s[T any] struct{ %(f)s T; list []%(Box)s[T] }
func (b %(Box)s[T]) %(g)s() T { return b.%(f)s }
type %(P)s[K comparable, V %(Num)s] struct{ Key K; Val V }
func %(Map)s[T, U any](xs []T, fn func(T) U) []U {
	out := make([]U, 0, len(xs))
	for _, x := range xs { out = append(out, fn(x)) }
	return out
}
func sum%(Box)s[V %(Num)s](ps ...%(P)s[string, V]) (s V) { for _, q := range ps { s += q.Val }; return }
""" % locals())
    p.run_func(rel, """	b := %(Box)s[int]{%(f)s: len(args) + 40}
	b.list = append(b.list, %(Box)s[int]{%(f)s: 2})
	ys := %(Map)s([]int{1, 2, b.%(g)s()}, func(i int) string { return strconv.Itoa(i * 2) })
	s := sum%(Box)s(%(P)s[string, float64]{"a", 1.5}, %(P)s[string, float64]{Key: "b", Val: 2})
	return strings.Join(ys, ",") + fmt.Sprint(s, b.list[0].%(g)s())""" % locals(), {'"strconv"', '"strings"', '"fmt"'})
    p.features.append("generics")


def s_closures(p):
    rel = p.rnd.choice(["", p.lib()])
    mk, acc, L = p.n("makeCounter", False), p.n("accum", False), p.n("Outer")
    p.add(rel, """
func %(mk)s(start int) (func() int, func(int)) {
	%(acc)s := start
	return func() int { %(acc)s++; return %(acc)s }, func(d int) { %(acc)s += d }
}
""" % locals())
    p.run_func(rel, """	next, add := %(mk)s(len(args))
	add(10)
	total := 0
%(L)s:
	for i := 0; i < 5; i++ {
		for j := 0; j < 5; j++ {
			if j == 3 { continue %(L)s }
			if i == 4 { break %(L)s }
			total += next() * (j + 1)
		}
	}
	k := 0
loop:
	if k < 3 { k++; goto loop }
	defer func() { total++ }()
	return strconv.Itoa(total + k)""" % locals(), {'"strconv"'})
    p.features.append("closures")


def s_crosspkg(p):
    if len(p.libs) < 2:
        return
    a, b = p.libs[0], p.libs[1]
    TA, TB, F1, F2, AL, conv = p.n("ShapeA"), p.n("ShapeB"), p.n("Alpha"), p.n("Beta"), p.n("AliasOfA"), p.n("Convert")
    p.add(a, "type %(TA)s struct {\n\t%(F1)s int `json:\"x\"`\n\t%(F2)s []string\n}\n" % locals())
    p.add(b, "type %(TB)s struct {\n\t%(F1)s int\n\t%(F2)s []string `yaml:\"y\"`\n}\ntype %(AL)s = pa.%(TA)s\nfunc %(conv)s(x pa.%(TA)s) %(TB)s { return %(TB)s(x) }\n" % locals(),
          {'pa "%s"' % p.ipath(a)})
    p.run_func("", """	x := qa.%(TA)s{%(F1)s: len(args) + 5, %(F2)s: []string{"s"}}
	y := qb.%(conv)s(x)
	var z qb.%(AL)s = qa.%(TA)s(y)
	anon := struct {
		%(F1)s int
		%(F2)s []string
	}(z)
	anon.%(F1)s++
	w := qb.%(TB)s(anon)
	return strconv.Itoa(w.%(F1)s+y.%(F1)s) + w.%(F2)s[0]""" % locals(), {'qa "%s"' % p.ipath(a), 'qb "%s"' % p.ipath(b), '"strconv"'})
    p.features.append("crosspkg")


def s_imports(p):
    if not p.libs:
        return
    a = p.libs[-1]
    V, C, fn = p.n("Exported"), p.n("Konst"), p.n("Helper")
    p.add(a, "var %(V)s = []int{3, 1, 2}\nconst %(C)s = 1 << 5\nfunc %(fn)s(x int) int { return x*%(C)s + len(%(V)s) }\nfunc init() { %(V)s = append(%(V)s, %(C)s) }\n" % locals())
    # dot import in its own file of main, blank import elsewhere
    p.add("", "func dot%(fn)s(n int) int { return %(fn)s(n) + %(V)s[0] + %(C)s }\n" % locals(), {'. "%s"' % p.ipath(a)}, k=2)
    p.add("", "var order%(fn)s []string\nfunc init() { order%(fn)s = append(order%(fn)s, \"first\") }\nfunc init() { order%(fn)s = append(order%(fn)s, \"second\") }\n" % locals(), {'_ "%s"' % p.ipath(p.libs[0])}, k=3)
    p.run_func("", "\treturn strconv.Itoa(dot%(fn)s(len(args))) + strings.Join(order%(fn)s, \"\")" % locals(), {'"strconv"', '"strings"'})
    p.features.append("imports")


def s_consts(p):
    rel = p.lib()
    K, a, b, c, T = p.n("Kind"), p.n("KindA"), p.n("KindB"), p.n("KindC"), p.n("table", False)
    p.add(rel, """
type %(K)s uint8
const (
	%(a)s %(K)s = iota + 1
	%(b)s
	%(c)s
	_
	last%(K)s
)
var %(T)s = map[%(K)s]string{%(a)s: "one", %(b)s: "two", %(c)s: "three"}
""" % locals())
    p.run_func(rel, """	k := %(K)s(len(args)%%3 + 1)
	var arr [last%(K)s]int
	arr[k] = int(k) * 7
	switch k {
	case %(a)s, %(b)s:
		return %(T)s[k] + strconv.Itoa(arr[k])
	default:
		return %(T)s[%(c)s] + strconv.Itoa(len(arr))
	}""" % locals(), {'"strconv"'})
    p.features.append("consts")


def s_generic_anon(p):
    """the shape found by C15: anonymous struct returned by a generic function, used from another package"""
    rel = p.lib()
    mk, F, G, mp = p.n("MakeAnon"), p.n("First"), p.n("Second"), p.n("MakePtr")
    p.add(rel, """
func %(mk)s[T any](v T) struct{ %(F)s T; %(G)s int } { return struct{ %(F)s T; %(G)s int }{v, 7} }
func %(mp)s[T any](v T) *struct{ %(F)s []T } { return &struct{ %(F)s []T }{[]T{v, v}} }
""" % locals())
    al = "ga%d" % p.counter
    p.run_func("", """	m := %(al)s.%(mk)s(len(args) + 1)
	q := %(al)s.%(mp)s("s")
	return strconv.Itoa(m.%(F)s+m.%(G)s) + q.%(F)s[1]""" % locals(), {'%s "%s"' % (al, p.ipath(rel)), '"strconv"'})
    p.features.append("generic_anon")


def s_methodexpr_embed_iface(p):
    rel = p.lib()
    I, m, Base, Derived, M = p.n("Shape"), p.n("area", False), p.n("Base"), p.n("Derived"), p.n("Describe", True, keep=True)
    p.add(rel, """
type %(I)s interface{ %(m)s() int }
type %(Base)s struct{ w, h int }
func (b %(Base)s) %(m)s() int { return b.w * b.h }
func (b *%(Base)s) %(M)s() string { return strconv.Itoa(b.%(m)s()) }
type %(Derived)s struct {
	*%(Base)s
	%(I)s
	scale int
}
""" % locals(), {'"strconv"'})
    p.run_func(rel, """	b := &%(Base)s{len(args) + 2, 3}
	d := %(Derived)s{%(Base)s: b, %(I)s: %(Base)s{2, 2}, scale: 2}
	f := %(Base)s.%(m)s
	return d.%(M)s() + strconv.Itoa(d.%(I)s.%(m)s()*d.scale+f(*b))""" % locals(), {'"strconv"'})
    p.features.append("methodexpr")


def s_ldflags(p):
    V = p.n("injected", False)
    p.add("", "var %(V)s = \"unset-default-value\"\n" % locals())
    p.ldflags.append("-X=main.%s=from-%s-ldflags" % (V, p.keep))
    p.run_func("", "\treturn %(V)s" % locals())
    p.features.append("ldflags")


def s_linkname(p):
    if not p.libs:
        return
    a = p.libs[0]
    target, local, T, meth = p.n("linkTarget", False), p.n("linkLocal", False), p.n("LinkType"), p.n("secret", False)
    p.add(a, """
func %(target)s(x int) int { return x*11 + 1 }
type %(T)s struct{ v int }
func (t *%(T)s) %(meth)s(d int) int { return t.v + d }
func New%(T)s(v int) *%(T)s { return &%(T)s{v} }
""" % locals())
    ip = p.ipath(a)
    p.add("", """
//go:linkname %(local)s %(ip)s.%(target)s
func %(local)s(x int) int

//go:linkname meth%(local)s %(ip)s.(*%(T)s).%(meth)s
func meth%(local)s(t *lk.%(T)s, d int) int
""" % locals(), {'_ "unsafe"', 'lk "%s"' % ip}, k=1)
    p.pkgs[""]["extra"]["empty_%s.s" % p.go] = "// empty assembly file so that bodyless functions are allowed\n"
    p.run_func("", "\treturn strconv.Itoa(%(local)s(len(args)) + meth%(local)s(lk.New%(T)s(5), 2))" % locals(), {'"strconv"', 'lk "%s"' % ip})
    p.features.append("linkname")


def s_asm(p):
    rel = "" if getattr(p, "asm_in_main", False) else p.lib()
    add, cb, v = p.n("asmAdd", False), p.n("goCallback", False), p.n("asmVar", False)
    p.add(rel, """
func %(add)s(a, b int64) int64
func %(cb)s(x int64) int64 { return x*2 + %(v)s }
var %(v)s int64 = 3
func callAsm%(add)s(x int64) int64
""" % locals(), k=0)
    p.pkgs[rel]["asm"]["f%sasm_amd64.s" % p.go] = """#include "textflag.h"

// func %(add)s(a, b int64) int64
TEXT ·%(add)s(SB),NOSPLIT,$0-24
	MOVQ a+0(FP), AX
	ADDQ b+8(FP), AX
	MOVQ AX, ret+16(FP)
	RET

// func callAsm%(add)s(x int64) int64
TEXT ·callAsm%(add)s(SB),$16-16
	MOVQ x+0(FP), AX
	MOVQ AX, 0(SP)
	CALL ·%(cb)s(SB)
	MOVQ 8(SP), AX
	ADDQ ·%(v)s(SB), AX
	MOVQ AX, ret+8(FP)
	RET
""" % locals()
    p.run_func(rel, "\treturn strconv.FormatInt(%(add)s(int64(len(args)), 40)+callAsm%(add)s(5), 10)" % locals(), {'"strconv"'})
    p.features.append("asm")
    p.asm = True


def s_tests(p):
    """adds _test files: internal test, external test package and TestMain"""
    rel = p.libs[0] if p.libs else ""
    name = p.pkgs[rel]["name"]
    fn, helper = p.n("Triple"), p.n("testHelper", False)
    p.add(rel, "func %(fn)s(x int) int { return x * 3 }\n" % locals())
    p.pkgs[rel]["extra"]["f%s_internal_test.go" % p.go] = """package %(name)s

import (
	"os"
	"testing"
)

func %(helper)s(t *testing.T, got, want int) {
	t.Helper()
	if got != want {
		t.Fatalf("got %%d want %%d", got, want)
	}
}

func TestMain(m *testing.M) { os.Exit(m.Run()) }

func Test%(fn)sInternal(t *testing.T) { %(helper)s(t, %(fn)s(2), 6) }

func TestSub%(fn)s(t *testing.T) {
	for _, n := range []int{1, 2, 3} {
		t.Run("case", func(t *testing.T) { %(helper)s(t, %(fn)s(n), 3*n) })
	}
}
""" % locals()
    ip = p.ipath(rel)
    p.pkgs[rel]["extra"]["f%s_external_test.go" % p.go] = """package %(name)s_test

import (
	"testing"

	lib "%(ip)s"
)

func Test%(fn)sExternal(t *testing.T) {
	if lib.%(fn)s(4) != 12 {
		t.Fatal("wrong")
	}
}

func Benchmark%(fn)s(b *testing.B) {
	for i := 0; i < b.N; i++ {
		lib.%(fn)s(i)
	}
}
""" % locals()
    p.tests = True
    p.features.append("tests")


def s_typeswitch_embed_alias(p):
    rel = p.lib()
    A, AL, W, f = p.n("Inner"), p.n("InnerAlias"), p.n("Wrapper"), p.n("Val")
    p.add(rel, """
type %(A)s struct{ %(f)s int }
type %(AL)s = %(A)s
type %(W)s struct {
	%(AL)s
	extra any
}
""" % locals())
    p.run_func(rel, """	w := %(W)s{%(AL)s: %(AL)s{%(f)s: len(args) + 1}, extra: 3.5}
	out := strconv.Itoa(w.%(f)s + w.%(AL)s.%(f)s)
	switch e := w.extra.(type) {
	case int:
		out += "int" + strconv.Itoa(e)
	case float64:
		out += "float" + strconv.Itoa(int(e*2))
	case nil:
		out += "nil"
	}
	return out""" % locals(), {'"strconv"'})
    p.features.append("embed_alias")


BASIC_SNIPPETS = [s_structs, s_iface, s_generics, s_closures, s_crosspkg, s_imports, s_consts, s_generic_anon,
                  s_methodexpr_embed_iface, s_typeswitch_embed_alias]
TOOLCHAIN_SNIPPETS = [s_ldflags, s_linkname, s_asm, s_tests]


def gen_program(rnd, nsnip=6, toolchain=True, npkgs=3, must=(), asm_in_main=False):
    p = Prog(rnd, npkgs=npkgs)
    p.asm_in_main = asm_in_main
    chosen = list(must)
    pool = BASIC_SNIPPETS + (TOOLCHAIN_SNIPPETS if toolchain else [])
    while len(chosen) < nsnip:
        s = rnd.choice(pool)
        if s in (s_ldflags, s_linkname, s_asm, s_tests, s_crosspkg, s_imports, s_generic_anon) and s in chosen:
            continue
        chosen.append(s)
    for s in chosen:
        s(p)
    return p


# ---------------------------------------------------------------------------------------------------------------
# reflection family (C08): every Run prints names obtained through reflection / encoding/json / %+v, never the
# package-qualified String() form (package names are obfuscated and not part of the name table)
# ---------------------------------------------------------------------------------------------------------------

REFLECT_HELPERS = '''
func %(desc)s(v any) string {
	t := reflect.TypeOf(v)
	for t.Kind() == reflect.Pointer || t.Kind() == reflect.Slice || t.Kind() == reflect.Array || t.Kind() == reflect.Map {
		t = t.Elem()
	}
	out := t.Name() + "{"
	if t.Kind() == reflect.Struct {
		for i := 0; i < t.NumField(); i++ {
			f := t.Field(i)
			out += f.Name
			ft := f.Type
			for ft.Kind() == reflect.Pointer || ft.Kind() == reflect.Slice || ft.Kind() == reflect.Array || ft.Kind() == reflect.Map {
				ft = ft.Elem()
			}
			if ft.Kind() == reflect.Struct {
				out += ":" + ft.Name() + "(" + strconv.Itoa(ft.NumField())
				for j := 0; j < ft.NumField(); j++ {
					out += "," + ft.Field(j).Name
				}
				out += ")"
			}
			out += ";"
		}
	}
	return out + "}"
}
func %(h1)s(v any) string { return %(desc)s(v) }
func %(h2)s(v any) string { return %(h1)s(v) }
func %(h3)s(vs ...any) string { out := ""; for _, v := range vs { out += %(h2)s(v) }; return out }
'''


def s_json_via_dependency(p):
    """a library package that marshals with encoding/json but does not import reflect itself; the marshalled struct type is
    declared in main and only handed over as `any`: that its field names stay readable is knowledge recorded in the
    LIBRARY's garble cache entry (which parameter of Encode reaches reflection)"""
    rel = "enc%sonly" % p.go          # a package of its own, so that nothing else makes it import reflect
    p.add_pkg(rel, "enc%spkg" % p.go)
    p.libs.append(rel)
    enc = p.n("EncodeJSON")
    p.add(rel, """
func %(enc)s(v any) string {
	b, err := json.Marshal(v)
	if err != nil {
		return err.Error()
	}
	return string(b)
}
""" % locals(), {'"encoding/json"'})
    T, f1, f2 = p.n("Config", keep=True), p.n("HostName", keep=True), p.n("PortNumber", keep=True)
    pkgname = p.pkgs[rel]["name"]
    p.add("", """
type %(T)s struct {
	%(f1)s string
	%(f2)s int
}
""" % locals())
    p.run_func("", "\treturn %(pkgname)s.%(enc)s(%(T)s{%(f1)s: \"localhost\", %(f2)s: 8000 + len(args)})" % locals(), {'"%s"' % p.ipath(rel)})
    p.features.append("json-via-dependency")


def s_reflect(p, variant=None):
    """types declared in a library package; reflected through helper chains from main and from the library itself"""
    rel = p.lib()
    rnd = p.rnd
    desc, h1, h2, h3 = p.n("Describe"), p.n("Via1"), p.n("Via2"), p.n("ViaVariadic")
    p.add(rel, REFLECT_HELPERS % locals(), {'"reflect"', '"strconv"'})
    # names that reach reflection carry the KEEP stem: they are documented to remain
    A, B, C, G, AL = p.n("Alpha", keep=True), p.n("Beta", keep=True), p.n("Gamma", keep=True), p.n("Generic", keep=True), p.n("AliasOf", keep=True)
    fa, fb, fc, fd, fe = [p.n(x, keep=True) for x in ("FieldA", "FieldB", "FieldC", "FieldD", "FieldE")]
    ua = p.n("unexp", False, keep=True)
    sink, sinkd = p.n("SinkAny"), p.n("SinkTyped")
    p.add(rel, """
type %(A)s struct { %(fa)s int; %(ua)s string }
type %(B)s struct {
	%(fb)s []%(A)s
	%(fc)s map[string]*%(A)s
	%(A)s
	%(fd)s struct{ %(fe)s [2]%(C)s }
}
type %(C)s struct{ %(fe)s bool `json:"renamed,omitempty"` }
type %(G)s[T any] struct{ %(fa)s T; %(fb)s []T }
type %(AL)s = %(C)s
var %(sink)s any
var %(sinkd)s %(A)s
""" % locals())
    al = "rf%d" % p.counter
    body = ["\tout := \"\""]
    flows = [
        "out += %(al)s.%(desc)s(%(al)s.%(A)s{})",
        "out += %(al)s.%(h1)s(&%(al)s.%(B)s{})",
        "out += %(al)s.%(h2)s([]%(al)s.%(C)s{{}})",
        "out += %(al)s.%(h3)s(%(al)s.%(G)s[int]{}, map[string]%(al)s.%(AL)s{})",
        "var d %(al)s.%(A)s; d.%(fa)s = len(args); %(al)s.%(sinkd)s = d; %(al)s.%(sink)s = d; out += %(al)s.%(h2)s(%(al)s.%(B)s{})",
        "b, _ := json.Marshal(%(al)s.%(B)s{%(fb)s: []%(al)s.%(A)s{{%(fa)s: 1}}}); out += string(b)",
        "var u %(al)s.%(C)s; _ = json.Unmarshal([]byte(`{\"renamed\":true}`), &u); out += fmt.Sprintf(\"%%+v\", u)",
    ]
    chosen = flows if variant == "all" else rnd.sample(flows, 5)
    for f in chosen:
        body.append("\t{ " + f % locals() + " }")
    body.append("\treturn out")
    p.run_func("", "\n".join(body), {'%s "%s"' % (al, p.ipath(rel)), '"encoding/json"', '"fmt"'})
    p.features.append("reflect")
    # the stored-then-passed shape (known order dependence before the fix): inside ONE function of the library, a store
    # to a global of an already reflected type precedes a helper call that is the only path of another type to reflection
    ST, AS, sf, af, gst, use = p.n("Stored", keep=True), p.n("AfterStore", keep=True), p.n("StoredField", keep=True), p.n("AfterField", keep=True), p.n("GlobalStored"), p.n("UseStored")
    p.add(rel, """
type %(ST)s struct{ %(sf)s int }
type %(AS)s struct{ %(af)s string; Nested %(ST)s }
var %(gst)s %(ST)s
func %(use)s(d %(ST)s) string { return reflect.TypeOf(d).Name() }
""" % locals(), {'"reflect"'})
    p.run_func(rel, """	var d %(ST)s
	d = %(ST)s{len(args)}
	%(gst)s = d
	%(sink)s = d
	return %(h2)s(%(AS)s{%(af)s: "x"}) + " " + %(use)s(d)""" % locals())
    # a struct type whose ONLY way to reflection is a fmt verb: garble does not treat fmt.* as reflecting APIs
    # (known finding C08); kept on its own output line so that it cannot mask anything else
    F1, F2 = p.n("OnlyFmt", keep=True), p.n("FmtField", keep=True)
    p.add(rel, "type %(F1)s struct{ %(F2)s int }\n" % locals())
    p.fmt_only_line = len(p.runs)
    p.run_func("", "\treturn fmt.Sprintf(\"%%+v|%%+v\", %(al)s.%(F1)s{%(F2)s: len(args)}, struct{ Anon%(F2)s int }{1})" % locals(), {'%s "%s"' % (al, p.ipath(rel)), '"fmt"'})


def gen_reflect_program(rnd, variant=None):
    p = Prog(rnd, npkgs=3)
    s_reflect(p, variant)
    s_consts(p)
    return p
