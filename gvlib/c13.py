"""C13 — garble map, the build and garble reverse agree on every name."""
import json, os, random, re, subprocess
from . import core, e2e, progen, c01model
from .c01model import hx, unhex, parse_list, OracleSession

PID = "C13"
GENS = ["Consts", "StdTables"]
MODULES = ["GV.Props.C13"]


def identzip(orig, garbled):
    r = subprocess.run([os.path.join(core.BUILD, "gvgen"), "identzip", orig, garbled], capture_output=True, text=True)
    if r.returncode != 0:
        return None, r.stderr.strip()
    out = {}
    for l in r.stdout.splitlines():
        off, a, b = l.split(" ")
        out[int(off)] = (a, b)
    return out, ""


def one_module(chk, E, orc, prog, gflags, extra_env, label, fails, diffs):
    root = E.write_module(label, prog.render())
    dbg = os.path.join(E.scratch, label + "_debug")
    # the build (with -debugdir so that the names it used can be read back)
    b = E.run_garble(gflags + ["-debugdir=" + dbg], ["build"] + e2e.ldflag_args(prog) + ["-o", os.path.join(root, "out"), "."], root, extra_env)
    if b.returncode != 0:
        chk.notes.append("build failed (C01's concern): " + b.stderr[-300:])
        return
    m = E.run_garble(gflags, ["map", "./..."], root, extra_env)
    if m.returncode != 0:
        fails.append({"why": "garble map fails on a module that garble build accepts", "detail": m.stderr[-800:], "key": "map-fails"})
        return
    mp = json.loads(m.stdout)
    S = OracleSession(orc, E.env(extra_env), cwd=root)
    try:
        gg = (extra_env or {}).get("GOGARBLE", "")
        a = S.ask("load %s %s %s" % (hx(root), hx(gg), hx("./...")))
        if not a.startswith("ok"):
            diffs.append({"op": "load", "impl": a, "model": "ok"})
            return
        pk = {}
        for line in parse_list(S.ask("pkgs")):
            f = line.split("|")
            pk[unhex(f[0]).decode()] = f
        libs = [prog.ipath(rel) for rel in prog.libs]
        nobj = 0
        names_to_reverse = []
        for rel in prog.libs:
            ip = prog.ipath(rel)
            toobf = pk[ip][2] == "1"
            if not toobf:
                if ip in mp:
                    fails.append({"why": "garble map lists a package outside GOGARBLE", "detail": ip, "key": "map-lists-unobfuscated"})
                continue
            if ip not in mp:
                fails.append({"why": "garble map omits an obfuscated package", "detail": ip, "key": "map-omits-package"})
                continue
            # names the build used, per identifier offset
            build_names = {}
            for fn in prog.pkgs[rel]["files"]:
                z, err = identzip(os.path.join(root, rel, fn), os.path.join(dbg, "garbled", ip, fn))
                if z is None:
                    diffs.append({"op": "identzip " + fn, "impl": err, "model": "equal identifier sequences"})
                    continue
                build_names[fn] = z
            # import path: the garbled package directory exists under the mapped path? (debugdir keeps original dirs) -> compare with -p via map only
            api = parse_list(S.ask("apiobjs " + hx(ip)))
            listed = dict(mp[ip]["objects"])
            for item in api:
                opath, name, fbase, off = item.split("|")
                off = int(off)
                if re.search(r"(A\d+|[Tr]\d+O)$", opath):
                    continue   # parameters, results and type parameters: deliberately not listed by garble map (no observable name)
                if fbase not in build_names or off not in build_names[fbase]:
                    continue
                orig, used = build_names[fbase][off]
                nobj += 1
                if orig != name:
                    diffs.append({"op": "join " + item, "impl": orig, "model": name}); continue
                renamed = used != orig
                if renamed and opath not in listed:
                    fails.append({"why": "an obfuscated object reachable through the package API is not listed by garble map",
                                  "detail": {"package": ip, "object": name, "objectpath": opath, "build_name": used}, "key": "map-omits-object"})
                elif renamed and listed[opath] != used:
                    fails.append({"why": "garble map reports a different name than the build uses",
                                  "detail": {"package": ip, "object": name, "objectpath": opath, "map": listed[opath], "build": used}, "key": "map-differs-from-build"})
                elif not renamed and opath in listed:
                    fails.append({"why": "garble map lists an object the build does not rename",
                                  "detail": {"package": ip, "object": name, "objectpath": opath, "map": listed[opath]}, "key": "map-lists-unrenamed"})
                if renamed and opath in listed:
                    names_to_reverse.append((used, name, ip, opath))
            names_to_reverse.append((mp[ip]["path"], ip, ip, "(import path)"))
        # reverse: every listed name must come back
        if names_to_reverse:
            text = "".join("%s\n" % n for n, _, _, _ in names_to_reverse)
            tf = os.path.join(E.scratch, label + "_names.txt")
            open(tf, "w").write(text)
            r = E.run_garble(gflags, ["reverse", ".", tf], root, extra_env)
            got = r.stdout.split("\n")
            for (obf, orig, ip, opath), g in zip(names_to_reverse, got):
                if g != orig:
                    fails.append({"why": "garble reverse does not map a name listed by garble map back to its original",
                                  "detail": {"package": ip, "objectpath": opath, "obfuscated": obf, "expected": orig, "reverse_output": g},
                                  "key": "reverse-misses:" + ("var" if re.fullmatch(r"[^.]+", opath) else "other")})
        st = chk.cov["streams"].setdefault("four_way", {"modules": 0, "objects_joined": 0, "names_reversed": 0})
        st["modules"] += 1; st["objects_joined"] += nobj; st["names_reversed"] += len(names_to_reverse)
        chk.count_cases(["%s|%s|%s" % (label, " ".join(gflags), o[3]) for o in names_to_reverse])
        if names_to_reverse:
            chk.add_sample({"flags": gflags, "object": names_to_reverse[0][3], "package": names_to_reverse[0][2], "obfuscated": names_to_reverse[0][0], "original": names_to_reverse[0][1]})
    finally:
        S.close()


def tagged_module(chk, E, fails, gflags):
    """build flags must reach all three commands: a file that only exists under -tags=pro"""
    mod = "gv.test/tagged-%d" % len(gflags)
    files = {"go.mod": "module %s\n\ngo 1.26\n" % mod,
             "main.go": 'package main\n\nimport (\n\t"fmt"\n\t"%s/lib"\n)\n\nfunc main() { fmt.Println(lib.Flavor(), lib.Limit) }\n' % mod,
             "lib/lib.go": "package lib\n\nvar Limit = limit()\n",
             "lib/flavor_pro.go": "//go:build pro\n\npackage lib\n\ntype ProOptions struct{ Seats int }\n\nvar ProSeats = ProOptions{Seats: 50}\n\nfunc Flavor() string { return \"pro\" }\n\nfunc limit() int { return ProSeats.Seats }\n",
             "lib/flavor_free.go": "//go:build !pro\n\npackage lib\n\nfunc Flavor() string { return \"free\" }\n\nfunc limit() int { return 3 }\n"}
    root = E.write_module("tagged%d" % len(gflags), files)
    dbg = os.path.join(E.scratch, "tagged_debug%d" % len(gflags))
    b = E.run_garble(gflags + ["-debugdir=" + dbg], ["build", "-tags=pro", "-o", os.path.join(root, "out"), "."], root)
    chk.count_cases(["tagged|%s" % " ".join(gflags)])
    if b.returncode != 0:
        chk.notes.append("tagged build failed: " + b.stderr[-300:]); return
    m = E.run_garble(gflags, ["map", "-tags=pro", "./..."], root)
    if m.returncode != 0:
        fails.append({"why": "garble map -tags=pro fails on a module that garble build -tags=pro accepts", "detail": m.stderr[-600:], "key": "map-fails"}); return
    mp = json.loads(m.stdout)
    ip = mod + "/lib"
    z, err = identzip(os.path.join(root, "lib", "flavor_pro.go"), os.path.join(dbg, "garbled", ip, "flavor_pro.go"))
    if z is None:
        chk.notes.append("identzip on the tagged file: " + err); return
    used = {orig: new for (orig, new) in z.values()}
    listed = dict(mp.get(ip, {}).get("objects", {}))
    st = chk.cov["streams"].setdefault("build_flags_reach_map_and_reverse", {"modules": 0, "objects": 0})
    st["modules"] += 1
    back = []
    for name in ("ProOptions", "ProSeats", "Flavor"):
        st["objects"] += 1
        if name not in listed:
            fails.append({"why": "garble map run with the build's flags omits an object that only exists under those flags", "detail": {"flags": "-tags=pro", "object": name}, "key": "map-ignores-build-flags"})
        elif listed[name] != used.get(name):
            fails.append({"why": "garble map run with the build's flags reports a different name than the build uses", "detail": {"flags": "-tags=pro", "object": name, "map": listed[name], "build": used.get(name)}, "key": "map-ignores-build-flags"})
        else:
            back.append((listed[name], name))
    if back:
        tf = os.path.join(E.scratch, "tagged_names%d.txt" % len(gflags))
        open(tf, "w").write("".join(o + "\n" for o, _ in back))
        r = E.run_garble(gflags, ["reverse", "-tags=pro", ".", tf], root)
        for (o, n), g in zip(back, r.stdout.split("\n")):
            if g != n:
                fails.append({"why": "garble reverse run with the build's flags does not restore a name of a file selected by those flags", "detail": {"obfuscated": o, "expected": n, "got": g}, "key": "reverse-ignores-build-flags"})


def main(tier, replay=None):
    chk = core.Check(PID, tier)
    core.build_tools()
    chk.proofs(GENS, MODULES)
    orc, err = core.build_oracle()
    E = e2e.E2E("c13")
    fails, diffs = [], []
    try:
        rnd = random.Random(chk.seed * 101 + 9)
        plan = [([], None)] if tier == "quick" else [([], None), (["-seed=o9WDTZ4CN4w"], None), (["-tiny"], None), ([], "GOGARBLE-sub")] * 3
        for i, (gflags, ggmode) in enumerate(plan):
            prog = progen.gen_program(rnd, nsnip=9, toolchain=False)
            extra = None
            if ggmode:
                extra = {"GOGARBLE": prog.ipath(prog.libs[0]) + "," + prog.mod}
            one_module(chk, E, orc, prog, gflags, extra, "m%d" % i, fails, diffs)
        tagged_module(chk, E, fails, [])
        if tier == "thorough":
            tagged_module(chk, E, fails, ["-seed=o9WDTZ4CN4w"])
    finally:
        E.cleanup()
    if diffs:
        chk.cov["broken"].append({"kind": "correspondence", "what": "%d harness disagreements, first: %s" % (len(diffs), diffs[0])})
        chk.proofs_ok = False
    seen = set()
    for f in fails:
        if f["key"] in seen:
            continue
        seen.add(f["key"])
        chk.violation(f["why"] + ": " + json.dumps(f["detail"])[:300], {"kind": "map-build-reverse", **f}, True, key=f["key"])
    chk.cov["rule"] = ("per generated module and flag set: `garble map ./...` JSON, the identifiers of the -debugdir garbled tree zipped with the original source, "
                       "x/tools objectpath of every defined object (computed in the hook, independently of commandMap), and `garble reverse` on every listed name; case = one listed name")
    chk.assumptions += ["map_eq_build / reverse_inverts_map are BY CONSTRUCTION in the model (one naming function); the content of this property is the tie",
                        "the -debugdir garbled tree is what the compiler was given (debugdir.go writes the same bytes)"]
    if not chk.proofs_ok and not chk.violations:
        what = "; ".join(b["what"] for b in chk.cov["broken"])[:1500]
        chk.violation("no longer shown to hold: " + what, {"kind": "broken-obligation", "broken": chk.cov["broken"]}, False, key="broken:" + what[:200])
    return chk.finish()
