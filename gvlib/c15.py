"""C15 — identical struct types get identical field names everywhere."""
from . import core, oracle

PID = "C15"
GENS = ["Consts"]
MODULES = ["GV.Props.C15"]


def unhex(s):
    return b"" if s == "-" else bytes.fromhex(s)


def cls_of(name):
    """go/token.IsIdentifier + IsExported for the generator's field names (letters/digits only)"""
    s = name.decode("utf-8", "replace")
    if not s.isidentifier():
        return "0"
    return "1" if s[0].isupper() else "2"


def phase2(reqs, impl):
    """Build the model-side op list from the oracle's answers: the type expressions come from go/types itself."""
    ops, expect, origin = [], [], []
    for i, (q, a) in enumerate(zip(reqs, impl)):
        f, r = q.split(" "), a.split(" ")
        if f[0] in ("seed", "cfg"):
            ops.append(q); expect.append(a); origin.append(i)
        elif f[0] == "tpair" and len(r) == 8:
            i1, o1, h1, i2, o2, h2, ign, ident = r
            for (s, h) in ((o1, h1), (o2, h2)):
                ops.append("thash " + s); expect.append(h); origin.append(i)
            # the instantiated struct hashes the same as its origin (model side: thash of the instance)
            ops.append("thash " + i1); expect.append(h1); origin.append(i)
            ops.append("thash " + i2); expect.append(h2); origin.append(i)
            ops.append("tidentm %s %s" % (i1, i2)); expect.append("%s %s" % (ign, ident)); origin.append(i)
        elif f[0] == "hfield" and len(r) == 3:
            name, fname, sx = r
            ops.append("hfieldm %s %s %s" % (sx, f[3], cls_of(unhex(fname)))); expect.append("%s %s" % (name, fname)); origin.append(i)
        elif f[0] == "hfield" and a.startswith("!panic"):
            pass  # addGarbleToHash without a binary ID; the model's panic is covered by the gaction stream
    return ops, expect, origin


def predicate(reqs, impl):
    """Property level, implementation only: IdenticalIgnoreTags(struct1, struct2) per go/types => equal typeutil_hash;
    an instantiation hashes like its origin; hashWithStruct gives corresponding fields of identical structs the same
    name; every field object has a struct in computeFieldToStruct."""
    fails = []
    names = {}
    seed = cfg = None
    for i, (q, a) in enumerate(zip(reqs, impl)):
        f, r = q.split(" "), a.split(" ")
        if f[0] == "seed":
            seed = q; names = {}
        elif f[0] == "cfg":
            cfg = q; names = {}
        elif f[0] == "tsrc" and a != "ok":
            fails.append({"index": i, "op": q[:80], "key": "generated-source-rejected", "why": "generated source does not type-check: " + unhex(r[-1]).decode("utf-8", "replace")[:300]})
        elif f[0] == "tpair" and len(r) == 8:
            if r[6] == "1" and r[2] != r[5]:
                fails.append({"index": i, "op": q, "key": "identical-structs-different-hash",
                              "why": "go/types.IdenticalIgnoreTags says the structs of %s and %s are identical but typeutil_hash gives %s vs %s" % (unhex(f[2]).decode(), unhex(f[3]).decode(), r[2], r[5])})
        elif f[0] == "hfield" and len(r) == 3:
            k = (r[2].split(",")[1:2], r[2], f[3])
            prev = names.get((r[2], f[3]))
            if prev and prev != r[0]:
                fails.append({"index": i, "op": q, "key": "field-name-unstable", "why": "same struct and field gave names %s and %s under one configuration" % (prev, r[0])})
            names[(r[2], f[3])] = r[0]
        elif f[0] == "fstruct":
            n = int(r[0])
            for x in r[1:1 + n]:
                item = unhex(x).decode("utf-8", "replace")
                if item.endswith(":missing"):
                    fails.append({"index": i, "op": q, "key": "field-without-struct", "why": "computeFieldToStruct has no struct for field %s (garble would panic)" % item})
    return fails


def main(tier, replay=None):
    chk = core.Check(PID, tier)
    core.build_tools()
    if replay:
        return oracle.replay_oracle(chk, replay, predicate)
    chk.proofs(GENS, MODULES)
    orc, err = core.build_oracle()
    if orc is None:
        chk.violation("garble does not build with -tags verif", {"stderr": err[-2000:]}, False, key="oracle-build")
        return chk.finish()
    rounds = 6 if tier == "quick" else 120
    per = 60
    diffs, fails, npairs, nident = [], [], 0, 0
    for k in range(rounds):
        ops, stats = core.gen_ops("c15", chk.seed * 1000 + k, per)
        reqs = [l for l in ops if l and not l.startswith("#")]
        impl, _ = core.run_lines(core.oracle_cmd(orc), ops)
        for f in predicate(reqs, impl):
            fails.append(dict(f, ops=reqs))
        ops2, expect, origin = phase2(reqs, impl)
        model, _ = core.run_lines(core.driver_cmd(), ops2)
        for j, (o, e, m) in enumerate(zip(ops2, expect, model)):
            if core.canon(e) != core.canon(m):
                diffs.append({"index": origin[j], "op": reqs[origin[j]][:300], "model_op": o[:300], "impl": e, "model": m, "stream": "c15 seed=%d" % (chk.seed * 1000 + k)})
        chk.count_cases(ops2)
        npairs += sum(1 for q in reqs if q.startswith("tpair"))
        nident += sum(1 for q, a in zip(reqs, impl) if q.startswith("tpair") and a.split(" ")[-2:-1] == ["1"])
        d = chk.cov["input_distribution"].setdefault("c15", {})
        for kk, v in stats.items():
            d[kk] = d.get(kk, 0) + v
        if k == 0 and ops2:
            chk.add_sample({"model_op": ops2[len(ops2) // 2][:400], "expected_from_impl": expect[len(ops2) // 2]})
    chk.cov["streams"]["c15"] = {"generated_modules": rounds, "struct_pairs": npairs, "pairs_identical_per_go_types": nident,
                                 "model_ops": chk.cov["evaluations"], "disagreements": len(diffs), "property_failures": len(fails)}
    if diffs:
        chk.cov["broken"].append({"kind": "correspondence", "what": "%d disagreements, first: %s" % (len(diffs), diffs[0])})
        chk.log("correspondence broken:", diffs[0])
    if fails:
        f = fails[0]
        chk.violation("%s: %s" % (f["why"], f["op"][:200]), {"kind": "oracle-history", "ops": f["ops"][: f["index"] + 1], "why": f["why"]}, True, key=f["key"])
    elif diffs or not chk.proofs_ok:
        what = "; ".join(b["what"] for b in chk.cov["broken"])[:1500]
        chk.violation("no longer shown to hold: " + what, {"kind": "broken-obligation", "broken": chk.cov["broken"], "first_disagreement": diffs[0] if diffs else None}, False, key="broken:" + what[:200])
    chk.cov["rule"] = ("generated 4-package modules (structs with 0-5 fields over a type pool incl. generics, aliases, embedded, anonymous; each struct re-declared in a second package "
                       "with at most one perturbation); type shapes are serialised from go/types by the hook; case = one model op (thash/tidentm/hfieldm); distinct by op text")
    chk.assumptions += ["go/types.IdenticalIgnoreTags is the reference for Go's type identity; Model/Types.identical is validated against it on every pair",
                        "interfaces are modelled by method count only (generated interfaces are empty)", "end-to-end conversions between such structs are built by the thorough tier of C01"]
    return chk.finish()
