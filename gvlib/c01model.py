"""C01/C02/C13/C14 shared: correspondence between the real naming functions (loaded through the real `go list`
route) and Model/Naming.lean, on generated modules and on the std packages they pull in."""
import os, random, re
from . import core, e2e, progen

MODULES = ["GV.Props.C01"]
GENS = ["Consts", "StdTables"]
STD_SAMPLE = ["reflect", "sync/atomic", "embed", "math/bits", "strconv", "fmt", "os", "crypto/x509/pkix", "testing", "internal/abi", "runtime"]


def hx(s):
    if isinstance(s, str):
        s = s.encode()
    return s.hex() if s else "-"


def unhex(s):
    return b"" if s == "-" else bytes.fromhex(s)


def parse_list(ans):
    f = ans.split(" ")
    n = int(f[0])
    return [unhex(x).decode("utf-8", "replace") for x in f[1:1 + n]]


class OracleSession:
    """a long-lived oracle process answering one op at a time"""

    def __init__(self, oracle, env, cwd=None):
        import subprocess
        self.p = subprocess.Popen([oracle, "verif-oracle"], stdin=subprocess.PIPE, stdout=subprocess.PIPE, stderr=subprocess.DEVNULL,
                                  env=env, cwd=cwd, text=True, bufsize=1)
        self.log = []

    def ask(self, line):
        self.p.stdin.write(line + "\n")
        self.p.stdin.flush()
        a = self.p.stdout.readline().rstrip("\n")
        self.log.append((line, a))
        return a

    def close(self):
        try:
            self.p.stdin.close()
            self.p.wait(timeout=10)
        except Exception:
            self.p.kill()


def model_answers(ops):
    out, _ = core.run_lines(core.driver_cmd(), ops)
    return out


def correspondence_for_module(chk, orc, E, root, gogarble, seed_hex, label, extra_pkgs=()):
    """returns list of disagreements; fills coverage"""
    S = OracleSession(orc, E.env(), cwd=root)
    diffs = []
    try:
        a = S.ask("load %s %s %s" % (hx(root), hx(gogarble), hx("./...")))
        if not a.startswith("ok"):
            return [{"op": "load", "impl": unhex(a.split(" ")[-1]).decode("utf-8", "replace")[:300] if " " in a else a, "model": "(go list route must succeed)"}], 0
        _, npk, binid, gg = a.split(" ")
        S.ask("seed %s" % seed_hex)
        pk = parse_list(S.ask("pkgs"))
        pkgs = {}
        for line in pk:
            f = line.split("|")
            pkgs[unhex(f[0]).decode()] = f
        mops = ["cfg 0 0 0 - 0 - %s %s" % (gg, binid), "seed %s" % seed_hex, "lpkgreset"]
        expect = ["ok", "ok", "ok"]
        for path, f in pkgs.items():
            mops.append("lpkg %s %s %s %s %s" % (f[0], f[1], f[2], f[3], f[4])); expect.append("ok")
        idents = [f[0] for path, f in pkgs.items() if re.fullmatch(r"[a-z_][a-z0-9_]*", path)]
        mops.append("identpaths " + " ".join(idents)); expect.append("ok")
        # import paths and package names
        for path, f in pkgs.items():
            if int(f[6]) == 0 and f[2] == "0":
                continue
            mops.append("impathm " + f[0]); expect.append(f[7])
            name = unhex(f[1]).decode()
            cls = "1" if name[:1].isupper() else "2"
            mops.append("pkgnamem %s %s" % (f[0], cls)); expect.append(f[8])
        # object decisions
        modpkgs = [p for p in pkgs if p.startswith("gv") and ".example/" in p]
        targets = modpkgs + [p for p in STD_SAMPLE if p in pkgs and int(pkgs[p][6]) > 0] + list(extra_pkgs)
        nobj = 0
        names_by_pkg = {}
        kinds = chk.cov["input_distribution"].setdefault("naming_object_kinds", {})
        decs = chk.cov["input_distribution"].setdefault("naming_decisions", {})
        for path in targets:
            ans = S.ask("objs " + hx(path))
            if ans.startswith("!"):
                diffs.append({"op": "objs " + path, "impl": ans, "model": "(objects listed)"})
                continue
            for d in parse_list(ans):
                desc, decision = d.split("=>")
                kind, name, cls, opath, toobf, gaid, recv, ts, intr, sh, emb = desc.split("|")
                mops.append("decidem %s %s %s %s %s %s %s %s" % (kind, name, cls, opath, recv, ts, sh, emb))
                expect.append(decision)
                nobj += 1
                kinds[kind] = kinds.get(kind, 0) + 1
                dk = decision.split(":")[0]
                decs[dk] = decs.get(dk, 0) + 1
                if opath != "-":
                    names_by_pkg.setdefault(unhex(opath).decode(), {})[name] = (kind, cls, recv)
        # linkname / asm / -X on the module's own objects (the duplicated logic)
        rnd = random.Random(len(root))
        nlink = 0
        for cur in modpkgs:
            hidden = [hx(t) for t in pkgs if (t in modpkgs or t in STD_SAMPLE) and S.ask("listpkg %s %s" % (hx(cur), hx(t))) == "notdep"]
            mops.append("hidden " + " ".join(hidden)); expect.append("ok")
            for tgt in modpkgs:
                objs = names_by_pkg.get(tgt, {})
                funcs = [n for n, (k, c, r) in objs.items() if k == "func" and r == "0"]
                meths = [n for n, (k, c, r) in objs.items() if k == "func" and r == "1"]
                typs = [n for n, (k, c, r) in objs.items() if k == "type"]
                vars_ = [n for n, (k, c, r) in objs.items() if k == "var"]
                cands = []
                for n in funcs[:12] + vars_[:6]:
                    cands.append((hx(tgt) and tgt.encode() + b"." + unhex(n), [n]))
                for t in typs[:5]:
                    for m in (meths[:4] or ["6d"]):
                        cands.append((tgt.encode() + b"." + unhex(t) + b"." + unhex(m), [t, m]))
                        cands.append((tgt.encode() + b".(*" + unhex(t) + b")." + unhex(m), [t, m]))
                # the excluded points and odd shapes
                for special in (b"init", b"main", b"TestMain"):
                    cands.append((tgt.encode() + b"." + special, [hx(special)]))
                cands += [(b"main.main", []), (b"runtime..inittask", []), (b"nodots", []), (b"unknown.example/pkg.Name", []), (tgt.encode() + b"_test.Foo", [])]
                for new, pieces in cands:
                    local = rnd.choice(funcs or ["6c6f63616c"])
                    lcls = objs.get(local, ("func", "2", "0"))[1]
                    a = S.ask("linkname %s %s %s" % (hx(cur), local, hx(new)))
                    tbl = []
                    for pc in pieces:
                        tbl += [pc, objs.get(pc, ("", "1" if unhex(pc)[:1].isupper() else "2", ""))[1]]
                    mops.append("linknamem %s %s %s %s %s" % (hx(cur), local, lcls, hx(new), " ".join(tbl)))
                    expect.append(a)
                    nlink += 1
                # assembly references and -X
                if tgt != cur:
                    continue   # import paths of generated modules contain '-', which assembly cannot spell
                for n in funcs[:10] + vars_[:5] + [hx("init"), hx("main")]:
                    cls = objs.get(n, ("", "2", ""))[1]
                    text = ("CALL ·%s(SB)" % unhex(n).decode()).encode()
                    a = S.ask("asmnames %s %s" % (hx(cur), hx(text)))
                    got = unhex(a).decode("utf-8", "replace") if not a.startswith("!") else a
                    m = re.match(r"CALL (.*)·(.*)\(SB\)$", got)
                    mops.append("asmm %s %s %s" % (hx(tgt), n, cls))
                    if m:
                        pkgpart = hx(m.group(1)) if m.group(1) else None
                        # unqualified references print no package; qualified ones the obfuscated path
                        model_pkg = "?"
                        expect.append("%s %s" % ("*", hx(m.group(2))) if pkgpart is None else "%s %s" % (pkgpart, hx(m.group(2))))
                    else:
                        expect.append("unparsed " + got)
        ans = model_answers(mops)
        for i, (o, e, m) in enumerate(zip(mops, expect, ans)):
            if o.startswith("asmm") and (e.startswith("unparsed") or m.startswith("!")):
                diffs.append({"op": o, "impl": e, "model": m})
            elif o.startswith("asmm"):
                ep, en = e.split(" ") if " " in e else (e, "")
                mp, mn = m.split(" ") if " " in m else (m, "")
                ok = (en == mn) and (ep == "*" or ep == mp or (mp == hx("?")))
                if not ok:
                    diffs.append({"op": o, "impl": e, "model": m})
            elif core.canon(e) != core.canon(m):
                diffs.append({"op": o, "impl": e, "model": m, "label": label})
        chk.count_cases(mops)
        st = chk.cov["streams"].setdefault("naming:" + label, {"packages": 0, "objects": 0, "linkname_cases": 0, "disagreements": 0})
        st["packages"] += len(targets); st["objects"] += nobj; st["linkname_cases"] += nlink; st["disagreements"] += len(diffs)
        if mops:
            k = next((i for i, o in enumerate(mops) if o.startswith("linknamem")), 0)
            chk.add_sample({"model_op": mops[k][:300], "impl_answer": expect[k][:200]})
        return diffs, nobj
    finally:
        S.close()


def correspondence(chk, tier, gogarbles=("",), seeds=("-", "a3d5834d9e02378c")):
    orc, err = core.build_oracle()
    if orc is None:
        chk.violation("garble does not build with -tags verif", {"stderr": err[-2000:]}, False, key="oracle-build")
        return
    E = e2e.E2E("naming")
    try:
        rnd = random.Random(chk.seed * 31 + 7)
        nmod = 2 if tier == "quick" else 12
        alldiffs = []
        for i in range(nmod):
            prog = progen.gen_program(rnd, nsnip=9, must=[progen.s_linkname, progen.s_asm, progen.s_tests] if i == 0 else [])
            root = E.write_module("m%d" % i, prog.render())
            for gg in gogarbles:
                for sd in (seeds if i == 0 else seeds[:1]):
                    d, n = correspondence_for_module(chk, orc, E, root, gg, sd, "module%d gogarble=%s seed=%s" % (i, gg or "*", sd))
                    alldiffs += d
        if alldiffs:
            chk.cov["broken"].append({"kind": "correspondence", "what": "naming: %d disagreements, first: %s" % (len(alldiffs), alldiffs[0])})
            chk.log("naming correspondence broken:", alldiffs[0])
            chk.proofs_ok = False
    finally:
        E.cleanup()
