"""End-to-end runner: the real garble binary (built from /repo's working tree WITHOUT the verif tag) and the regular
toolchain on generated modules, in scratch directories outside /repo and /verif."""
import hashlib, os, shutil, subprocess, tempfile, time
from . import core

CACHE_ROOT = os.environ.get("GV_CACHE", "/var/tmp/gv-cache")


class E2E:
    def __init__(self, tag="e2e", shared_cache=True):
        self.garble, err = core.build_garble()
        if self.garble is None:
            raise RuntimeError("garble does not build: " + err[-2000:])
        self.scratch = tempfile.mkdtemp(prefix="gv-%s-" % tag, dir="/var/tmp")
        # a private copy of the binary: its path is baked into -toolexec, and a stable content ID keeps caches warm
        self.bin = os.path.join(self.scratch, "bin")
        os.makedirs(self.bin)
        shutil.copy2(self.garble, os.path.join(self.bin, "garble"))
        self.garble = os.path.join(self.bin, "garble")
        self.emptymod = os.path.join(self.scratch, "emptymod")
        os.makedirs(self.emptymod)
        self.tmpdir = os.path.join(self.scratch, "tmp")
        os.makedirs(self.tmpdir)
        if shared_cache:
            self.gocache = os.path.join(CACHE_ROOT, "gocache")
            self.garblecache = os.path.join(CACHE_ROOT, "garblecache")
        else:
            self.gocache = os.path.join(self.scratch, "gocache")
            self.garblecache = os.path.join(self.scratch, "garblecache")
        os.makedirs(self.gocache, exist_ok=True)
        os.makedirs(self.garblecache, exist_ok=True)
        self.runs = 0

    def env(self, extra=None):
        e = dict(core.env())
        e.update(GOCACHE=self.gocache, GARBLE_CACHE=self.garblecache, GOMODCACHE=self.emptymod, TMPDIR=self.tmpdir,
                 GOFLAGS="-mod=mod", HOME=self.scratch, GOGARBLE=e.get("GOGARBLE", ""))
        if not e["GOGARBLE"]:
            e.pop("GOGARBLE")
        e["PATH"] = self.bin + ":" + e["PATH"]
        for k in ("GARBLE_SHARED", "GARBLE_EXPERIMENTAL_CONTROLFLOW"):
            e.pop(k, None)
        if extra:
            for k, v in extra.items():
                if v is None:
                    e.pop(k, None)
                else:
                    e[k] = v
        return e

    def run_garble(self, gflags, cmd_args, cwd, extra_env=None, timeout=900, stdin=None):
        """garble <gflags> <cmd_args...> ; returns CompletedProcess (text)"""
        self.runs += 1
        return subprocess.run([self.garble] + list(gflags) + list(cmd_args), cwd=cwd, env=self.env(extra_env),
                              capture_output=True, text=True, timeout=timeout, input=stdin, errors="replace")

    def run_go(self, args, cwd, extra_env=None, timeout=900):
        return subprocess.run(["go"] + list(args), cwd=cwd, env=self.env(extra_env), capture_output=True, text=True,
                              timeout=timeout, errors="replace")

    def write_module(self, name, files):
        root = os.path.join(self.scratch, name)
        for rel, content in files.items():
            p = os.path.join(root, rel)
            os.makedirs(os.path.dirname(p), exist_ok=True)
            with open(p, "w" if isinstance(content, str) else "wb") as f:
                f.write(content)
        return root

    def run_bin(self, path, args=(), timeout=60, extra_env=None, stdin=None):
        e = {"PATH": "/usr/bin:/bin", "HOME": self.scratch}
        if extra_env:
            e.update(extra_env)
        try:
            r = subprocess.run([path] + list(args), capture_output=True, timeout=timeout, env=e, input=stdin, cwd=self.scratch)
            return r.returncode, r.stdout, r.stderr
        except subprocess.TimeoutExpired:
            return -999, b"", b"timeout"

    def cleanup(self):
        # Go's module cache style read-only dirs do not occur here, but be robust
        subprocess.run(["chmod", "-R", "u+w", self.scratch], capture_output=True)
        shutil.rmtree(self.scratch, ignore_errors=True)


def sha256_file(p):
    h = hashlib.sha256()
    with open(p, "rb") as f:
        for b in iter(lambda: f.read(1 << 20), b""):
            h.update(b)
    return h.hexdigest()


def ldflag_args(prog):
    return ["-ldflags=" + " ".join(prog.ldflags)] if prog.ldflags else []


def build_both(E, prog, gflags, name, extra_env=None, build_args=()):
    """Writes the program, builds it with the regular toolchain (-trimpath) and with garble.
    Returns dict(root, plain, garbled, plain_err, garble_err)."""
    root = E.write_module(name, prog.render())
    res = {"root": root, "plain": None, "garbled": None}
    r = E.run_go(["build", "-trimpath"] + ldflag_args(prog) + list(build_args) + ["-o", os.path.join(root, "out_plain"), "."], root, extra_env)
    res["plain_rc"], res["plain_err"] = r.returncode, r.stderr[-3000:]
    if r.returncode == 0:
        res["plain"] = os.path.join(root, "out_plain")
    g = E.run_garble(gflags, ["build"] + ldflag_args(prog) + list(build_args) + ["-o", os.path.join(root, "out_garbled"), "."], root, extra_env)
    res["garble_rc"], res["garble_err"] = g.returncode, g.stderr[-4000:]
    if g.returncode == 0:
        res["garbled"] = os.path.join(root, "out_garbled")
    return res


ARGVS = [[], ["x"], ["7", "b", "c"]]


def compare_behaviour(E, res, argvs=ARGVS):
    """runs both binaries on each argv; returns list of differences"""
    diffs = []
    for av in argvs:
        a = E.run_bin(res["plain"], av)
        b = E.run_bin(res["garbled"], av)
        if (a[0], a[1]) != (b[0], b[1]):
            diffs.append({"argv": av, "plain": {"rc": a[0], "stdout": a[1].decode("utf-8", "replace")[-1500:], "stderr": a[2].decode("utf-8", "replace")[-500:]},
                          "garbled": {"rc": b[0], "stdout": b[1].decode("utf-8", "replace")[-1500:], "stderr": b[2].decode("utf-8", "replace")[-1500:]}})
    return diffs
