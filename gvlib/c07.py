"""C07 — missing or damaged cache entries are recomputed, never trusted."""
import itertools, os, random, shutil, subprocess
from . import core, e2e, progen, c06

PID = "C07"
GENS = ["Consts"]
MODULES = ["GV.Props.C07"]


def list_files(d):
    out = {}
    for root, _, fs in os.walk(d):
        for f in fs:
            p = os.path.join(root, f)
            out[os.path.relpath(p, d)] = os.path.getsize(p)
    return out


def apply_fault(path, kind):
    if kind == "delete":
        os.remove(path)
    elif kind == "empty":
        open(path, "wb").close()
    elif kind == "truncate":
        n = os.path.getsize(path)
        with open(path, "r+b") as f:
            f.truncate(max(0, n // 2))


def store_correspondence(chk, tier):
    """the cache library behind GARBLE_CACHE/build (PutBytes, then GetFile through a fresh handle, as loadPkgCache does) under
    faults on the entry's index and data files, vs the store model the theorems are about: every damaged entry is a miss"""
    from . import c01model
    from .c01model import hx
    orc, err = core.build_oracle()
    S = c01model.OracleSession(orc, core.env())
    rnd = random.Random(chk.seed * 97 + 6)
    mops, expect = [], []
    faults = ["none", "delete-a", "empty-a", "truncate-a", "garbage-a", "delete-d", "empty-d", "truncate-d", "append-d"]
    try:
        for _ in range(6 if tier == "quick" else 60):
            data = bytes(rnd.randrange(256) for _ in range(rnd.choice([1, 2, 31, 300, 5000])))
            for f in faults:
                a = S.ask("cachefault %s %s" % (f, hx(data)))
                mops.append("cachefaultm %s %s" % (f, hx(data))); expect.append(a)
    finally:
        S.close()
    ans = c01model.model_answers(mops)
    st = chk.cov["streams"].setdefault("oracle:cache-store", {"cases": 0, "hits": 0, "misses": 0, "disagreements": 0})
    diffs = []
    for o, e, m in zip(mops, expect, ans):
        st["cases"] += 1
        st["hits" if e.startswith("hit") else "misses"] += 1
        if e != m:
            st["disagreements"] += 1
            diffs.append({"op": o[:120], "impl": e[:80], "model": m[:80]})
    chk.count_cases(mops)
    if diffs:
        chk.cov["broken"].append({"kind": "correspondence", "what": "%d disagreements between the cache library and the store model, first: %s" % (len(diffs), diffs[0])})
        chk.log("correspondence broken:", str(diffs[0])[:300])


def main(tier, replay=None):
    chk = core.Check(PID, tier, level="proof")
    core.build_tools()
    chk.proofs(GENS, MODULES)
    store_correspondence(chk, tier)
    E = e2e.E2E("c07")
    fails = []
    try:
        rnd = random.Random(chk.seed * 41 + 3)
        prog = c06.program(rnd)
        prog._xvar = next(n for n in prog.go_names if "njected" in n)
        files0 = prog.render()
        files1 = c06.edit(files0, prog, "comment-in-main", 1)       # forces main (the dependant of everything) to be recompiled
        files1 = c06.edit(files1, prog, "body-in-dependency", 2)    # and one dependency, so that two levels are rebuilt
        hello = E.write_module("hello", {"go.mod": "module gv.test/hello\n\ngo 1.26\n", "main.go": "package main\n\nimport (\n\t\"encoding/json\"\n\t\"fmt\"\n\t\"os\"\n\t\"reflect\"\n\t\"strconv\"\n\t\"strings\"\n)\n\nfunc main() { b, _ := json.Marshal(os.Args); fmt.Println(strings.Repeat(strconv.Itoa(len(b)), 2), reflect.TypeOf(b)) }\n"})
        r = E.run_garble([], ["build", "-o", "out", "."], hello)
        base = c06.CacheSet(E, "base"); base.drop(); os.makedirs(base.dir)
        c06.copy_tree(E.gocache, base.go); c06.copy_tree(E.garblecache, base.garble)
        # cold reference of the edited source
        R = c06.CacheSet(E, "ref", base)
        refroot = os.path.join(E.scratch, "ref_src"); c06.write_prog(refroot, files1)
        rb = E.run_garble([], ["build", "-o", "out_ref", "."], refroot, R.env())
        if rb.returncode != 0:
            raise RuntimeError("reference build failed: " + rb.stderr[-500:])
        ref_hash = e2e.sha256_file(os.path.join(refroot, "out_ref"))
        _, ref_out, _ = E.run_bin(os.path.join(refroot, "out_ref"), ["a"])
        R.drop()
        # the warm state: caches after building the ORIGINAL source
        W = c06.CacheSet(E, "warm", base)
        before_g, before_go = list_files(W.garble), list_files(W.go)
        root = os.path.join(E.scratch, "src"); c06.write_prog(root, files0)
        wb = E.run_garble([], ["build", "-o", "out0", "."], root, W.env())
        if wb.returncode != 0:
            raise RuntimeError("warm build failed: " + wb.stderr[-500:])
        new_g = sorted(f for f in list_files(W.garble) if f not in before_g)
        new_go = sorted(f for f in list_files(W.go) if f not in before_go and not f.endswith("trim.txt"))
        linker = sorted(f for f in list_files(W.garble) if f.startswith("tool"))
        if not new_g:
            # the shared accelerator caches under /var/tmp/gv-cache already held this very module (someone built it there by hand):
            # the entry faults below would then be vacuous; say so instead of passing silently
            chk.log("warning: the base caches already contain the test module; only linker and whole-cache faults are exercised (remove /var/tmp/gv-cache and run ./setup.sh)")
            chk.assumptions.append("DEGENERATE RUN: the base caches already contained the test module, so no per-entry fault was exercised")
        targets = [("garble", f) for f in new_g] + [("garble", f) for f in linker]
        go_sample = new_go if tier == "thorough" else rnd.sample(new_go, min(6, len(new_go)))
        targets += [("go", f) for f in go_sample]
        kinds = ["delete", "empty", "truncate"]
        cases = [[(w, f, k)] for (w, f) in targets for k in kinds]
        # subsets: all 2^k subsets for a small k of the module's garble entries, and whole-cache deletions
        sub = [("garble", f) for f in new_g][:4]
        for r_ in range(2, len(sub) + 1):
            for comb in itertools.combinations(sub, r_):
                cases.append([(w, f, rnd.choice(kinds)) for (w, f) in comb])
        cases += [[("garble", "*", "wipe")], [("go-module", "*", "wipe")], [("garble", "*", "wipe"), ("go-module", "*", "wipe")], [("garble-build", "*", "wipe")]]
        # what a kill during the linker build leaves: a partial binary and no version file yet
        lk_bin = next((f for f in linker if f.endswith("link")), None)
        lk_ver = next((f for f in linker if f.endswith(".version")), None)
        partial_linker = [[("garble", lk_bin, "truncate"), ("garble", lk_ver, "delete")], [("garble", lk_bin, "empty"), ("garble", lk_ver, "delete")]] if lk_bin and lk_ver else []
        cases += partial_linker
        if tier == "quick":
            single = cases[: len(targets) * 3]
            lk = [c for c in single if c[0][1].startswith("tool")]
            other = [c for c in single if not c[0][1].startswith("tool")]
            rnd.shuffle(other)
            # each linker fault costs a linker rebuild (~13 s): three of them in the quick tier
            lk_pick = [c for c in lk if (c[0][1].endswith("link") and c[0][2] in ("empty", "truncate", "delete")) or (c[0][1].endswith(".version") and c[0][2] == "delete")]
            cases = other[:18] + lk_pick + cases[len(targets) * 3:][:5] + cases[-4 - len(partial_linker):]
        st = chk.cov["streams"].setdefault("e2e:faults", {"entries_of_module_in_GARBLE_CACHE": len(new_g), "entries_of_module_in_GOCACHE": len(new_go), "linker_files": len(linker), "fault_cases": 0, "identical_to_cold": 0})
        for case in cases:
            C = c06.CacheSet(E, "case", W)
            try:
                for (which, f, kind) in case:
                    if kind == "wipe":
                        if which == "garble":
                            shutil.rmtree(C.garble); os.makedirs(C.garble)
                        elif which == "garble-build":
                            shutil.rmtree(os.path.join(C.garble, "build"), ignore_errors=True)
                        else:
                            for g in new_go:
                                p = os.path.join(C.go, g)
                                if os.path.exists(p):
                                    os.remove(p)
                    else:
                        p = os.path.join(C.garble if which == "garble" else C.go, f)
                        if os.path.exists(p):
                            apply_fault(p, kind)
                croot = os.path.join(E.scratch, "case_src"); shutil.rmtree(croot, ignore_errors=True); c06.write_prog(croot, files1)
                b = E.run_garble([], ["build", "-o", "out", "."], croot, C.env())
                st["fault_cases"] += 1
                chk.count_cases(["fault|" + ";".join("%s:%s:%s" % c_ for c_ in case)])
                desc = [{"cache": w, "entry": f, "fault": k} for (w, f, k) in case]
                if b.returncode != 0:
                    fails.append({"why": "the build after a cache fault fails", "detail": {"faults": desc, "stderr": b.stderr[-1200:]}, "key": "fault-build-fails:" + ";".join("%s:%s" % (d["cache"], d["fault"]) for d in desc)})
                    continue
                h = e2e.sha256_file(os.path.join(croot, "out"))
                if h == ref_hash:
                    st["identical_to_cold"] += 1
                else:
                    _, out, _ = E.run_bin(os.path.join(croot, "out"), ["a"])
                    fails.append({"why": "the build after a cache fault differs from the build from empty caches", "detail": {"faults": desc, "behaviour_differs": out != ref_out,
                                  "got": out.decode("utf-8", "replace")[-300:], "want": ref_out.decode("utf-8", "replace")[-300:]}, "key": "fault-build-differs:" + ";".join("%s:%s" % (d["cache"], d["fault"]) for d in desc)})
            finally:
                C.drop()
        chk.add_sample({"faults": [{"cache": w, "entry": f, "fault": k} for (w, f, k) in cases[0]], "then": "edit main and one dependency, rebuild, compare with the cold reference"})
        W.drop(); base.drop()
    finally:
        E.cleanup()
    seen = set()
    for f in fails:
        if f["key"] not in seen:
            seen.add(f["key"])
            chk.violation(f["why"] + ": " + str(f["detail"])[:500], {"kind": "cache-fault", **f}, True, key=f["key"])
    chk.cov["rule"] = ("a reflect-using three-package module is built (warm state); then for each fault case - every single entry (index -a and data -d files) that the build added to GARBLE_CACHE, "
                       "the patched linker and its version stamp, sampled entries it added to GOCACHE, each deleted / emptied / truncated; all subsets of up to 4 GARBLE_CACHE entries; whole-cache wipes - "
                       "the caches are restored to the warm state, the fault applied, main and a dependency edited, and the rebuild compared byte for byte with a build from caches that never saw the module")
    chk.assumptions += ["a same-size corrupted data file (not reachable by deletion, truncation or a crash during a write) is outside the quantifier",
                        "the go command's own handling of damaged GOCACHE entries is its contract; sampled"]
    return chk.finish()
