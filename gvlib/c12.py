"""C12 — name salting: fixed by -seed, otherwise tied to the build inputs."""
from . import core, oracle

PID = "C12"
GENS = ["Consts"]
MODULES = ["GV.Props.C12"]


def predicate(reqs, impl):
    """On the implementation's answers only.  Seeded: the name of (seed, path, name) must not move with cfg / action IDs,
    and must move with the seed and with the path.  Unseeded: two different relevant input tuples must not share a
    garble action ID (2^-256 otherwise), and the magic/entry-offset values must follow the same inputs."""
    fails = []
    seed, cfg, pkgs = "-", None, {}
    seeded, by_np, gact = {}, {}, {}
    for i, (q, a) in enumerate(zip(reqs, impl)):
        f = q.split(" ")
        if f[0] == "seed":
            seed = f[1]
        elif f[0] == "cfg":
            cfg = f[1:]
        elif f[0] == "pkg":
            pkgs[f[1]] = f[2]
        elif f[0] == "hpkg" and not a.startswith("!") and seed != "-":
            k = (seed, f[1], f[2])
            if k in seeded and seeded[k][0] != a:
                fails.append({"index": i, "op": q, "why": "with -seed, the name of one (seed, package path, identifier) changed between two builds that differ only in other inputs (flags/action ID): %s vs %s" % (seeded[k][0], a), "key": "seeded-name-moves"})
            seeded.setdefault(k, (a, i))
            # same path+name under another seed / same seed+name under another path must differ
            for (s2, p2, n2), (a2, _) in list(seeded.items()):
                if n2 == f[2] and a2 == a and (s2, p2) != (seed, f[1]):
                    fails.append({"index": i, "op": q, "why": "with -seed, identifier got the same name %s under (seed,path)=(%s,%s) and (%s,%s)" % (a, s2, p2, seed, f[1]), "key": "seeded-name-does-not-separate"})
        elif f[0] == "gaction" and not a.startswith("!") and cfg is not None:
            literals, tiny, debug, debugdir, ctrl, testobf, gg, binid = cfg
            tup = (f[1], binid, literals, tiny, seed, ctrl, testobf, gg)
            if a in gact and gact[a] != tup:
                fails.append({"index": i, "op": q, "why": "two different sets of build inputs share one garble action ID %s: %s vs %s" % (a[:16], gact[a], tup), "key": "garble-action-collision"})
            gact.setdefault(a, tup)
    return fails


def main(tier, replay=None):
    chk = core.Check(PID, tier)
    core.build_tools()
    if replay:
        return oracle.replay_oracle(chk, replay, predicate)
    chk.proofs(GENS, MODULES)
    n = 6000 if tier == "quick" else 200000
    specs = [("c12", chk.seed, n), ("c16", chk.seed + 1, 3000 if tier == "quick" else 50000)]
    oracle.oracle_property(chk, specs, predicate, [("c12", chk.seed + 7919 * k, 100000) for k in range(1, 4)],
                           explain="`cfg literals tiny debug debugdir ctrlflow testobf gogarble binid`, `pkg path garbleActionID`, `hpkg path name class` = hashWithPackage, `gaction x` = addGarbleToHash(x)")
    chk.cov["rule"] = ("histories over few seeds/paths/names/action IDs and many configurations (incl. GOGARBLE values that look like flags); case = op line; distinct = distinct op lines")
    chk.assumptions += ["SHA-256 collision resistance on the compared pre-images", "cmd/go's action ID covers source, tags, GOOS/GOARCH and Go version (sampled end-to-end by C06/C03 only)",
                        "import paths contain no '|' (module.CheckImportPath)"]
    return chk.finish()
