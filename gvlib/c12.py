"""C12 — name salting: fixed by -seed, otherwise tied to the build inputs."""
from . import core, oracle

PID = "C12"
GENS = ["Consts"]
MODULES = ["GV.Props.C12"]


def predicate(reqs, impl):
    """On the implementation's answers only.  Seeded: the name of (seed, path, name) must not move with cfg / action IDs,
    and must move with the seed and with the path.  Unseeded: two different relevant input tuples must not share a
    garble action ID (2^-256 otherwise), and the magic/entry-offset values must follow the same inputs."""
    fails = []
    seed, cfg, pkgs = "-", None, {}
    seeded, by_np, gact = {}, {}, {}
    for i, (q, a) in enumerate(zip(reqs, impl)):
        f = q.split(" ")
        if f[0] == "seed":
            seed = f[1]
        elif f[0] == "cfg":
            cfg = f[1:]
        elif f[0] == "pkg":
            pkgs[f[1]] = f[2]
        elif f[0] == "hpkg" and not a.startswith("!") and seed != "-":
            k = (seed, f[1], f[2])
            if k in seeded and seeded[k][0] != a:
                fails.append({"index": i, "op": q, "why": "with -seed, the name of one (seed, package path, identifier) changed between two builds that differ only in other inputs (flags/action ID): %s vs %s" % (seeded[k][0], a), "key": "seeded-name-moves"})
            seeded.setdefault(k, (a, i))
            # same path+name under another seed / same seed+name under another path must differ
            for (s2, p2, n2), (a2, _) in list(seeded.items()):
                if n2 == f[2] and a2 == a and (s2, p2) != (seed, f[1]):
                    fails.append({"index": i, "op": q, "why": "with -seed, identifier got the same name %s under (seed,path)=(%s,%s) and (%s,%s)" % (a, s2, p2, seed, f[1]), "key": "seeded-name-does-not-separate"})
        elif f[0] == "gaction" and not a.startswith("!") and cfg is not None:
            literals, tiny, debug, debugdir, ctrl, testobf, gg, binid = cfg
            tup = (f[1], binid, literals, tiny, seed, ctrl, testobf, gg)
            if a in gact and gact[a] != tup:
                fails.append({"index": i, "op": q, "why": "two different sets of build inputs share one garble action ID %s: %s vs %s" % (a[:16], gact[a], tup), "key": "garble-action-collision"})
            gact.setdefault(a, tup)
    return fails


MAP_FILES = {
    "go.mod": "module gv.test/salt\n\ngo 1.26\n",
    "main.go": 'package main\n\nimport (\n\t"fmt"\n\t"gv.test/salt/lib"\n\t"gv.test/salt/other"\n)\n\nfunc main() { fmt.Println(lib.Make(3).Describe(), other.Count) }\n',
    "lib/lib.go": "package lib\n\nimport \"fmt\"\n\ntype Widget struct {\n\tSize  int\n\tLabel string\n}\n\nvar Default = Widget{Size: 1}\n\nfunc Make(n int) Widget { return Widget{Size: n, Label: \"w\"} }\n\nfunc (w Widget) Describe() string { return fmt.Sprint(w.Size, w.Label) }\n",
    "lib/tagged.go": "//go:build extra\n\npackage lib\n\nvar Extra = 1\n",
    "other/o.go": "package other\n\nvar Count = 7\n\ntype Widget struct {\n\tSize  int\n\tLabel string\n}\n",
}


def map_pairs(chk, tier, fails):
    """the property's own observable: complete name maps (garble map) of two runs that differ in exactly one input"""
    import json, os
    from . import e2e, c06
    E = e2e.E2E("c12")
    st = chk.cov["streams"].setdefault("e2e:map-pairs", {"maps": 0, "pairs": 0})
    try:
        def names(files, gflags, args=(), tag="m"):
            root = os.path.join(E.scratch, tag)
            import shutil
            shutil.rmtree(root, ignore_errors=True)
            c06.write_prog(root, files)
            r = E.run_garble(gflags, ["map"] + list(args) + ["./..."], root)
            st["maps"] += 1
            if r.returncode != 0:
                raise RuntimeError("garble map failed: " + r.stderr[-400:])
            m = json.loads(r.stdout)
            out = {}
            for ip, d in m.items():
                if not ip.startswith("gv.test/salt"):
                    continue
                if d["path"] != "main":
                    out[(ip, "(import path)")] = d["path"]
                for op, n in d["objects"].items():
                    out[(ip, op)] = n
            return out
        def is_field(k):
            import re
            return re.search(r"F\d+$", k[1]) is not None      # objectpath of a struct field (T.UF0, ...)
        def pair(label, a, b, must_equal=None, must_differ=None):
            st["pairs"] += 1
            chk.count_cases(["map-pair|" + label])
            for k in sorted(set(a) & set(b)):
                if must_equal and must_equal(k) and a[k] != b[k]:
                    fails.append({"why": "a name that must not depend on the changed input changed", "detail": {"pair": label, "package": k[0], "object": k[1], "first": a[k], "second": b[k]}, "key": "name-moves:" + label}); return
                if must_differ and must_differ(k) and a[k] == b[k]:
                    fails.append({"why": "a name that must depend on the changed input did not change", "detail": {"pair": label, "package": k[0], "object": k[1], "name": a[k]}, "key": "name-stays:" + label}); return
        S1, S2, S3 = "c2VlZHNlZWQtb25l", "c2VlZHNlZWQtdHdv", "AAECAwQFBgc"          # S1 and S2 share their first 8 bytes
        edited = dict(MAP_FILES, **{"lib/lib.go": MAP_FILES["lib/lib.go"] + "\n// a comment-only edit\n"})
        edited_other = dict(MAP_FILES, **{"other/o.go": MAP_FILES["other/o.go"] + "\nfunc Unrelated() int { return 1 }\n"})
        everything = lambda k: True
        # seeded
        base = names(MAP_FILES, ["-seed=" + S1])
        pair("seeded: -literals added", base, names(MAP_FILES, ["-seed=" + S1, "-literals"]), must_equal=everything)
        pair("seeded: -tiny added", base, names(MAP_FILES, ["-seed=" + S1, "-tiny"]), must_equal=everything)
        pair("seeded: edit in another package", base, names(edited_other, ["-seed=" + S1]), must_equal=everything)
        pair("seeded: edit in the package", base, names(edited, ["-seed=" + S1]), must_equal=everything)
        pair("seeded: build tag", base, names(MAP_FILES, ["-seed=" + S1], ["-tags=extra"]), must_equal=everything)
        pair("seeded: another seed with the same first 8 bytes", base, names(MAP_FILES, ["-seed=" + S2]), must_differ=everything)
        pair("seeded: another seed", base, names(MAP_FILES, ["-seed=" + S3]), must_differ=everything)
        same_named = [(("gv.test/salt/lib", op), ("gv.test/salt/other", op)) for op in ("Widget",)]
        for ka, kb in same_named:
            if ka in base and kb in base and base[ka] == base[kb]:
                fails.append({"why": "with -seed, the same identifier gets the same name in two packages", "detail": {"object": ka[1], "name": base[ka]}, "key": "seeded-name-does-not-separate-packages"})
        for op in ("Widget.F0", "Widget.F1"):
            ka, kb = ("gv.test/salt/lib", op), ("gv.test/salt/other", op)
            if ka in base and kb in base and base[ka] != base[kb]:
                fails.append({"why": "fields of identical structs get different names in two packages", "detail": {"field": op, "names": [base[ka], base[kb]]}, "key": "field-names-differ-across-packages"})
        # unseeded
        u = names(MAP_FILES, [])
        in_lib_pkg_scoped = lambda k: k[0] == "gv.test/salt/lib" and not is_field(k)
        pair("unseeded: comment-only edit in the package", u, names(edited, []), must_differ=in_lib_pkg_scoped,
             must_equal=lambda k: is_field(k) or k[0] == "gv.test/salt/other")
        pair("unseeded: -tiny added", u, names(MAP_FILES, ["-tiny"]), must_differ=everything)
        if tier == "thorough":
            pair("unseeded: -literals added", u, names(MAP_FILES, ["-literals"]), must_differ=everything)
            pair("unseeded: same inputs again", u, names(MAP_FILES, []), must_equal=everything)
    finally:
        E.cleanup()


def main(tier, replay=None):
    chk = core.Check(PID, tier)
    core.build_tools()
    if replay:
        return oracle.replay_oracle(chk, replay, predicate)
    chk.proofs(GENS, MODULES)
    FAILS = []
    n = 6000 if tier == "quick" else 200000
    specs = [("c12", chk.seed, n), ("c16", chk.seed + 1, 3000 if tier == "quick" else 50000)]
    oracle.oracle_property(chk, specs, predicate, [("c12", chk.seed + 7919 * k, 100000) for k in range(1, 4)],
                           explain="`cfg literals tiny debug debugdir ctrlflow testobf gogarble binid`, `pkg path garbleActionID`, `hpkg path name class` = hashWithPackage, `gaction x` = addGarbleToHash(x)")
    map_pairs(chk, tier, FAILS)
    for f in FAILS:
        chk.violation(f["why"] + ": " + str(f["detail"])[:400], {"kind": "map-pair", **f}, True, key=f["key"])
    chk.cov["rule"] = ("histories over few seeds/paths/names/action IDs and many configurations (incl. GOGARBLE values that look like flags); case = op line; distinct = distinct op lines")
    chk.assumptions += ["SHA-256 collision resistance on the compared pre-images", "cmd/go's action ID covers source, tags, GOOS/GOARCH and Go version (sampled end-to-end by C06/C03 only)",
                        "import paths contain no '|' (module.CheckImportPath)"]
    return chk.finish()
