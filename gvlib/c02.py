"""C02 — the binary carries no original names, paths, positions or build metadata."""
import os, random, re, struct, subprocess
from . import core, e2e, progen, c01model
from .c01model import hx, unhex, parse_list, OracleSession

PID = "C02"
GENS = ["Consts", "StdTables", "FlagTables", "GoFlags"]
MODULES = ["GV.Props.C02"]


def documented(desc, decision):
    """the property's exception list, evaluated on the implementation's own descriptor (impl-level oracle)"""
    kind, name, cls, opath, toobf, gaid, recv, ts, intr, sh, emb = desc.split("|")
    if decision != "keep":
        return True
    if emb == "?":
        return True      # embedded predeclared type
    if emb != "-":
        tn, tcls, tpath = emb.split(",")
        return documented("|".join(["type", tn, tcls, tpath, toobf if tpath == opath else "?", gaid, "0", "0", "0", "-", "-"]), decision)
    nm = unhex(name).decode("utf-8", "replace")
    path = unhex(opath).decode() if opath != "-" else None
    if path is None or toobf in ("0", "?") or kind in ("const", "pkgname", "label", "other"):
        return True
    if (path in ("sync/atomic", "runtime/internal/atomic") and nm == "align64") or (path == "embed" and nm == "FS") or \
       (path == "reflect" and nm in ("Method", "MethodByName")) or (path == "crypto/x509/pkix" and nm.endswith("SET")):
        return True
    if kind == "func":
        if intr == "1" or (cls == "1" and recv == "1") or nm in ("main", "init", "TestMain") or (nm.startswith("Test") and ts == "1"):
            return True
    return False


def elf_sections(path):
    """section names of an ELF64 little-endian file"""
    with open(path, "rb") as f:
        d = f.read()
    if d[:4] != b"\x7fELF":
        return []
    shoff = struct.unpack_from("<Q", d, 0x28)[0]
    shentsize, shnum, shstrndx = struct.unpack_from("<HHH", d, 0x3A)
    if shoff == 0 or shnum == 0:
        return []
    secs = [struct.unpack_from("<IIQQQQIIQQ", d, shoff + i * shentsize) for i in range(shnum)]
    stroff = secs[shstrndx][4]
    names = []
    for s in secs:
        e = d.index(b"\0", stroff + s[0])
        names.append(d[stroff + s[0]:e].decode())
    return names


def oracle_part(chk, tier):
    orc, err = core.build_oracle()
    if orc is None:
        chk.violation("garble does not build with -tags verif", {"stderr": err[-2000:]}, False, key="oracle-build")
        return
    E = e2e.E2E("c02o")
    try:
        rnd = random.Random(chk.seed * 13 + 5)
        nmod = 1 if tier == "quick" else 6
        diffs, fails = [], []
        for i in range(nmod):
            prog = progen.gen_program(rnd, nsnip=8, must=[progen.s_ldflags, progen.s_linkname])
            root = E.write_module("m%d" % i, prog.render())
            for tiny in (False, True):
                S = OracleSession(orc, E.env(), cwd=root)
                try:
                    a = S.ask("load %s - %s" % (hx(root), hx("./...")))
                    if not a.startswith("ok"):
                        diffs.append({"op": "load", "impl": a, "model": "ok"}); continue
                    _, npk, binid, gg = a.split(" ")
                    cfgline = "cfg 0 %d 0 - 0 - %s %s" % (1 if tiny else 0, gg, binid)
                    S.ask(cfgline)
                    pk = {}
                    for line in parse_list(S.ask("pkgs")):
                        f = line.split("|")
                        pk[unhex(f[0]).decode()] = f
                    mops = [cfgline, "seed -", "lpkgreset"] + ["lpkg %s %s %s %s %s" % (f[0], f[1], f[2], f[3], f[4]) for f in pk.values()]
                    mops.append("identpaths " + " ".join(f[0] for p, f in pk.items() if re.fullmatch(r"[a-z_][a-z0-9_]*", p)))
                    expect = ["ok"] * len(mops)
                    modpkgs = [p for p in pk if p.startswith("gv") and ".example/" in p]
                    main = prog.mod
                    deps_of_main = [p for p in sorted(pk) if S.ask("listpkg %s %s" % (hx(main), hx(p))) == "found"]
                    # (1) kept => documented, on the implementation's dump
                    nobj = 0
                    for path in modpkgs + ["fmt", "os", "strconv", "reflect", "embed", "sync/atomic"]:
                        if path not in pk:
                            continue
                        ans = S.ask("objs " + hx(path))
                        if ans.startswith("!"):
                            continue
                        for d in parse_list(ans):
                            desc, decision = d.split("=>")
                            nobj += 1
                            if not documented(desc, decision.split(":")[0]):
                                fails.append({"why": "an obfuscatable object keeps its original name without a documented reason", "detail": d, "op": "objs " + path, "key": "undocumented-keep"})
                    # (2) link command lines
                    varnames = [n for n in prog.go_names if "injected" in n]
                    for k in range(6 if tier == "quick" else 25):
                        lines = ["# import config", "modinfo \"0w\\xaf\\f\\x92t\\b\\x02A\\xe1\\xc1\\a\\xe6\\xd6\\x18\\xe6path\\tcommand-line-arguments\\n\"", ""]
                        for p in rnd.sample(deps_of_main, min(len(deps_of_main), 5)) + modpkgs:
                            lines.append("packagefile %s=/cache/%s.a" % (p, rnd.randrange(10 ** 6)))
                        if rnd.random() < 0.5:
                            lines.append("packageshlib foo=bar")
                        rnd.shuffle(lines)
                        content = ("\n".join(lines) + "\n").encode()
                        args = ["-o", "/tmp/x/a.out", "-importcfg", "@CFG@"]
                        if rnd.random() < 0.5:
                            args = ["-o", "/tmp/x/a.out", "-importcfg=@CFG@"]
                        table = []
                        for v in varnames[: rnd.randrange(3)]:
                            args.append("-X=main.%s=value %d" % (v, k))
                            table += [hx(v), "2"]
                        if rnd.random() < 0.4 and len(modpkgs) > 1:
                            args.append("-X=%s.SomeVar=v" % modpkgs[1]); table += [hx("SomeVar"), "1"]
                        if rnd.random() < 0.3:
                            args.append("-X=unknown.example/pkg.Name=zzz"); table += [hx("Name"), "1"]
                        if rnd.random() < 0.5:
                            args += ["-s", "-w"]
                        args += ["-buildmode=exe", "-buildid=%s/%s" % ("a" * 20, "b" * 20), "-extld=gcc", "/cache/main.a"]
                        if rnd.random() < 0.2:
                            args.insert(2, "-buildid"); args.insert(3, "oldstyle")
                        a = S.ask("linkargs %s %s %s" % (hx(main), hx(content), " ".join(hx(x) for x in args)))
                        mops.append("linkargsm %s %s %d %s %s" % (hx(main), hx(content), len(table) // 2, " ".join(table), " ".join(hx(x) for x in args)))
                        mops[-1] = re.sub(r"\s+", " ", mops[-1])
                        expect.append(a)
                        # property level, implementation only
                        if not a.startswith("err"):
                            out, _, cfg = a.partition(" | ")
                            toks = [unhex(x).decode("utf-8", "replace") for x in out.split(" ")[1:]]
                            newcfg = unhex(cfg).decode("utf-8", "replace")
                            why = None
                            if "-w" not in toks or "-s" not in toks:
                                why = "link step lacks -w/-s (DWARF and symbol table would remain)"
                            elif "-X=runtime.buildVersion=unknown" not in toks:
                                why = "link step lacks -X=runtime.buildVersion=unknown (Go version would remain)"
                            elif not any(t == "-buildid=" for t in toks) and not ("-buildid" in toks and toks[toks.index("-buildid") + 1] == ""):
                                why = "link step keeps a build id: %r" % [t for t in toks if "buildid" in t]
                            elif any(l and not (l.startswith("packagefile ") or l.startswith("importmap ")) for l in newcfg.split("\n")):
                                why = "rewritten importcfg keeps a line other than packagefile/importmap (modinfo carries module and VCS data)"
                            elif any(p in newcfg for p in modpkgs if p != main):
                                why = "rewritten importcfg names an obfuscated package by its original import path"
                            if why:
                                fails.append({"why": why, "detail": {"args": args, "result": toks, "importcfg": newcfg}, "op": "linkargs", "key": why.split(" (")[0]})
                    # (3) positions: printFile's hashed names vs the model on the reference call offsets
                    npos = 0
                    for rel, p in list(prog.pkgs.items())[:2]:
                        for fn in list(p["files"])[:2]:
                            path = os.path.join(root, rel, fn)
                            offs = subprocess.run([os.path.join(core.BUILD, "gvgen"), "callofs", path], capture_output=True, text=True).stdout.split()
                            a = S.ask("printfile %s %s" % (hx(prog.ipath(rel)), hx(fn)))
                            if a.startswith("!") or a.startswith("err"):
                                diffs.append({"op": "printfile " + fn, "impl": a, "model": "(printed file)"}); continue
                            src = unhex(a).decode("utf-8", "replace")
                            got = re.findall(r"/\*line (\S*):1\*/", src)
                            if not src.startswith("//line :1\n"):
                                fails.append({"why": "obfuscated file does not start with the empty //line :1 directive", "detail": src[:80], "op": "printfile", "key": "no-empty-line-directive"})
                            if re.search(r"//(?!go:|line )", re.sub(r'"(?:[^"\\]|\\.)*"|`[^`]*`', '""', src)):
                                pass  # strings may contain //; comment removal is checked by the e2e scan of comment markers
                            for j, o in enumerate(offs):
                                mops.append("posm %s %s %s" % (hx(prog.ipath(rel)), hx(fn), o))
                                expect.append(hx(got[j]) if j < len(got) else "(missing directive)")
                                npos += 1
                            if len(got) != len(offs):
                                diffs.append({"op": "printfile " + fn, "impl": "%d line directives" % len(got), "model": "%d call positions" % len(offs)})
                            if tiny and any(g for g in got):
                                fails.append({"why": "-tiny leaves a file name in a line directive", "detail": got[:3], "op": "printfile", "key": "tiny-position-not-empty"})
                            if not tiny and any(fn in g or prog.go in g for g in got):
                                fails.append({"why": "a line directive carries the original file name", "detail": got[:3], "op": "printfile", "key": "position-leaks-filename"})
                    ans = c01model.model_answers(mops)
                    for o, e, m in zip(mops, expect, ans):
                        if core.canon(e) != core.canon(m):
                            diffs.append({"op": o[:400], "impl": e[:600], "model": m[:600]})
                    chk.count_cases(mops)
                    st = chk.cov["streams"].setdefault("oracle", {"objects_checked_documented": 0, "link_command_lines": 0, "positions": 0})
                    st["objects_checked_documented"] += nobj
                    st["link_command_lines"] += 6 if tier == "quick" else 25
                    st["positions"] += npos
                    if i == 0 and not tiny:
                        k = next((j for j, o in enumerate(mops) if o.startswith("linkargsm")), 0)
                        chk.add_sample({"model_op": mops[k][:300], "impl_answer": expect[k][:300]})
                finally:
                    S.close()
        if diffs:
            chk.cov["broken"].append({"kind": "correspondence", "what": "%d disagreements, first: %s" % (len(diffs), diffs[0])})
            chk.log("correspondence broken:", str(diffs[0])[:600])
            chk.proofs_ok = False
        for f in fails[:1]:
            chk.violation(f["why"], {"kind": "oracle", **f}, True, key=f["key"])
    finally:
        E.cleanup()


def scan_binary(chk, E, prog, res, gflags):
    """returns list of leaks"""
    out = []
    data = open(res["garbled"], "rb").read()
    for needle, what in ((prog.go.encode(), "an obfuscatable identifier / file / directory / module name (stem %s)" % prog.go),
                         (E.scratch.encode(), "the source directory path"), (E.tmpdir.encode(), "the TMPDIR path"),
                         (b"garble-shared", "garble's temporary directory name"), (b"go1.26", "the Go version")):
        i = data.find(needle)
        if i >= 0:
            ctx = data[max(0, i - 40): i + 60]
            out.append({"why": "binary contains " + what, "detail": repr(ctx), "features": prog.features, "garble_flags": gflags})
    secs = elf_sections(res["garbled"])
    bad = [s for s in secs if s in (".symtab", ".strtab") or s.startswith(".debug_") or s.startswith(".zdebug_") or s == ".note.go.buildid" and False]
    if bad:
        out.append({"why": "binary has symbol table / DWARF sections", "detail": bad, "features": prog.features, "garble_flags": gflags})
    r = E.run_go(["version", "-m", res["garbled"]], res["root"])
    if re.search(r"^\s+(path|mod|dep|build)\s", r.stdout, re.M):
        out.append({"why": "binary carries module / build information (go version -m)", "detail": r.stdout[-600:], "features": prog.features, "garble_flags": gflags})
    r = E.run_go(["tool", "buildid", res["garbled"]], res["root"])
    if r.stdout.strip():
        out.append({"why": "binary carries a build ID", "detail": r.stdout.strip(), "features": prog.features, "garble_flags": gflags})
    return out


def e2e_part(chk, tier):
    rnd = random.Random(chk.seed * 977 + 3)
    E = e2e.E2E("c02")
    try:
        plan = [[]] if tier == "quick" else [[], ["-tiny"], ["-literals", "-seed=o9WDTZ4CN4w"], ["-seed=o9WDTZ4CN4w"]] * 3
        for i, gflags in enumerate(plan):
            prog = progen.gen_program(rnd, nsnip=9, must=[progen.s_asm, progen.s_linkname, progen.s_ldflags, progen.s_method_struct_param] if i % 2 == 0 else [progen.s_method_struct_param],
                                       asm_in_main=(i % 4 == 0))
            # every other program is built with TMPDIR BELOW the module directory (garble's temp dir then shares a prefix
            # with the package directories that -trimpath rewrites)
            extra_env = None
            if i % 2 == 0:
                asm_rel = next((rel for rel, pk in prog.pkgs.items() if pk["asm"]), "")
                extra_env = {"TMPDIR": os.path.join(E.scratch, "p%d" % i, asm_rel, "tmp-%s-inside" % prog.keep)}
                os.makedirs(extra_env["TMPDIR"], exist_ok=True)
            res = e2e.build_both(E, prog, gflags, "p%d" % i, extra_env)
            chk.count_cases(["scan|%s|%s" % (prog.mod, " ".join(gflags))])
            if res["garbled"] is None:
                chk.notes.append("garble build failed (C01's concern): " + res["garble_err"][-300:])
                continue
            leaks = scan_binary(chk, E, prog, res, gflags)
            st = chk.cov["streams"].setdefault("e2e_scan", {"binaries": 0, "leaks": 0, "stems_searched": []})
            st["binaries"] += 1; st["leaks"] += len(leaks); st["stems_searched"].append(prog.go)
            for l in leaks[:1]:
                chk.violation("%s [%s | flags %s]" % (l["why"], ",".join(l["features"]), " ".join(gflags)),
                              {"kind": "program", "files": prog.render(), **l}, True, key=l["why"].split(" (")[0])
    finally:
        E.cleanup()


def main(tier, replay=None):
    chk = core.Check(PID, tier)
    core.build_tools()
    chk.proofs(GENS, MODULES)
    oracle_part(chk, tier)
    e2e_part(chk, tier)
    chk.cov["rule"] = ("oracle: every object of the generated module's packages and six std packages checked against the documented-exception list; generated link command lines "
                       "and importcfg files through the real transformLink; printFile's line directives vs. the model on reference call offsets. e2e: binaries of generated programs "
                       "scanned for the program's unique name stem, source/TMPDIR paths, Go version, symbol/DWARF sections, module info and build ID")
    chk.assumptions += ["what the compiler and linker put into a binary is not modelled (sampled by the scan)", "names reaching reflection are outside the generator's programs here (C08 covers them)"]
    if not chk.proofs_ok and not chk.violations:
        what = "; ".join(b["what"] for b in chk.cov["broken"])[:1500]
        chk.violation("no longer shown to hold: " + what, {"kind": "broken-obligation", "broken": chk.cov["broken"]}, False, key="broken:" + what[:200])
    return chk.finish()
