"""C01 — obfuscated builds behave exactly like regular builds."""
import os, random, re
from . import core, e2e, progen

PID = "C01"
GENS = ["Consts", "StdTables"]
MODULES = ["GV.Props.C01"]
FLAGSETS = [[], ["-literals"], ["-tiny"], ["-seed=o9WDTZ4CN4w"], ["-literals", "-tiny", "-seed=AAECAwQFBgc"]]


def test_verdicts(out):
    """per-package verdict lines of `go test`, timings removed"""
    v = []
    for l in out.splitlines():
        m = re.match(r"^(ok|FAIL|---|\?)\s+(\S+)", l)
        if m and m.group(1) in ("ok", "FAIL", "?"):
            v.append((m.group(1), m.group(2)))
    return sorted(v)


def run_program(chk, E, prog, gflags, name, with_test, with_run):
    """returns list of violation dicts for this program/flag set"""
    out = []
    res = e2e.build_both(E, prog, gflags, name)
    meta = {"features": prog.features, "garble_flags": gflags, "ldflags": prog.ldflags, "module": prog.mod}
    if res["plain"] is None:
        chk.notes.append("generator produced a program the regular toolchain rejects: " + res["plain_err"][-400:])
        return out, res
    if res["garbled"] is None:
        out.append({"why": "garble build fails where go build succeeds", "detail": res["garble_err"], **meta})
        return out, res
    for d in e2e.compare_behaviour(E, res):
        out.append({"why": "obfuscated program's stdout/exit status differs from the regular build", "detail": d, **meta})
    if with_run:
        a = E.run_go(["run", "-trimpath"] + e2e.ldflag_args(prog) + [".", "p", "q"], res["root"])
        b = E.run_garble(gflags, ["run"] + e2e.ldflag_args(prog) + [".", "p", "q"], res["root"])
        if (a.returncode, a.stdout) != (b.returncode, b.stdout):
            out.append({"why": "garble run differs from go run", "detail": {"go": [a.returncode, a.stdout[-800:], a.stderr[-400:]], "garble": [b.returncode, b.stdout[-800:], b.stderr[-1500:]]}, **meta})
        # a program argument that looks like a source file: only the leading arguments name the package
        a = E.run_go(["run", "-trimpath"] + e2e.ldflag_args(prog) + [".", "data/input.go", "notes.txt"], res["root"])
        b = E.run_garble(gflags, ["run"] + e2e.ldflag_args(prog) + [".", "data/input.go", "notes.txt"], res["root"])
        if (a.returncode, a.stdout) != (b.returncode, b.stdout):
            out.append({"why": "garble run with a program argument ending in .go differs from go run", "detail": {"go": [a.returncode, a.stdout[-800:], a.stderr[-400:]], "garble": [b.returncode, b.stdout[-800:], b.stderr[-1500:]]}, **meta})
    if with_test and prog.tests:
        a = E.run_go(["test", "-trimpath", "-vet=off", "./..."], res["root"])
        b = E.run_garble(gflags, ["test", "./..."], res["root"])
        if (a.returncode, test_verdicts(a.stdout)) != (b.returncode, test_verdicts(b.stdout)):
            out.append({"why": "garble test verdicts differ from go test", "detail": {"go": [a.returncode, a.stdout[-800:]], "garble": [b.returncode, b.stdout[-800:], b.stderr[-1500:]]}, **meta})
        # flags after the package list, as go test accepts them
        a = E.run_go(["test", "-trimpath", "-vet=off", "./...", "-run", "Test", "-count=1", "-v"], res["root"])
        b = E.run_garble(gflags, ["test", "./...", "-run", "Test", "-count=1", "-v"], res["root"])
        if (a.returncode, test_verdicts(a.stdout)) != (b.returncode, test_verdicts(b.stdout)):
            out.append({"why": "garble test with flags after the packages differs from go test", "detail": {"go": [a.returncode, a.stdout[-800:]], "garble": [b.returncode, b.stdout[-800:], b.stderr[-1500:]]}, **meta})
    return out, res


class CorpusProg:
    """a fixed program from /verif/corpus/programs (minimised past failures; run first)"""

    def __init__(self, name):
        self.name, self.ldflags, self.tests, self.features, self.mod = name, [], False, ["corpus:" + name], name
        root = os.path.join(core.VERIF, "corpus", "programs", name)
        self.files = {}
        for d, _, fs in os.walk(root):
            for f in fs:
                p = os.path.join(d, f)
                self.files[os.path.relpath(p, root)] = open(p).read()

    def render(self):
        return self.files


def corpus_programs():
    root = os.path.join(core.VERIF, "corpus", "programs")
    return [CorpusProg(n) for n in sorted(os.listdir(root))] if os.path.isdir(root) else []


def e2e_part(chk, tier):
    rnd = random.Random(chk.seed * 7919 + 1)
    E = e2e.E2E("c01")
    try:
        for cp in corpus_programs():
            fails, res = run_program(chk, E, cp, [], "corpus_" + cp.name, False, True)
            chk.count_cases(["corpus|" + cp.name])
            for f in fails:
                chk.violation("%s [corpus program %s]" % (f["why"], cp.name), {"kind": "program", "files": cp.render(), **f}, True, key=f["why"] + ":corpus:" + cp.name)
                break
        if tier == "quick":
            plan = [([], True, True), (["-literals", "-seed=o9WDTZ4CN4w"], False, False)]
        else:
            plan = [(fs, i % 3 == 0, i % 4 == 0) for i, fs in enumerate(FLAGSETS * 8)]
        nprog = 0
        for i, (gflags, wt, wr) in enumerate(plan):
            must = [progen.s_tests] if wt else []
            if i == 0:
                must += [progen.s_linkname, progen.s_asm, progen.s_ldflags, progen.s_generic_anon]
            prog = progen.gen_program(rnd, nsnip=8 if tier == "quick" else 7, must=must)
            fails, res = run_program(chk, E, prog, gflags, "p%d" % i, wt, wr)
            nprog += 1
            chk.count_cases(["%s|%s|%s" % (prog.mod, " ".join(gflags), ",".join(prog.features))])
            d = chk.cov["input_distribution"].setdefault("e2e_features", {})
            for f in prog.features:
                d[f] = d.get(f, 0) + 1
            d2 = chk.cov["input_distribution"].setdefault("e2e_flagsets", {})
            d2[" ".join(gflags) or "(default)"] = d2.get(" ".join(gflags) or "(default)", 0) + 1
            if i == 0:
                chk.add_sample({"program_features": prog.features, "garble_flags": gflags, "files": sorted(prog.render().keys())})
            for f in fails:
                chk.violation("%s [%s | flags %s]" % (f["why"], ",".join(f["features"]), " ".join(gflags)),
                              {"kind": "program", "files": prog.render(), **f}, True, key=f["why"] + ":" + ",".join(sorted(set(f["features"]))))
                break
        chk.cov["streams"]["e2e"] = {"programs": nprog, "garble_invocations": E.runs}
    finally:
        E.cleanup()


def main(tier, replay=None):
    chk = core.Check(PID, tier)
    core.build_tools()
    import importlib
    mods = MODULES
    try:
        from . import c01model
        mods = c01model.MODULES
    except ImportError:
        c01model = None
    chk.proofs(c01model.GENS if c01model else GENS, mods)
    if c01model:
        c01model.correspondence(chk, tier)
    e2e_part(chk, tier)
    chk.cov["rule"] = "oracle: object descriptors of generated packages; e2e: generated multi-package programs (feature snippets) x garble flag sets x {build, run, test} x 3 argument vectors; a case = one (program, flag set)"
    chk.assumptions += ["behaviour preservation under consistent renaming is not proved (no Go semantics in Lean): partial; the e2e differential samples it",
                        "programs do not print identifier names, positions or build metadata (by construction of the generator)"]
    if not chk.proofs_ok and not chk.violations:
        what = "; ".join(b["what"] for b in chk.cov["broken"])[:1500]
        chk.violation("no longer shown to hold: " + what, {"kind": "broken-obligation", "broken": chk.cov["broken"]}, False, key="broken:" + what[:200])
    return chk.finish()
