"""C10 — -tiny silences every crash but keeps crash semantics."""
import collections, os, re, subprocess, sys
from . import core, e2e, c01model
from .c01model import hx

PID = "C10"
GENS = ["Consts"]
MODULES = ["GV.Props.C10"]
GEN_FILE = os.path.join(core.VERIF, "lean", "GV", "Gen", "RuntimeGraph.lean")
CHUNK = 250

# functions from which a crash report would be printed; the hand-written expectation in Props/C10.lean lists the same names
CRASH_ROOTS = ["gopanic", "panicmem", "panicmemAddr", "panicdivide", "panicoverflow", "panicfloat", "goPanicIndex", "goPanicIndexU", "goPanicSliceAlen", "goPanicSliceB", "panicdottypeE", "panicdottypeI", "panicnildottype", "panicwrap", "panicunsafeslicelen", "panicmakeslicelen", "throw", "fatal", "fatalthrow", "fatalpanic", "sigpanic", "sigpanic0", "Goexit", "goexit1", "goexit0", "checkdead", "dieFromSignal", "crash", "sighandler", "badsignal", "sigtrampgo", "dopanic_m", "printpanics", "printpanicval", "preprintpanics", "startpanic_m", "recovery", "gorecover", "deferreturn", "deferproc", "newstack", "mallocgc", "main", "sigNotOnStack", "badmorestackg0", "badmorestackgsignal", "unlock2", "lock2", "fatalsignal", "raisebadsignal", "sigfwdgo", "exitsyscall", "schedule", "mstart1", "mcall", "systemstack", "morestack", "abort", "exit", "raise", "raiseproc", "closechan", "chansend", "chanrecv", "mapassign_faststr", "panicCheck1", "panicCheck2", "printanycustomtype", "goroutineheader", "traceback", "tracebackothers", "printDebugLog", "hexdumpWords", "writeErrStr", "sync_throw", "sync_fatal", "rawstring", "semrelease1", "sync_runtime_Semrelease", "timeSleep", "gcStart", "gcBgMarkWorker", "sysmon", "bgsweep", "forcegchelper", "printlock", "printunlock", "printCgoTraceback", "tracebackHexdump", "maps_fatal"]


def dump_graph(E, orc, tiny, out):
    root = E.write_module("rthello", {"go.mod": "module gv.test/rthello\n\ngo 1.26\n", "main.go": "package main\n\nfunc main() { println(1) }\n"})
    S = c01model.OracleSession(orc, E.env(), cwd=root)
    try:
        a = S.ask("load %s %s %s" % (hx(root), hx(""), hx(".")))
        if not a.startswith("ok"):
            raise RuntimeError("oracle load failed: " + a)
        a = S.ask("rtgraph %d %s" % (tiny, hx(out)))
        if not a.startswith("ok"):
            raise RuntimeError("rtgraph failed: " + a)
        return a.split(" ")
    finally:
        S.close()


def compiler_callable():
    p = os.path.join(core.goroot(), "src", "cmd", "compile", "internal", "typecheck", "_builtin", "runtime.go")
    names = re.findall(r"^func (\w+)\(", open(p).read(), re.M)
    return names


def build_edges(path):
    """facts -> conservative call graph.  Rules (the translator's trusted part):
       C / R: edge to the named function;  D m: edges to every method called m;  I: edge to <indirect>;
       <indirect> -> every function or literal whose address is taken (R targets, L literals);
       LA lit callee: like L, except when the callee's body is EMPTY (then the literal is never called and gets no edge);
       body-less (assembly) function -> <asm> and <indirect>;  <asm> -> every Go symbol the assembly files mention;
       P: edges to the compiler's print support functions;  every function -> <hidden> -> every other compiler-callable function"""
    nodes, F = {}, collections.defaultdict(lambda: collections.defaultdict(set))
    asm, stripped = set(), []
    for l in open(path):
        f = l.split()
        if f[0] == "N":
            nodes[f[1]] = (f[2], int(f[3]))
        elif f[0] == "A":
            asm.add(f[1])
        elif f[0] == "S":
            stripped.append((f[1], f[2]))
        elif f[0] == "I":
            F["I"][f[1]].add("1")
        else:
            F[f[0]][f[1]].add(" ".join(f[2:]))
    methods = collections.defaultdict(set)
    for n in nodes:
        if "." in n and "$" not in n:
            methods[n.split(".", 1)[1]].add(n)
    cc = compiler_callable()
    printsupport = [n for n in cc if n.startswith("print") and n in nodes]
    IND, ASM, HID = "<indirect>", "<asm>", "<hidden>"
    edges = collections.defaultdict(set)
    addr = set()
    for n in nodes:
        for c in F["C"][n]:
            edges[n].add(c)
        for r in F["R"][n]:
            edges[n].add(r); addr.add(r)
        for d in F["D"][n]:
            edges[n] |= methods.get(d, set())
        for l in F["L"][n]:
            edges[n].add(l); addr.add(l)
        for la in F["LA"][n]:
            lit, callee = la.split()
            if nodes.get(callee, ("", 1))[1] == 0:
                continue
            edges[n].add(lit); addr.add(lit)
        if n in F["I"]:
            edges[n].add(IND)
        if nodes[n][1] == -1:
            edges[n] |= {ASM, IND}
        if n in F["P"]:
            edges[n] |= set(printsupport)
        edges[n].add(HID)
    edges[ASM] = {a for a in asm if a in nodes}
    edges[IND] = {a for a in addr if a in nodes}
    edges[HID] = {n for n in cc if n in nodes and n not in printsupport}
    allnodes = sorted(nodes) + [IND, ASM, HID]
    ids = {n: i for i, n in enumerate(allnodes)}
    E = sorted({(ids[a], ids[b]) for a, bs in edges.items() for b in bs if b in ids})
    writers = sorted({n for n in F["W"] if any(w.split()[1] == "2" for w in F["W"][n])})
    printcallers = sorted(F["P"])
    return dict(nodes=nodes, names=allnodes, ids=ids, edges=E, writers=writers, printcallers=printcallers, stripped=sorted(stripped),
                edgemap=edges, externals=sorted({x for n in F["X"] for x in F["X"][n]}))


def reach_back(G):
    rev = collections.defaultdict(set)
    for a, b in G["edges"]:
        rev[b].add(a)
    W = {G["ids"][w] for w in G["writers"]}
    st = list(W)
    while st:
        x = st.pop()
        for a in rev[x]:
            if a not in W:
                W.add(a); st.append(a)
    return W


def find_path(G, src, targets):
    """a shortest explicit path (names) from src to any target"""
    ids, names = G["ids"], G["names"]
    adj = collections.defaultdict(list)
    for a, b in G["edges"]:
        adj[a].append(b)
    prev = {ids[src]: None}
    q = collections.deque([ids[src]])
    tg = {ids[t] for t in targets}
    while q:
        x = q.popleft()
        if x in tg:
            out = []
            while x is not None:
                out.append(names[x]); x = prev[x]
            return out[::-1]
        for y in adj[x]:
            if y not in prev:
                prev[y] = x; q.append(y)
    return None


def lean_str(s):
    return '"' + s.replace("\\", "\\\\").replace('"', '\\"') + '"'


def write_gen(G, W, valid):
    names, ids = G["names"], G["ids"]
    n = len(names)
    mask = 0
    for i in range(n):
        if i not in W:
            mask |= 1 << i
    chunks = [G["edges"][i:i + CHUNK] for i in range(0, len(G["edges"]), CHUNK)]
    out = ["-- GENERATED by gvlib/c10.py from the oracle's `rtgraph 1` dump of the runtime AFTER the real stripRuntime. Do not edit.",
           "import GV.Model.Graph", "set_option maxRecDepth 100000", "namespace GV.Gen.RuntimeGraph", "open GV.Graph", "",
           "def nNodes : Nat := %d" % n, ""]
    for k, ch in enumerate(chunks):
        out.append("noncomputable def edges%d : List (Nat × Nat) := [%s]" % (k, ", ".join("(%d, %d)" % e for e in ch)))
    expr = "[]"
    for k in reversed(range(len(chunks))):
        expr = "edges%d ++ (%s)" % (k, expr) if expr != "[]" else "edges%d" % k
    out += ["", "noncomputable def edges : List (Nat × Nat) := %s" % expr, "",
            "/-- nodes from which no stderr write is reachable (computed by the translator; only its closure is used) -/",
            "def safeMask : Nat := 0x%x" % mask, "",
            "/-- functions that write to file descriptor 2 directly -/",
            "def writers : List Nat := [%s]" % ", ".join(str(ids[w]) for w in G["writers"]),
            "def writerNames : List String := [%s]" % ", ".join(lean_str(w) for w in G["writers"]), "",
            "/-- every node outside the mask, with its name -/",
            "def unsafeNodes : List (Nat × String) := [%s]" % ", ".join("(%d, %s)" % (i, lean_str(names[i])) for i in sorted(W)), "",
            "def crashRoots : List (String × Nat) := [%s]" % ", ".join("(%s, %d)" % (lean_str(r), ids[r]) for r in CRASH_ROOTS if r in ids),
            "def printCallers : List String := [%s]" % ", ".join(lean_str(p) for p in G["printcallers"]),
            "def stripped : List (String × String) := [%s]" % ", ".join("(%s, %s)" % (lean_str(a), lean_str(b)) for a, b in G["stripped"]),
            "def validateOutcome : String := %s" % lean_str(valid), ""]
    # witness that the graph is not vacuous: user-level print support reaches the writer
    wit = find_path(G, "printstring", G["writers"]) if "printstring" in ids and G["writers"] else None
    out.append("def witness : List Nat := [%s]" % ", ".join(str(ids[x]) for x in (wit or [])))
    out.append("")
    chunk_of = {e: k for k, ch in enumerate(chunks) for e in ch}
    for k in range(len(chunks)):
        out.append("theorem closed%d : closed safeMask edges%d = true := by decide +kernel" % (k, k))
    out += ["", "theorem closedAll : closed safeMask edges = true := by",
            "  simp only [edges, closed_append, %s, Bool.and_self]" % ", ".join("closed%d" % k for k in range(len(chunks))), "",
            "theorem cover : (List.range nNodes).all (fun i => safeMask.testBit i || (unsafeNodes.map (·.1)).contains i) = true := by decide +kernel",
            "theorem writers_outside : writers.all (fun w => !safeMask.testBit w) = true := by decide +kernel",
            "theorem roots_inside : crashRoots.all (fun r => safeMask.testBit r.2) = true := by decide +kernel",
            ""]
    if wit:
        wi = [ids[x] for x in wit]
        term = ".refl %d" % wi[-1]
        pairs = list(zip(wi, wi[1:]))
        for n_, (a, b) in enumerate(pairs):
            out += ["theorem wit%d : ((%d, %d) : Nat × Nat) ∈ edges := by" % (n_, a, b),
                    "  have h : ((%d, %d) : Nat × Nat) ∈ edges%d := by decide +kernel" % (a, b, chunk_of[(a, b)]),
                    "  simp only [edges, List.mem_append, h, true_or, or_true]"]
        for n_ in reversed(range(len(pairs))):
            term = ".step wit%d (%s)" % (n_, term)
        out += ["/-- the graph is not vacuous: user-level print support reaches the writer -/",
                "theorem witness_path : Path edges %d %d := %s" % (wi[0], wi[-1], term), ""]
    else:
        out += ["theorem witness_path : False := by decide", ""]
    out += [
            "end GV.Gen.RuntimeGraph", ""]
    txt = "\n".join(out)
    old = open(GEN_FILE).read() if os.path.exists(GEN_FILE) else None
    if old != txt:
        open(GEN_FILE, "w").write(txt)
    return len(chunks)


CRASH_PROG = r'''package main

import (
	"errors"
	"fmt"
	"os"
	"runtime"
	"runtime/debug"
	"sync"
	"syscall"
	"time"
)

type custom struct {
	A int
	B string
}

type stringer struct{ n int }

func (s stringer) String() string { return fmt.Sprint("stringer-", s.n) }

type errT struct{}

func (errT) Error() string { return "custom error text" }

//go:noinline
func own(s string) { os.Stderr.WriteString("own:" + s + "\n") }

//go:noinline
func idx(a []int, i int) int { return a[i] }

//go:noinline
func div(a, b int) int { return a / b }

//go:noinline
func deref(p *custom) int { return p.A }

//go:noinline
func assert(v any) string { return v.(string) }

//go:noinline
func slice(a []int, i, j int) []int { return a[i:j] }

//go:noinline
func overflow(n int) int {
	var pad [64]int
	pad[n%64] = n
	return overflow(n+1) + pad[(n+1)%64]
}

func main() {
	mode := os.Args[1]
	own("start " + mode)
	println("own: builtin println", 42, 3.5, true)
	fmt.Println("stdout line for", mode)
	switch mode {
	case "panic-string":
		panic("a plain string " + mode)
	case "panic-error":
		panic(errors.New("an error value"))
	case "panic-custom-error":
		panic(errT{})
	case "panic-stringer":
		panic(stringer{7})
	case "panic-struct":
		panic(custom{1, "x"})
	case "panic-int":
		panic(12345)
	case "panic-nil":
		panic(nil)
	case "panic-fmt-error":
		panic(fmt.Errorf("wrapped: %w", os.ErrNotExist))
	case "nil-deref":
		fmt.Println(deref(nil))
	case "index":
		fmt.Println(idx([]int{1, 2}, len(os.Args)+5))
	case "slice-bounds":
		fmt.Println(slice([]int{1, 2}, 1, len(os.Args)+5))
	case "div-zero":
		fmt.Println(div(1, len(os.Args)-2))
	case "assertion":
		fmt.Println(assert(len(os.Args)))
	case "nil-map":
		var m map[string]int
		m[mode] = 1
	case "close-closed":
		c := make(chan int)
		close(c)
		close(c)
	case "send-closed":
		c := make(chan int, 1)
		close(c)
		c <- 1
	case "deadlock":
		c := make(chan int)
		<-c
	case "deadlock-mutex":
		var mu sync.Mutex
		mu.Lock()
		mu.Lock()
	case "repanic-in-defer":
		defer func() { panic("second panic in defer") }()
		panic("first panic")
	case "goroutine-panic":
		go func() { panic("panic in a goroutine") }()
		time.Sleep(2 * time.Second)
	case "goexit-main":
		runtime.Goexit()
	case "exit-3":
		os.Exit(3)
	case "exit-0":
		os.Exit(0)
	case "unlock-unlocked":
		var mu sync.Mutex
		mu.Unlock()
	case "stack-overflow":
		debug.SetMaxStack(1 << 20)
		fmt.Println(overflow(0))
	case "sigquit":
		syscall.Kill(os.Getpid(), syscall.SIGQUIT)
		time.Sleep(2 * time.Second)
	case "sigabrt":
		syscall.Kill(os.Getpid(), syscall.SIGABRT)
		time.Sleep(2 * time.Second)
	case "sigsegv-sent":
		syscall.Kill(os.Getpid(), syscall.SIGSEGV)
		time.Sleep(2 * time.Second)
	case "recover-value":
		func() {
			defer func() {
				r := recover()
				c, isCustom := r.(custom)
				fmt.Printf("recovered %v %v %v\n", isCustom, c.A, c.B)
				own(fmt.Sprint("recovered ", r))
			}()
			panic(custom{9, "kept"})
		}()
	case "recover-runtime-error":
		func() {
			defer func() {
				r := recover()
				_, isRT := r.(runtime.Error)
				fmt.Println("recovered runtime error:", isRT, r)
			}()
			fmt.Println(idx(nil, 3))
		}()
		func() {
			defer func() { fmt.Println("recovered:", recover()) }()
			fmt.Println(deref(nil))
		}()
		func() {
			defer func() { fmt.Println("recovered:", recover()) }()
			fmt.Println(div(3, len(os.Args)-2))
		}()
	case "recover-repanic":
		defer func() {
			r := recover()
			fmt.Println("outer recovered:", r)
			os.Exit(7)
		}()
		func() {
			defer func() {
				r := recover()
				panic(fmt.Sprint("re-panic of ", r))
			}()
			panic("inner")
		}()
	case "panic-during-panic-print":
		panic(badStringer{})
	case "normal":
		fmt.Println("normal exit")
	}
	own("end " + mode)
}

type badStringer struct{}

func (badStringer) Error() string { panic("panic inside Error()") }
'''

POS_PROG = r'''package main

import (
	"fmt"
	"runtime"
)

//go:noinline
func where() (string, int) {
	_, file, line, _ := runtime.Caller(0)
	return file, line
}

//go:noinline
func whereGeneric[K comparable, V any](k K, v V) (string, int) {
	_, file, line, _ := runtime.Caller(1)
	_ = map[K]V{k: v}
	return file, line
}

type box[T any] struct{ v T }

//go:noinline
func (b box[T]) where() (string, int) {
	_, file, line, _ := runtime.Caller(1)
	return file, line
}

func main() {
	file, line := where()
	fmt.Printf("caller file=%q line=%d\n", file, line)
	file, line = whereGeneric[string, int]("a", 1)
	fmt.Printf("generic2 file=%q line=%d\n", file, line)
	file, line = whereGeneric("b", 2.5)
	fmt.Printf("inferred file=%q line=%d\n", file, line)
	file, line = box[int]{3}.where()
	fmt.Printf("method file=%q line=%d\n", file, line)
	file, line = (func() (string, int) { _, f, l, _ := runtime.Caller(1); return f, l })()
	fmt.Printf("literal file=%q line=%d\n", file, line)
	pc, _, _, _ := runtime.Caller(0)
	f, l := runtime.FuncForPC(pc).FileLine(pc)
	fmt.Printf("funcforpc file=%q line=%d\n", f, l)
	fr, _ := runtime.CallersFrames([]uintptr{pc}).Next()
	fmt.Printf("frames file=%q line=%d\n", fr.File, fr.Line)
}
'''

MODES = ["panic-string", "panic-error", "panic-custom-error", "panic-stringer", "panic-struct", "panic-int", "panic-nil", "panic-fmt-error", "nil-deref", "index",
         "slice-bounds", "div-zero", "assertion", "nil-map", "close-closed", "send-closed", "deadlock", "deadlock-mutex", "repanic-in-defer", "goroutine-panic",
         "goexit-main", "exit-3", "exit-0", "unlock-unlocked", "stack-overflow", "sigquit", "sigabrt", "sigsegv-sent", "recover-value", "recover-runtime-error",
         "recover-repanic", "panic-during-panic-print", "normal"]


def run_prog(binary, mode, tb, env):
    e = dict(env)
    if tb is None:
        e.pop("GOTRACEBACK", None)
    else:
        e["GOTRACEBACK"] = tb
    try:
        r = subprocess.run(["/bin/sh", "-c", "ulimit -c 0; exec \"$0\" \"$1\"", binary, mode], env=e, capture_output=True, timeout=60)
        return r.returncode, r.stdout, r.stderr
    except subprocess.TimeoutExpired:
        return "timeout", b"", b""


def e2e_part(chk, tier, E, fails):
    flagsets = [["-tiny"]] if tier == "quick" else [["-tiny"], ["-tiny", "-literals", "-seed=o9WDTZ4CN4w"], ["-tiny", "-seed=AAECAwQFBgc"]]
    tbs = [None, "none", "all", "system", "crash"] if tier == "quick" else [None, "none", "single", "all", "system", "crash", "wer"]
    root = E.write_module("crash", {"go.mod": "module gv.test/crash\n\ngo 1.26\n", "main.go": CRASH_PROG})
    proot = E.write_module("pos", {"go.mod": "module gv.test/pos\n\ngo 1.26\n", "main.go": POS_PROG})
    pb = E.run_go(["build", "-trimpath", "-o", "plain", "."], root)
    if pb.returncode != 0:
        raise RuntimeError("crash catalogue does not build: " + pb.stderr[-800:])
    st = chk.cov["streams"].setdefault("e2e:crash-catalogue", {"modes": len(MODES), "runs": 0, "silent": 0, "status_equal": 0, "stdout_equal": 0, "regular_build_prints_a_report": 0})
    for gflags in flagsets:
        gb = E.run_garble(gflags, ["build", "-o", "tiny", "."], root)
        if gb.returncode != 0:
            fails.append({"why": "garble -tiny build of the crash catalogue fails", "detail": gb.stderr[-800:], "key": "tiny-build-fails"}); continue
        for mode in MODES:
            for tb in tbs:
                prc, pout, perr = run_prog(os.path.join(root, "plain"), mode, tb, E.env())
                grc, gout, gerr = run_prog(os.path.join(root, "tiny"), mode, tb, E.env())
                st["runs"] += 1
                chk.count_cases(["crash|%s|%s|%s" % (" ".join(gflags), mode, tb)])
                own = b"".join(l + b"\n" for l in perr.split(b"\n") if l.startswith(b"own:"))
                if perr != own:
                    st["regular_build_prints_a_report"] += 1
                desc = {"flags": gflags, "mode": mode, "GOTRACEBACK": tb, "regular_exit": prc, "tiny_exit": grc}
                if gerr == own:
                    st["silent"] += 1
                else:
                    extra = [l for l in gerr.decode("utf-8", "replace").splitlines() if not l.startswith("own:")]
                    fails.append({"why": "the -tiny binary writes more than the program's own output to stderr", "detail": {**desc, "extra_lines": extra[:8], "missing_own": own.decode()[:200] if not gerr.startswith(own[:10]) else ""},
                                  "key": "tiny-not-silent:" + mode})
                if prc == grc:
                    st["status_equal"] += 1
                else:
                    fails.append({"why": "the -tiny binary exits with a different status than the regular build", "detail": desc, "key": "tiny-exit-status:" + mode})
                if pout == gout:
                    st["stdout_equal"] += 1
                else:
                    fails.append({"why": "the -tiny binary's own output differs from the regular build's", "detail": {**desc, "regular": pout.decode("utf-8", "replace")[-300:], "tiny": gout.decode("utf-8", "replace")[-300:]},
                                  "key": "tiny-stdout:" + mode})
        # position queries: no file name, line 1
        gp = E.run_garble(gflags, ["build", "-o", "tiny", "."], proot)
        if gp.returncode == 0:
            rc, out, _ = E.run_bin(os.path.join(proot, "tiny"))
            lines = out.decode("utf-8", "replace").splitlines()
            chk.count_cases(["positions|%s" % " ".join(gflags)])
            multi = [l for l in lines if l.startswith("literal ") and not re.search(r'file="(\?\?)?" line=(1|0)$', l)]
            if multi:
                # go/printer may spread the called literal over several lines (it depends on the length of the obfuscated
                # names); the call's own parenthesis then sits below the line directive
                fails.append({"why": "under -tiny a call expression that is printed over several lines reports a line other than 1", "detail": {"flags": gflags, "output": multi}, "key": "tiny-position-of-multi-line-call"})
            bad = [l for l in lines if not l.startswith("literal ") and not re.search(r'file="(\?\?)?" line=(1|0)$', l)]
            st.setdefault("position_queries", 0)
            st["position_queries"] += len(lines)
            if bad or len(lines) != 7:
                fails.append({"why": "a position query in a -tiny binary reports a file name or a line other than 1", "detail": {"flags": gflags, "output": lines}, "key": "tiny-positions"})
        else:
            fails.append({"why": "garble -tiny build of the position program fails", "detail": gp.stderr[-500:], "key": "tiny-pos-build-fails"})
    chk.add_sample({"mode": MODES[0], "GOTRACEBACK": "all", "check": "stderr == the program's own `own:` lines; exit status and stdout == regular build"})


def main(tier, replay=None):
    chk = core.Check(PID, tier)
    core.build_tools()
    orc, err = core.build_oracle()
    E = e2e.E2E("c10")
    fails = []
    try:
        os.makedirs("/var/tmp/gv", exist_ok=True)
        g1, g0 = os.path.join(E.scratch, "rt1.txt"), os.path.join(E.scratch, "rt0.txt")
        a1 = dump_graph(E, orc, 1, g1)
        a0 = dump_graph(E, orc, 0, g0)
        G = build_edges(g1)
        W = reach_back(G)
        G0 = build_edges(g0)
        W0 = reach_back(G0)
        nchunks = write_gen(G, W, a1[3])
        chk.cov["streams"]["translator:runtime-graph"] = {
            "runtime_files": int(a1[1]), "functions_methods_literals": len(G["nodes"]), "edges": len(G["edges"]), "edge_chunks": nchunks,
            "stderr_writers": G["writers"], "can_reach_a_writer_after_stripRuntime": len(W),
            "can_reach_a_writer_WITHOUT_stripRuntime (sanity: the analysis is not vacuous)": len(W0),
            "print_builtin_calls_without_strip": sum(1 for l in open(g0) if l.startswith("P ")), "print_builtin_calls_after_strip": sum(1 for l in open(g1) if l.startswith("P ")),
            "calls_into_other_packages": len(G["externals"])}
        chk.count_cases(["graph|%d|%d" % (len(G["nodes"]), len(G["edges"]))])
        ok = chk.proofs(GENS, MODULES)
        if not ok:
            # search the regenerated graph for a concrete path from a crash root to a stderr writer
            for r in CRASH_ROOTS:
                if r in G["ids"] and G["ids"][r] in W:
                    p = find_path(G, r, G["writers"])
                    fails.append({"why": "after stripRuntime a crash path can still write to stderr", "detail": {"call_path": p}, "key": "static-path:" + r, "static": True})
                    break
        e2e_part(chk, tier, E, fails)
    finally:
        E.cleanup()
    seen = set()
    dynamic = [f for f in fails if not f.get("static")]
    for f in fails:
        if f["key"] not in seen:
            seen.add(f["key"])
            # a static path alone is a broken certificate, not yet a failing run: it only counts as the failing input together with a run that prints
            if f.get("static") and not dynamic:
                chk.notes.append("static path without a failing run: " + str(f["detail"]))
                continue
            chk.violation(f["why"] + ": " + str(f["detail"])[:500], {"kind": "tiny", **f}, True, key=f["key"])
    chk.cov["rule"] = ("translator: the oracle type-checks package runtime as garble does, applies the real stripRuntime to every file, and dumps the reference graph (static calls, address-taken functions, "
                       "interface calls by method name, function-value calls, assembly references, remaining print builtins, writes to fd 2); Lean checks a closure certificate over it. "
                       "e2e: a 33-mode crash catalogue (panics of every value kind, run-time errors, fatal errors, deadlocks, signals, Goexit, os.Exit, recover) x GOTRACEBACK values, "
                       "regular build vs. garble -tiny: stderr must equal the program's own lines, exit status and stdout must be equal; position queries must give no file and line 1")
    chk.assumptions += ["compiler contract: print support functions are called only for print/println builtins; other compiler-inserted runtime calls go to functions listed in cmd/compile's _builtin/runtime.go (all modelled through the <hidden> node)",
                        "calls from package runtime into internal/runtime/* and other packages are leaves (none of them writes to fd 2): not modelled",
                        "what the compiled runtime does at run time (exit status, recover values) is sampled by the catalogue: partial",
                        "the graph is for the host platform (linux/amd64) file set"]
    return chk.finish()


def regenerate():
    """regenerate Gen/RuntimeGraph.lean only (used by setup.sh)"""
    core.build_tools()
    orc, err = core.build_oracle()
    E = e2e.E2E("c10gen")
    try:
        g1 = os.path.join(E.scratch, "rt1.txt")
        a1 = dump_graph(E, orc, 1, g1)
        G = build_edges(g1)
        write_gen(G, reach_back(G), a1[3])
    finally:
        E.cleanup()


if __name__ == "__main__":
    regenerate()
