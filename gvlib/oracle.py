"""Correspondence between the verif-oracle (real garble functions) and gvdriver (Lean model), plus the
property-level search on the implementation's own answers."""
import glob, json, os
from . import core


def run_stream(chk, oracle, name, ops, predicate=None, stats=None):
    """Runs one op list through both sides. Returns (diffs, failures)."""
    reqs = [l for l in ops if l and not l.startswith("#")]
    impl, r1 = core.run_lines(core.oracle_cmd(oracle), ops)
    model, r2 = core.run_lines(core.driver_cmd(), ops)
    diffs = core.diff_streams(ops, impl, model)
    fails = predicate(reqs, impl) if predicate else []
    chk.count_cases(reqs)
    s = chk.cov["streams"].setdefault(name, {"ops": 0, "disagreements": 0, "property_failures": 0})
    s["ops"] += len(reqs)
    s["disagreements"] += len(diffs)
    s["property_failures"] += len(fails)
    if stats:
        d = chk.cov["input_distribution"].setdefault(name, {})
        for k, v in stats.items():
            d[k] = d.get(k, 0) + v
    # answer-kind distribution on the implementation side
    kinds = chk.cov["input_distribution"].setdefault(name + ":impl_answers", {})
    for a in impl:
        k = "panic" if a.startswith("!panic") else ("error" if a.startswith("err") or a.startswith("!") else "value")
        kinds[k] = kinds.get(k, 0) + 1
    if reqs:
        chk.add_sample({"stream": name, "op": reqs[len(reqs) // 2], "impl": impl[len(reqs) // 2] if len(impl) > len(reqs) // 2 else None})
    return diffs, fails, reqs, impl, model


def oracle_property(chk, stream_specs, predicate, widen_specs, corpus=None, explain="", make_ops=None):
    """stream_specs / widen_specs: list of (gvgen stream, seed, n). `predicate(reqs, impl_answers)` returns a list of
    {"index","op","why"} evaluated on the IMPLEMENTATION only. Corpus files (one op list each) are replayed first."""
    oracle, err = core.build_oracle()
    if oracle is None:
        chk.violation("garble does not build with -tags verif", {"stderr": err[-3000:]}, False, key="oracle-build")
        return
    all_diffs, all_fails = [], []
    first_stream = None
    corpus_files = sorted(glob.glob(os.path.join(core.VERIF, "corpus", chk.pid, "*.ops"))) if corpus is None else corpus
    for cf in corpus_files:
        ops = open(cf).read().splitlines()
        diffs, fails, reqs, impl, model = run_stream(chk, oracle, "corpus:" + os.path.basename(cf), ops, predicate)
        all_diffs += [dict(d, stream=cf, ops=ops) for d in diffs]
        all_fails += [dict(f, stream=cf, ops=ops) for f in fails]
    for (stream, seed, n) in stream_specs:
        ops, stats = (make_ops or core.gen_ops)(stream, seed, n)
        diffs, fails, reqs, impl, model = run_stream(chk, oracle, stream, ops, predicate, stats)
        all_diffs += [dict(d, stream="%s seed=%d n=%d" % (stream, seed, n), ops=ops) for d in diffs]
        all_fails += [dict(f, stream="%s seed=%d n=%d" % (stream, seed, n), ops=ops) for f in fails]
    broken = bool(all_diffs) or not getattr(chk, "proofs_ok", True)
    if all_diffs:
        chk.cov["broken"].append({"kind": "correspondence", "what": "%d disagreements, first: %s" % (len(all_diffs), json.dumps({k: all_diffs[0][k] for k in ("stream", "index", "op", "impl", "model")}))})
        chk.log("correspondence broken: %d disagreements; first %s" % (len(all_diffs), {k: all_diffs[0][k] for k in ("index", "op", "impl", "model")}))
    if broken and not all_fails:
        # widen the search on the implementation before giving up
        chk.log("searching the implementation for a property-level failing input (widened generators)")
        for (stream, seed, n) in widen_specs:
            ops, stats = (make_ops or core.gen_ops)(stream, seed, n)
            reqs = [l for l in ops if l and not l.startswith("#")]
            impl, _ = core.run_lines(core.oracle_cmd(oracle), ops)
            fails = predicate(reqs, impl)
            chk.cov["streams"].setdefault("search:" + stream, {"ops": 0, "property_failures": 0})
            chk.cov["streams"]["search:" + stream]["ops"] += len(reqs)
            chk.cov["streams"]["search:" + stream]["property_failures"] += len(fails)
            if fails:
                all_fails += [dict(f, stream="%s seed=%d n=%d" % (stream, seed, n), ops=ops) for f in fails]
                break
    if all_fails:
        f = all_fails[0]
        # minimise the history: keep state-setting ops and the failing op
        ops = [l for l in f["ops"] if l and not l.startswith("#")]

        def still_fails(cand):
            impl, _ = core.run_lines(core.oracle_cmd(oracle), cand)
            return any(x["why"] == f["why"] for x in predicate(cand, impl))
        small = ops[: f["index"] + 1]
        try:
            if still_fails(small):
                small = core.shrink_history(small, still_fails, 60)
            else:
                small = ops
        except Exception:
            pass
        impl, _ = core.run_lines(core.oracle_cmd(oracle), small)
        chk.violation("%s: %s" % (f["why"], f["op"]),
                      {"kind": "oracle-history", "ops": small, "impl_answers": impl, "why": f["why"], "stream": f["stream"],
                       "total_failures": len(all_fails), "explain": explain}, True, key=f.get("key") or f["why"])
    elif broken:
        what = "; ".join(b["what"] for b in chk.cov["broken"])[:1500]
        first = all_diffs[0] if all_diffs else None
        chk.violation("no longer shown to hold: " + what,
                      {"kind": "broken-obligation", "broken": chk.cov["broken"],
                       "first_disagreement": ({k: first[k] for k in ("stream", "index", "op", "impl", "model")} if first else None),
                       "explain": explain}, False, key="broken:" + what[:200])


def replay_oracle(chk, replay, predicate):
    oracle, err = core.build_oracle()
    ops = replay["ops"]
    impl, _ = core.run_lines(core.oracle_cmd(oracle), ops)
    model, _ = core.run_lines(core.driver_cmd(), ops)
    for q, a, b in zip(ops, impl, model):
        print("%-60s impl=%s model=%s" % (q[:60], a, b))
    fails = predicate(ops, impl)
    for f in fails:
        print("PROPERTY FAILS:", f["why"], f["op"])
    return 1 if fails else 0
