"""C17 — concurrent garble processes never interfere."""
import os, random, shutil, subprocess, time
from . import core, e2e, progen, c06

PID = "C17"
GENS = ["Consts", "Steps"]
MODULES = ["GV.Props.C17"]


def small_prog(rnd, k):
    prog = progen.gen_program(rnd, nsnip=5, toolchain=False)
    return prog


def main(tier, replay=None):
    chk = core.Check(PID, tier)
    core.build_tools()
    chk.proofs(GENS, MODULES)
    E = e2e.E2E("c17")
    fails = []
    try:
        rnd = random.Random(chk.seed * 43 + 7)
        progs = [small_prog(rnd, k) for k in range(2 if tier == "quick" else 3)]
        hello = E.write_module("hello", {"go.mod": "module gv.test/hello\n\ngo 1.26\n", "main.go": "package main\n\nimport (\n\t\"fmt\"\n\t\"os\"\n\t\"strconv\"\n\t\"strings\"\n)\n\nfunc main() { fmt.Println(strings.Repeat(strconv.Itoa(len(os.Args)), 2)) }\n"})
        flagsets = [[], ["-literals", "-seed=o9WDTZ4CN4w"]]
        for fl in flagsets:
            E.run_garble(fl, ["build", "-o", "out", "."], hello)
        base = c06.CacheSet(E, "base"); base.drop(); os.makedirs(base.dir)
        c06.copy_tree(E.gocache, base.go); c06.copy_tree(E.garblecache, base.garble)
        # isolated references
        # program 0 is also built with -literals and a string injected by the linker: the same sources and garble flags as job (0, 1),
        # so that the two meet in the caches unless the cache keys keep them apart (C12)
        LDX = ["-ldflags=-X=main.gvInjected=injected-by-the-linker"]
        jobs = []
        for i, prog in enumerate(progs):
            for j, fl in enumerate(flagsets if i == 0 else flagsets[:1]):
                jobs.append((i, j, prog, fl, []))
            if i == 0:
                jobs.append((i, 2, prog, flagsets[1], LDX))
        refs = {}
        roots = {}
        for (i, j, prog, fl, bf) in jobs:
            R = c06.CacheSet(E, "ref", base)
            files = dict(prog.render())
            if i == 0:
                files["zz_injected.go"] = "package main\n\nimport \"os\"\n\nvar gvInjected = \"not injected\"\n\nfunc init() {\n\tif len(os.Args) > 7 {\n\t\tprintln(gvInjected)\n\t}\n}\n"
            root = E.write_module("src%d" % i, files); roots[i] = root
            b = E.run_garble(fl, ["build"] + bf + ["-o", "ref_%d" % j, "."], root, R.env())
            if b.returncode != 0:
                raise RuntimeError("reference build failed: " + b.stderr[-500:])
            refs[(i, j)] = e2e.sha256_file(os.path.join(root, "ref_%d" % j))
            R.drop()
        scenarios = [("linker-less cache", "nolinker", 4), ("warm cache", "warm", 16)] if tier == "quick" else \
            [(n, s, p) for n, s in (("linker-less cache", "nolinker"), ("warm cache", "warm"), ("cold garble cache", "nogarble")) for p in (1, 2, 4, 16)] * 2
        st = chk.cov["streams"].setdefault("e2e:concurrent", {"scenarios": 0, "processes": 0, "identical_to_isolated": 0})
        for (name, state, par) in scenarios:
            C = c06.CacheSet(E, "conc", base)
            if state == "nolinker":
                shutil.rmtree(os.path.join(C.garble, "tool"), ignore_errors=True)
            elif state == "nogarble":
                shutil.rmtree(C.garble); os.makedirs(C.garble)
            # every job twice (identical concurrent builds) plus the others, all at once, sharing GOCACHE, GARBLE_CACHE and TMPDIR
            procs = []
            for rep in range(2):
                for (i, j, prog, fl, bf) in jobs:
                    out = "conc_%d_%d_%d" % (i, j, rep)
                    p = subprocess.Popen([E.garble] + fl + ["build", "-p", str(par)] + bf + ["-o", out, "."], cwd=roots[i], env=E.env(C.env()),
                                         stdout=subprocess.PIPE, stderr=subprocess.PIPE, text=True)
                    procs.append((p, i, j, out, fl + bf))
            st["scenarios"] += 1
            for (p, i, j, out, fl) in procs:
                so, se = p.communicate(timeout=900)
                st["processes"] += 1
                chk.count_cases(["concurrent|%s|-p%d|prog%d|%s" % (state, par, i, " ".join(fl))])
                desc = {"scenario": name, "parallelism": par, "program": i, "flags": fl, "concurrent_processes": len(procs)}
                if p.returncode != 0:
                    fails.append({"why": "a garble build fails when run concurrently with others", "detail": {**desc, "stderr": se[-1200:]}, "key": "concurrent-build-fails:" + state})
                    continue
                if e2e.sha256_file(os.path.join(roots[i], out)) == refs[(i, j)]:
                    st["identical_to_isolated"] += 1
                else:
                    fails.append({"why": "a garble build run concurrently with others produces a different binary than when run alone", "detail": desc, "key": "concurrent-build-differs:" + state})
            leftovers = [f for f in os.listdir(E.tmpdir) if f.startswith("garble-shared")]
            if leftovers:
                fails.append({"why": "temporary directories are left behind after concurrent builds", "detail": leftovers[:5], "key": "concurrent-leftovers"})
            C.drop()
        chk.add_sample({"scenario": scenarios[0][0], "processes": len(jobs) * 2, "parallelism": scenarios[0][2]})
        base.drop()
    finally:
        E.cleanup()
    seen = set()
    for f in fails:
        if f["key"] not in seen:
            seen.add(f["key"])
            chk.violation(f["why"] + ": " + str(f["detail"])[:500], {"kind": "concurrency", **f}, True, key=f["key"])
    chk.cov["rule"] = ("stress: per scenario (cache with the patched linker removed / warm / GARBLE_CACHE emptied) x -p in {1,2,4,16}, every (program, flag set) job is started twice plus all other jobs at the same time, "
                       "sharing GOCACHE, GARBLE_CACHE and TMPDIR; every binary is compared byte for byte with the one the job produces alone; TMPDIR must end up empty of garble-shared*")
    chk.assumptions += ["flock semantics, rename atomicity of `go build -o` and timing cannot be exhibited by the model (partial); the stress run samples them", "go's own build cache is concurrency-safe (its contract)"]
    return chk.finish()
