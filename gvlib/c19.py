"""C19 — garble touches only its own files."""
import hashlib, os, random, shutil, subprocess
from . import core, e2e, progen, c06

PID = "C19"
GENS = ["Consts", "Steps"]
MODULES = ["GV.Props.C19"]


def tree_hash(root, exclude=()):
    h = hashlib.sha256()
    n = 0
    for d, dirs, fs in os.walk(root):
        dirs.sort()
        for f in sorted(fs):
            p = os.path.join(d, f)
            rel = os.path.relpath(p, root)
            if rel in exclude:
                continue
            h.update(rel.encode() + b"\0")
            if os.path.islink(p):
                h.update(b"L" + os.readlink(p).encode())
            else:
                h.update(open(p, "rb").read())
            n += 1
        for dd in dirs:
            h.update(b"D" + os.path.relpath(os.path.join(d, dd), root).encode())
    return h.hexdigest(), n


def make_target(E, kind, k):
    """pre-existing state of the -debugdir path; returns (path, description, foreign_root or None)"""
    p = os.path.join(E.scratch, "dbg_%s_%d" % (kind, k))
    shutil.rmtree(p, ignore_errors=True)
    if os.path.islink(p) or os.path.isfile(p):
        os.remove(p)
    foreign = None
    if kind == "absent":
        pass
    elif kind == "empty":
        os.makedirs(p)
    elif kind == "owned":
        os.makedirs(os.path.join(p, "source", "old"))
        open(os.path.join(p, ".garble-debugdir"), "w").close()
        open(os.path.join(p, "source", "old", "stale.go"), "w").write("package stale\n")
    elif kind == "foreign-files":
        os.makedirs(p)
        open(os.path.join(p, "precious.txt"), "w").write("do not delete\n")
        foreign = p
    elif kind == "foreign-subdirs":
        os.makedirs(os.path.join(p, "sub", "deeper"))
        open(os.path.join(p, "sub", "deeper", "data.bin"), "wb").write(b"\0\1\2")
        foreign = p
    elif kind == "symlink-to-foreign":
        tgt = p + "_target"
        shutil.rmtree(tgt, ignore_errors=True)
        os.makedirs(tgt)
        open(os.path.join(tgt, "precious.txt"), "w").write("behind a symlink\n")
        os.symlink(tgt, p)
        foreign = tgt
    elif kind == "regular-file":
        open(p, "w").write("I am a file\n")
        foreign = p
    return p, foreign


def main(tier, replay=None):
    chk = core.Check(PID, tier)
    core.build_tools()
    chk.proofs(GENS, MODULES)
    E = e2e.E2E("c19")
    fails = []
    try:
        rnd = random.Random(chk.seed * 53 + 1)
        prog = progen.gen_program(rnd, nsnip=6, toolchain=True, must=[progen.s_tests, progen.s_asm])
        good = prog.render()
        libfile = next(f for f in sorted(good) if f.startswith(prog.libs[0] + "/") and f.endswith(".go") and "_test" not in f)
        mainfile = next(f for f in sorted(good) if "/" not in f and f.endswith(".go"))
        variants = {
            "success": good,
            "type error in main": {**good, mainfile: good[mainfile] + "\nvar broken int = \"not an int\"\n"},
            "compile error in a dependency": {**good, libfile: good[libfile] + "\nfunc brokenDep() int { return undefinedName }\n"},
        }
        outcomes = [("success", "success", []), ("type error in main", "type error in main", []), ("compile error in a dependency", "compile error in a dependency", []),
                    ("go list error", "success", ["./does/not/exist"]), ("link error", "success", ["-ldflags=-nosuchlinkerflag"]), ("bad flags", "success", ["-tiny"])]
        commands = ["build", "run", "test", "reverse", "map"]
        targets = ["none", "absent", "empty", "owned", "foreign-files", "foreign-subdirs", "symlink-to-foreign", "regular-file"]
        plan = []
        if tier == "quick":
            plan = [("build", "success", "absent"), ("build", "success", "owned"), ("build", "success", "foreign-files"), ("build", "success", "symlink-to-foreign"), ("build", "success", "regular-file"),
                    ("build", "compile error in a dependency", "empty"), ("build", "type error in main", "none"), ("build", "go list error", "none"), ("build", "bad flags", "none"), ("build", "link error", "none"),
                    ("test", "success", "none"), ("run", "success", "none"), ("reverse", "success", "none"), ("map", "success", "none"), ("reverse", "go list error", "none"), ("map", "bad flags", "none"),
                    ("build", "success", "foreign-subdirs")]
        else:
            for c in commands:
                for o in [x[0] for x in outcomes]:
                    for t in (targets if c in ("build", "test") else ["none"]):
                        plan.append((c, o, t))
        omap = {o[0]: o for o in outcomes}
        st = chk.cov["streams"].setdefault("e2e:enumeration", {"runs": 0, "source_tree_unchanged": 0, "tmpdir_clean": 0, "foreign_untouched": 0, "debugdir_complete": 0})
        for k, (cmd, oname, tkind) in enumerate(plan):
            _, variant, extra = omap[oname]
            root = os.path.join(E.scratch, "src")
            shutil.rmtree(root, ignore_errors=True)
            c06.write_prog(root, variants[variant])
            gflags = []
            dbg = foreign = None
            if tkind != "none":
                dbg, foreign = make_target(E, tkind, k)
                gflags = ["-debugdir=" + dbg]
            fbefore = tree_hash(foreign) if foreign and os.path.isdir(foreign) else (hashlib.sha256(open(foreign, "rb").read()).hexdigest() if foreign else None)
            before = tree_hash(root)
            for f in os.listdir(E.tmpdir):
                shutil.rmtree(os.path.join(E.tmpdir, f), ignore_errors=True)
            if cmd in ("build", "test"):
                args = [cmd] + extra + (["-o", os.path.join(E.scratch, "out_bin")] if cmd == "build" else []) + (["./..."] if cmd == "test" and not any(x.startswith("./") for x in extra) else ["."] if not any(x.startswith("./") for x in extra) else [])
            elif cmd == "run":
                args = ["run"] + extra + ([] if any(x.startswith("./") for x in extra) else ["."]) + ["x"]
            elif cmd == "reverse":
                args = ["reverse"] + extra + ([] if any(x.startswith("./") for x in extra) else ["."])
            else:
                args = ["map"] + extra + ([] if any(x.startswith("./") for x in extra) else ["./..."])
            r = subprocess.run([E.garble] + gflags + args, cwd=root, env=E.env(), capture_output=True, text=True, input="some text\n", timeout=900)
            st["runs"] += 1
            chk.count_cases(["%s|%s|%s" % (cmd, oname, tkind)])
            desc = {"command": "garble %s" % " ".join(gflags + args), "outcome_wanted": oname, "debugdir_target": tkind, "exit": r.returncode}
            if oname == "success" and r.returncode != 0 and not (cmd == "reverse" and r.returncode == 1) and tkind not in ("foreign-files", "foreign-subdirs", "symlink-to-foreign", "regular-file"):
                chk.notes.append("unexpected failure of %s: %s" % (desc["command"], r.stderr[-300:]))
            # (1) the source tree is byte-identical
            after = tree_hash(root)
            if after == before:
                st["source_tree_unchanged"] += 1
            else:
                fails.append({"why": "garble changed the source tree", "detail": {**desc, "files_before": before[1], "files_after": after[1]}, "key": "source-tree-changed:" + cmd})
            # (2) no temporary directory is left in TMPDIR
            left = os.listdir(E.tmpdir)
            if not left:
                st["tmpdir_clean"] += 1
            else:
                fails.append({"why": "garble leaves files in TMPDIR", "detail": {**desc, "left": left[:6]}, "key": "tmpdir-leftovers:" + cmd + ":" + oname})
            # (3) foreign content is refused and untouched
            if foreign:
                fafter = tree_hash(foreign) if os.path.isdir(foreign) else (hashlib.sha256(open(foreign, "rb").read()).hexdigest() if os.path.exists(foreign) else "GONE")
                if fafter == fbefore:
                    st["foreign_untouched"] += 1
                else:
                    fails.append({"why": "garble modified or deleted a -debugdir target it does not own", "detail": desc, "key": "foreign-debugdir-touched:" + tkind})
                if r.returncode == 0 and oname == "success":
                    fails.append({"why": "garble does not refuse a -debugdir target with unknown contents", "detail": desc, "key": "foreign-debugdir-accepted:" + tkind})
            # (4) an owned / fresh debug dir ends up complete
            if dbg and not foreign and oname == "success" and r.returncode == 0 and cmd == "build":
                missing = []
                for rel in list(prog.libs) + [""]:
                    ip = prog.ipath(rel)
                    for sub in ("source", "garbled"):
                        d = os.path.join(dbg, sub, ip)
                        gofiles = [f for f in (os.listdir(d) if os.path.isdir(d) else []) if f.endswith(".go") or f.endswith(".s")]
                        if not gofiles:
                            missing.append(sub + "/" + ip)
                if os.path.exists(os.path.join(dbg, "source", "old", "stale.go")):
                    missing.append("(stale content of the previous run is still there)")
                if missing:
                    fails.append({"why": "the debug dir does not hold the complete source and garbled trees", "detail": {**desc, "missing": missing[:6]}, "key": "debugdir-incomplete:" + tkind})
                else:
                    st["debugdir_complete"] += 1
                    # second run over warm caches must give the same trees
                    h1 = tree_hash(dbg)
                    r2 = subprocess.run([E.garble] + gflags + args, cwd=root, env=E.env(), capture_output=True, text=True, timeout=900)
                    h2 = tree_hash(dbg)
                    if r2.returncode != 0 or h1 != h2:
                        fails.append({"why": "with warm caches the debug dir is not restored to the same complete content", "detail": {**desc, "second_exit": r2.returncode, "files": [h1[1], h2[1]]}, "key": "debugdir-warm-differs"})
        chk.add_sample({"command": plan[0][0], "outcome": plan[0][1], "debugdir_target": plan[0][2]})
    finally:
        E.cleanup()
    seen = set()
    for f in fails:
        if f["key"] not in seen:
            seen.add(f["key"])
            chk.violation(f["why"] + ": " + str(f["detail"])[:500], {"kind": "files", **f}, True, key=f["key"])
    chk.cov["rule"] = ("enumeration of command {build, run, test, reverse, map} x outcome {success, go list error, type error, compile error in a dependency, link error, bad flags} x pre-existing -debugdir target "
                       "{none, absent, empty, owned, foreign files, foreign subdirectories, symlink to foreign, regular file}; after each run: recursive hash of the source tree, TMPDIR listing, hash of the foreign target, "
                       "completeness of <debugdir>/source and /garbled, and equality of the debug dir after a second (warm) run")
    chk.assumptions += ["that garble writes nowhere else on the file system is observed on the source tree, TMPDIR and the debug dir only: partial"]
    return chk.finish()
