import Lean
/-
Axiom audit: `lake env lean --run Audit.lean GV.Props.C16 …` loads the compiled modules and prints, for every
theorem declared in each of them, the axioms its proof depends on (`Lean.collectAxioms`).
Output: `THEOREM <module> <name> : <axiom> <axiom> …` and `DEF <module> <name>` for non-theorem declarations.
-/
open Lean

def isInternal (n : Name) : Bool :=
  n.isInternal || (n.components.any fun c => match c with
    | .str _ s => s.startsWith "_" || s == "match_1" || s.startsWith "match_" || s.startsWith "proof_" || s.startsWith "eq_" || s == "eq_def" || s == "induct" || s == "induct_unfolding" || s == "fun_cases" || s == "fun_cases_unfolding" || s.startsWith "sizeOf_spec" || s == "injEq" || s == "inj" || s == "noConfusion" || s == "noConfusionType" || s == "rec" || s == "recOn" || s == "casesOn" || s == "below" || s == "brecOn" || s == "ctorIdx" || s == "toCtorIdx" || s == "ctorElim" || s == "ctorElimType"
    | _ => false)

instance : MonadEnv (StateM Environment) where
  getEnv := get
  modifyEnv f := modify f

unsafe def main (args : List String) : IO Unit := do
  initSearchPath (← findSysroot)
  let mods := args.map (fun s => s.toName)
  let env ← importModules (mods.map (fun m => { module := m })).toArray {} (loadExts := false)
  for m in mods do
    let some idx := env.getModuleIdx? m | throw (IO.userError s!"module {m} not found")
    let names := env.header.moduleData[idx.toNat]!.constNames
    for n in names do
      if isInternal n then continue
      match env.find? n with
      | some (.thmInfo _) =>
        let axs := ((collectAxioms n : StateM Environment (Array Name)).run' env).toList.map toString
        IO.println s!"THEOREM {m} {n} : {" ".intercalate axs}"
      | some (.axiomInfo _) => IO.println s!"AXIOM {m} {n}"
      | _ => pure ()
