import GV.Model.NameHash
