import GV.Props.C01
import GV.Props.C02
import GV.Props.C12
import GV.Props.C13
import GV.Props.C14
import GV.Props.C15
import GV.Props.C16
import GV.Props.C20
