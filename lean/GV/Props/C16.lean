import GV.Proofs.NameHash
/-
C16 — Obfuscated names are well-formed, export-preserving and stable.

All theorems quantify over EVERY digest `sum` (any byte list with at least `neededSumBytes + 1` bytes; SHA-256
gives 32) and every name class, hence over every salt, seed and original name.  SHA-256 is executed by the
correspondence check and never reasoned about.
-/
namespace GV.Props.C16
open GV.Gen GV.Base64 GV.NameHash

/-- view of the produced name in terms of the 6-bit groups of the digest prefix -/
def syms (sum : List UInt8) : List Nat := (sextets (sum.take neededSumBytes)).take (hashLength sum)

theorem encodeName_eq (sum : List UInt8) (cls : NameClass) :
    encodeName sum cls =
      match syms sum with
      | [] => []
      | s :: rest => fixFirst cls (b64char s) :: rest.map (fun s => fixDash (b64char s)) := by
  unfold encodeName syms encode
  rw [← List.map_take]
  cases h : List.take (hashLength sum) (sextets (List.take neededSumBytes sum)) with
  | nil => simp
  | cons s rest => simp [List.map_map]

theorem syms_lt (sum : List UInt8) : ∀ s ∈ syms sum, s < 64 := by
  intro s hs
  exact sextets_lt _ s (List.mem_of_mem_take hs)

theorem syms_length (sum : List UInt8) (h : neededSumBytes ≤ sum.length) :
    (syms sum).length = hashLength sum := by
  unfold syms
  have hb := hashLength_bounds sum
  rw [List.length_take, sextets_length, List.length_take]
  unfold neededSumBytes maxHashLength at *
  omega

theorem encodeName_length (sum : List UInt8) (cls : NameClass) (h : neededSumBytes ≤ sum.length) :
    (encodeName sum cls).length = hashLength sum := by
  rw [encodeName_eq, ← syms_length sum h]
  cases syms sum <;> simp

/-- **length**: every obfuscated name has between `minHashLength` and `maxHashLength` characters … -/
theorem length_bounds (sum : List UInt8) (cls : NameClass) (h : neededSumBytes ≤ sum.length) :
    minHashLength ≤ (encodeName sum cls).length ∧ (encodeName sum cls).length ≤ maxHashLength := by
  rw [encodeName_length sum cls h]; exact hashLength_bounds sum

/-- … and those constants, as they stand in /repo now (regenerated `Gen.Consts`), are the documented 6 and 12 -/
theorem length_6_12 (sum : List UInt8) (cls : NameClass) (h : neededSumBytes ≤ sum.length) :
    6 ≤ (encodeName sum cls).length ∧ (encodeName sum cls).length ≤ 12 :=
  length_bounds sum cls h

/-- **charset**: letters, digits and underscore only -/
theorem charset (sum : List UInt8) (cls : NameClass) :
    ∀ c ∈ encodeName sum cls, isNameChar c = true := by
  rw [encodeName_eq]
  have hlt := syms_lt sum
  cases hs : syms sum with
  | nil => simp
  | cons s rest =>
    rw [hs] at hlt
    intro c hc
    simp only [List.mem_cons, List.mem_map] at hc
    rcases hc with hc | ⟨t, ht, hc⟩
    · subst hc; exact sym_first_char ⟨s, hlt s (by simp)⟩ cls
    · subst hc; exact sym_rest_ok ⟨t, hlt t (by simp [ht])⟩

/-- **lexical identifier**: non-empty and starting with a letter or underscore (with `charset`: an identifier) -/
theorem lexical_identifier (sum : List UInt8) (cls : NameClass) (h : neededSumBytes ≤ sum.length) :
    ∃ c rest, encodeName sum cls = c :: rest ∧ isNameStart c = true := by
  have hl := syms_length sum h
  have hb := hashLength_bounds sum
  have hlt := syms_lt sum
  rw [encodeName_eq]
  cases hs : syms sum with
  | nil => rw [hs] at hl; simp at hl; unfold minHashLength at hb; omega
  | cons s rest =>
    rw [hs] at hlt
    exact ⟨_, _, rfl, sym_first_start ⟨s, hlt s (by simp)⟩ cls⟩

/-- **export preserved**: exported originals give an upper-case first letter … -/
theorem exported_upper (sum : List UInt8) (c : UInt8) (rest : List UInt8)
    (h : encodeName sum .exported = c :: rest) : isUpper c = true := by
  have hlt := syms_lt sum
  rw [encodeName_eq] at h
  cases hs : syms sum with
  | nil => rw [hs] at h; simp at h
  | cons s r =>
    rw [hs] at h hlt; simp only [List.cons.injEq] at h
    rw [← h.1]; exact sym_first_exported ⟨s, hlt s (by simp)⟩

/-- … and unexported originals never do -/
theorem unexported_not_upper (sum : List UInt8) (c : UInt8) (rest : List UInt8)
    (h : encodeName sum .unexported = c :: rest) : isUpper c = false := by
  have hlt := syms_lt sum
  rw [encodeName_eq] at h
  cases hs : syms sum with
  | nil => rw [hs] at h; simp at h
  | cons s r =>
    rw [hs] at h hlt; simp only [List.cons.injEq] at h
    rw [← h.1]; exact sym_first_unexported ⟨s, hlt s (by simp)⟩

/-- two 6-bit groups the name encoding cannot tell apart: equal, or the pair `a` / `-` -/
def SymEquiv (m n : Nat) : Prop := m = n ∨ (m = 26 ∧ n = 62) ∨ (m = 62 ∧ n = 26)

/-- pointwise relation between two lists of equal length (core Lean has no `Forall2`) -/
inductive Forall2 (R : α → β → Prop) : List α → List β → Prop
  | nil : Forall2 R [] []
  | cons {a b l1 l2} : R a b → Forall2 R l1 l2 → Forall2 R (a :: l1) (b :: l2)

theorem map_fixDash_equiv : ∀ (l1 l2 : List Nat), (∀ s ∈ l1, s < 64) → (∀ s ∈ l2, s < 64) →
    l1.map (fun s => fixDash (b64char s)) = l2.map (fun s => fixDash (b64char s)) →
    Forall2 SymEquiv l1 l2 := by
  intro l1
  induction l1 with
  | nil => intro l2 _ _ h; cases l2 with
    | nil => exact .nil
    | cons => simp at h
  | cons a l1 ih =>
    intro l2 h1 h2 h
    cases l2 with
    | nil => simp at h
    | cons b l2 =>
      simp only [List.map_cons, List.cons.injEq] at h
      refine .cons ?_ (ih l2 (fun s hs => h1 s (by simp [hs])) (fun s hs => h2 s (by simp [hs])) h.2)
      have := sym_rest_inj ⟨a, h1 a (by simp)⟩ ⟨b, h2 b (by simp)⟩ h.1
      rcases this with e | e | e
      · left; exact congrArg Fin.val e
      · right; left; exact e
      · right; right; exact e

/-- **collision needs a hash-prefix collision**: if two digests produce the same name (whatever the classes),
the names have equal length and every 6-bit group after the first agrees up to the single `a`/`-` merge.
With `length_6_12` that is at least five agreeing groups (≥ 30 bits less one merge each) of the SHA-256 prefix:
distinct identifiers clash only through a genuine collision of the cryptographic hash prefix. -/
theorem collision_needs_prefix (s1 s2 : List UInt8) (c1 c2 : NameClass)
    (h1 : neededSumBytes ≤ s1.length) (h2 : neededSumBytes ≤ s2.length)
    (heq : encodeName s1 c1 = encodeName s2 c2) :
    hashLength s1 = hashLength s2 ∧ Forall2 SymEquiv (syms s1).tail (syms s2).tail := by
  constructor
  · rw [← encodeName_length s1 c1 h1, ← encodeName_length s2 c2 h2, heq]
  · have l1 := syms_lt s1
    have l2 := syms_lt s2
    rw [encodeName_eq, encodeName_eq] at heq
    cases e1 : syms s1 with
    | nil =>
      cases e2 : syms s2 with
      | nil => exact .nil
      | cons => rw [e1, e2] at heq; simp at heq
    | cons a r1 =>
      cases e2 : syms s2 with
      | nil => rw [e1, e2] at heq; simp at heq
      | cons b r2 =>
        rw [e1, e2] at heq; rw [e1] at l1; rw [e2] at l2
        simp only [List.cons.injEq] at heq
        exact map_fixDash_equiv r1 r2 (fun s hs => l1 s (by simp [hs])) (fun s hs => l2 s (by simp [hs])) heq.2

/-- at least five groups take part in `collision_needs_prefix` -/
theorem collision_groups (s : List UInt8) (h : neededSumBytes ≤ s.length) : 5 ≤ (syms s).tail.length := by
  have := syms_length s h; have hb := hashLength_bounds s
  unfold minHashLength at hb; rw [List.length_tail]; omega

/-- **pure**: the name is a function of (salt, seed, name, class) — immediate for the model; for the
implementation (three global scratch buffers) this clause is carried by the history correspondence. -/
theorem pure (salt seed name : List UInt8) (cls : NameClass) :
    hashName salt seed name cls = encodeName (GV.Sha256.sumList (salt ++ seed ++ name)) cls := rfl

/-- non-vacuity: a concrete digest meets the hypotheses and produces a 9-character exported name -/
example : neededSumBytes ≤ (List.replicate 32 (0xfb : UInt8)).length := by decide
example : encodeName (List.replicate 32 (0xfb : UInt8)) .exported =
    [65, 95, 118, 55, 97, 95, 118, 55, 97, 95, 118, 55] := by decide   -- "A_v7a_v7a_v7"

end GV.Props.C16
