import GV.Model.Scope
/-
C14 — GOGARBLE selects exactly which packages are obfuscated.
-/
set_option linter.unusedSimpArgs false
namespace GV.Props.C14
open GV.Scope GV.Naming GV.Salt

/-- **scope exact**: a package is obfuscated iff it is not the runtime or one of its dependencies (nor runtime/cgo, nor
a fips140 package), has Go files, and is a test main, the command-line-arguments package, an unnamed plugin, or
matches GOGARBLE -/
theorem scope_exact (gg : Bytes) (p : Listed) :
    toObfuscate gg p = true ↔
      (neverObfuscated (decisionPath p) = false ∧ p.nGoFiles ≠ 0 ∧
        (alwaysObfuscated p (decisionPath p) = true ∨ matchPrefixPatterns gg (decisionPath p) = true)) := by
  unfold toObfuscate
  simp only
  cases neverObfuscated (decisionPath p) <;> by_cases h : p.nGoFiles = 0 <;> simp [h]

/-- **the runtime and its dependencies are never obfuscated**, whatever GOGARBLE says (also `GOGARBLE=*`) -/
theorem runtime_never (gg : Bytes) (p : Listed) (h : inList GV.Gen.runtimeAndDeps (decisionPath p) = true) :
    toObfuscate gg p = false := by
  unfold toObfuscate neverObfuscated; simp [h]

/-- the regenerated table does contain the runtime itself and the packages the property names -/
theorem runtime_in_table : inList GV.Gen.runtimeAndDeps (str "runtime") = true ∧
    inList GV.Gen.runtimeAndDeps (str "internal/abi") = true ∧ inList GV.Gen.runtimeAndDeps (str "unsafe") = true := by decide

/-- **foo_test follows foo**: a test variant (`ForTest = foo`) is decided on foo's path, so the external test package
and the package recompiled for the test are in scope exactly when GOGARBLE matches foo -/
theorem fortest_follows (gg : Bytes) (p q : Listed) (hf : p.forTest = q.importPath) (hq : q.forTest = [])
    (hne : q.importPath ≠ []) (hn : p.nGoFiles ≠ 0) (hm : q.nGoFiles ≠ 0)
    (ha : alwaysObfuscated p q.importPath = alwaysObfuscated q q.importPath) :
    toObfuscate gg p = toObfuscate gg q := by
  have hp : decisionPath p = q.importPath := by
    unfold decisionPath; rw [hf]; cases h : q.importPath with
    | nil => exact absurd h hne
    | cons c r => simp
  have hq' : decisionPath q = q.importPath := by unfold decisionPath; simp [hq]
  unfold toObfuscate
  simp only [hp, hq', ha]
  cases neverObfuscated q.importPath <;> simp [hn, hm]

/-- **out of scope ⇒ untouched names**: every object of a package that is not to be obfuscated keeps its name, the
package keeps its import path and its package name (positions and literals are guarded by the same flag in
printFile / transformGoFile; that guard is exercised by the tie) -/
theorem out_of_scope_names (env : Env) (o : Obj) (path : Bytes) (lp : Pkg)
    (hp : o.pkgPath = some path) (hl : env.lookup path = .found lp) (hn : lp.toObfuscate = false) :
    decideObj env o = .keep := by
  unfold decideObj
  simp only [hp, hl, hn]
  split <;> simp

theorem out_of_scope_import_path (cfg : Cfg) (lp : Pkg) (hn : lp.toObfuscate = false)
    (hm : ¬ (lp.name = str "main" ∧ lp.forTest = [])) : obfImportPath cfg lp = some lp.path := by
  unfold obfImportPath
  have : (lp.name == str "main" && lp.forTest.isEmpty) = false := by
    cases h1 : lp.name == str "main" <;> cases h2 : lp.forTest.isEmpty <;> simp
    exact hm ⟨by simpa using h1, by simpa using h2⟩
  simp [this, hn]

theorem out_of_scope_package_name (cfg : Cfg) (lp : Pkg) (cls) (hn : lp.toObfuscate = false) :
    obfPackageName cfg lp cls = some lp.name := by
  unfold obfPackageName; simp [hn]

/-- **nothing matches ⇒ error**: if no listed package is in scope and GOGARBLE does not name the runtime either, the
top-level listing fails instead of producing an unobfuscated binary -/
theorem nothing_matches_is_error (gg : Bytes) (pkgs : List Listed)
    (h1 : ∀ p ∈ pkgs, toObfuscate gg p = false) (h2 : matchPrefixPatterns gg (str "runtime") = false) :
    nothingMatchesError gg pkgs = true := by
  unfold nothingMatchesError
  have : pkgs.any (toObfuscate gg) = false := by
    rw [List.any_eq_false]; intro p hp; simp [h1 p hp]
  simp [this, h2]

/-- sanity of the pattern matcher on the shapes the property names: exact path, prefix, glob, comma list -/
example : matchPrefixPatterns (str "example.com/mod") (str "example.com/mod/pkg/sub") = true := by decide
example : matchPrefixPatterns (str "example.com/mod/pkg") (str "example.com/mod") = false := by decide
example : matchPrefixPatterns (str "example.com/*/pkg,other") (str "example.com/mod/pkg") = true := by decide
example : matchPrefixPatterns (str "example.com/mo?") (str "example.com/mod/x") = true := by decide
example : matchPrefixPatterns (str "*") (str "any/thing") = true := by decide
example : matchPrefixPatterns (str ",") (str "x") = false := by decide

end GV.Props.C14
