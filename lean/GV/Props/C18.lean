import GV.Props.C17
/-
C18 — An interrupted build leaves nothing that breaks the next one (the linker protocol part).

Crashes are steps of the protocol model (`Step.crash`, enabled at every point; the lock is released by the OS, files
stay as they are).  From EVERY state reachable through any interleaving and any number of crashes, once no process
holds the lock a fresh process completes the protocol and runs a complete linker of its own version.  Cache entries
are covered by C07 (`get_never_wrong`: an entry cut short by a crash is a miss).  OS behaviour (flock release on
kill -9, rename atomicity) is outside the model: partial; the kill sweep samples it.
-/
set_option linter.unusedSimpArgs false
namespace GV.Props.C18
open GV.Protocol GV.Props.C17

/-- stamp after the build, lock held while the linker runs: the regenerated step orders (shared with C17) -/
theorem stamp_written_last : GV.Gen.linkerSteps.getLast? = some "writeVersion" := by decide

/-- **rerun after any crash sequence**: let `s` be ANY state reachable from any initial cache state (so: after any
number of runs, interleavings and crashes — partial binary, old/new/absent stamp, …) in which the lock is free and
process `p` has not started.  Then `p` can run the protocol to the point where it executes the linker, and in
whatever state it gets there the linker binary is complete and of `p`'s version. -/
theorem rerun_after_crash (ver : Pid → Ver) (bin : Bin) (stamp : Option Ver)
    (h0 : ∀ v, stamp = some v → bin = .complete v) (s : State) (r : Reach (initial ver bin stamp) s)
    (p : Pid) (hidle : s.pc p = .idle) (hfree : s.owner = none) :
    ∃ t, Reach s t ∧ t.pc p = .running ∧ t.bin = .complete (t.ver p) := by
  have hinv := inv_reach _ _ (inv_initial ver bin stamp h0) r
  -- lock
  let s1 := setPc { s with owner := some p } p .checking
  have r1 : Reach s s1 := .step (.refl s) (.lock s p hidle hfree)
  have hpc1 : s1.pc p = .checking := by simp [s1, setPc]
  cases hok : linkerOK s1 p with
  | true =>
    let s2 := setPc s1 p .running
    have r2 : Reach s s2 := .step r1 (.reuse s1 p hpc1 hok)
    refine ⟨s2, r2, by simp [s2, setPc], ?_⟩
    have := (inv_reach _ _ hinv r2).haveBin p (Or.inr (Or.inr (by simp [s2, setPc])))
    exact this
  | false =>
    let s2 := setPc { s1 with bin := .part (s1.ver p), stamp := none } p .building
    have r2 : Reach s s2 := .step r1 (.startBuild s1 p hpc1 hok)
    let s3 := setPc { s2 with bin := .complete (s2.ver p) } p .built
    have r3 : Reach s s3 := .step r2 (.finishBuild s2 p (by simp [s2, setPc]))
    let s4 := setPc { s3 with stamp := some (s3.ver p) } p .stamped
    have r4 : Reach s s4 := .step r3 (.writeStamp s3 p (by simp [s3, setPc]))
    let s5 := setPc s4 p .running
    have r5 : Reach s s5 := .step r4 (.toRun s4 p (by simp [s4, setPc]))
    refine ⟨s5, r5, by simp [s5, setPc], ?_⟩
    exact (inv_reach _ _ hinv r5).haveBin p (Or.inr (Or.inr (by simp [s5, setPc])))

/-- a crash at any point of any process is a step of the model, so the theorem above quantifies over kills during
the stamp check, during the linker build (partial binary on disk), between build and stamp, and while linking -/
example (s : State) (p : Pid) (h1 : s.pc p = .building) : ∃ t, Step s t ∧ t.pc p = .dead :=
  ⟨_, .crash s p (by simp [h1]) (by simp [h1]), by simp [setPc]⟩

/-! ### the stamp file -/

/-- what `writeVersion` writes validates for exactly the binary it was written for (same size), under the same versions -/
theorem stamp_validates_own_binary (gv pv : Bytes) (size : Nat) :
    reusable (some (stampFor gv pv size)) (some size) gv pv = true := by
  simp [reusable]

/-- no version file, or no binary: never reused (the linker is rebuilt) -/
theorem missing_file_never_reused (st : Option Bytes) (sz : Option Nat) (gv pv : Bytes) :
    reusable none sz gv pv = false ∧ reusable st none gv pv = false := by
  constructor
  · cases sz <;> rfl
  · cases st <;> rfl

/-- an empty or truncated stamp file (a writer killed mid-write leaves a proper prefix) never validates -/
theorem truncated_stamp_never_validates (gv pv : Bytes) (size sz : Nat) (k : Nat)
    (hk : k < (stampFor gv pv size).length) (gv' pv' : Bytes)
    (hsame : (stampFor gv' pv' sz).length = (stampFor gv pv size).length) :
    reusable (some ((stampFor gv pv size).take k)) (some sz) gv' pv' = false := by
  simp only [reusable, beq_eq_false_iff_ne, ne_eq]
  intro e
  have := congrArg List.length e
  simp only [List.length_take] at this
  omega

end GV.Props.C18
