import GV.Props.C06
/-
C07 — Missing or damaged cache entries are recomputed, never trusted.

Two layers.  (1) The store: `get_never_wrong` — after ANY sequence of faults (entries deleted, emptied/truncated,
whole cache wiped) a lookup either misses or returns exactly the value that was put (C06's `fault_sound` +
`history_correct` already give: every build in every history of builds and faults returns the cold result).
(2) The recursion of `loadPkgCache` / `computePkgCache` over the import graph: if every readable entry is sound,
loading any package — recomputing missing dependencies recursively, at any depth — returns what a computation from
empty caches returns.
-/
set_option linter.unusedSimpArgs false
namespace GV.Props.C07
open GV.Cache GV.Props.C06

variable {K V : Type} [DecidableEq K]

/-- a sequence of faults -/
def faults (s : Store K V) : List (Fault K) → Store K V
  | [] => s
  | f :: fs => faults (s.fault f) fs

/-- **a lookup is never wrong**: starting from a store in which every readable entry is the value put for its key,
after any fault sequence a lookup misses or returns that value -/
theorem get_never_wrong (cold : K → V) : ∀ (fs : List (Fault K)) (s : Store K V), s.Sound cold →
    ∀ k, (faults s fs).get k = none ∨ (faults s fs).get k = some (cold k)
  | [], s, h, k => by
    cases hg : s.get k with
    | none => left; simpa [faults] using hg
    | some v => right; simp [faults, hg, h k v hg]
  | f :: fs, s, h, k => get_never_wrong cold fs (s.fault f) (fault_sound s cold f h) k

/-- the import graph: packages are numbered so that dependencies have smaller numbers -/
structure Graph where
  deps : Nat → List Nat
  acyclic : ∀ p d, d ∈ deps p → d < p

/-- the result of analysing package `p` from EMPTY caches: its own analysis `f` applied to the results of its direct
dependencies (each of which is "deep": already merged with its own dependencies) -/
def cold (g : Graph) (f : Nat → List V → V) (p : Nat) : V :=
  f p ((g.deps p).attach.map fun ⟨d, hd⟩ => cold g f d)
termination_by p
decreasing_by exact g.acyclic p d hd

/-- `loadPkgCache`: a hit is trusted; on a miss the entry is computed from the (recursively loaded) dependencies.
(The write-back of computed entries does not change results — `build_sound` — and is left out of this pure view.) -/
def load (g : Graph) (f : Nat → List V → V) (s : Store Nat V) (p : Nat) : V :=
  match s.get p with
  | some v => v
  | none => f p ((g.deps p).attach.map fun ⟨d, hd⟩ => load g f s d)
termination_by p
decreasing_by exact g.acyclic p d hd

/-- **load = cold**: with only sound entries present (any subset of packages, at any depth of the import graph), every
package loads to exactly its cold result -/
theorem load_eq_cold (g : Graph) (f : Nat → List V → V) (s : Store Nat V) (hs : s.Sound (cold g f)) :
    ∀ p, load g f s p = cold g f p := by
  intro p
  induction p using Nat.strongRecOn with
  | _ p ih =>
    unfold load
    cases hg : s.get p with
    | some v => exact hs p v hg
    | none =>
      simp only
      rw [cold]
      congr 1
      apply List.map_congr_left
      intro ⟨d, hd⟩ _
      exact ih d (g.acyclic p d hd)

/-- … and this stays true after any sequence of faults on a sound cache: the next build behaves like a build from
empty caches, whatever subset of entries was deleted, emptied or truncated -/
theorem load_after_faults (g : Graph) (f : Nat → List V → V) (s : Store Nat V) (hs : s.Sound (cold g f))
    (fs : List (Fault Nat)) (p : Nat) : load g f (faults s fs) p = cold g f p := by
  have : (faults s fs).Sound (cold g f) := by
    induction fs generalizing s with
    | nil => exact hs
    | cons x xs ih => exact ih (s.fault x) (fault_sound s _ x hs)
  exact load_eq_cold g f _ this p

/-- non-vacuity: a diamond-shaped graph 3 → {1, 2} → 0 -/
def diamond : Graph :=
  ⟨fun p => match p with | 3 => [1, 2] | 2 => [0] | 1 => [0] | _ => [],
   by intro p d h; match p, h with
      | 3, h => simp at h; omega
      | 2, h => simp at h; omega
      | 1, h => simp at h; omega
      | 0, h => simp at h
      | _ + 4, h => simp at h⟩
example : diamond.deps 3 = [1, 2] ∧ diamond.deps 1 = [0] := ⟨rfl, rfl⟩

end GV.Props.C07
