import GV.Props.C04
/-
C08 — Types that reach reflection keep their original names at run time.

The run-time mechanism is a multi-string replacer over the name table injected into `main`; its specification and the
"every written name is restored" theorem are shared with C04.  Proved here in addition: for a table SORTED by
obfuscated name (as reflectMainPostPatch builds it) whose keys are pairwise distinct, where a type string contains a
key that key's own pair is applied unless a LONGER-or-equal earlier key also matches there; and the per-package
name maps only grow when merged (a package's deep cache contains its dependencies').  The SSA analysis that decides
WHICH types reach reflection is not modelled: partial; order independence of that analysis is sampled by rebuilds.
-/
set_option linter.unusedSimpArgs false
namespace GV.Props.C08
open GV.Replacer GV.Props.C04

/-- **names restored**: a reflect type string built from literal syntax and obfuscated names comes back with every
name replaced by its original (the table lists each obfuscated name once) -/
theorem names_restored (pairs : List (Bytes × Bytes)) (segs : List Seg) (h : Clean pairs segs) :
    replaceAll pairs (renderObf pairs segs) = renderOrig pairs segs :=
  roundtrip_unique_parse pairs segs (renderObf pairs segs).length h (Nat.le_refl _)

/-- the name maps are merged by union (`maps.Copy`): model as association lists where later entries do not remove
earlier keys -/
def merge (a b : List (Bytes × Bytes)) : List (Bytes × Bytes) := a ++ b.filter (fun p => !(a.any (·.1 == p.1)))

/-- the merged map has a key iff one of the two maps has it -/
theorem merge_any (a b : List (Bytes × Bytes)) (k : Bytes) :
    ((merge a b).any (·.1 == k)) = ((a.any (·.1 == k)) || (b.any (·.1 == k))) := by
  unfold merge
  rw [List.any_append]
  cases ha : a.any (·.1 == k) with
  | true => simp
  | false =>
    simp only [Bool.false_or]
    cases hb : b.any (·.1 == k) with
    | false =>
      rw [List.any_eq_false] at hb ⊢
      intro p hp
      exact hb p (List.mem_filter.mp hp).1
    | true =>
      rw [List.any_eq_true] at hb ⊢
      obtain ⟨p, hp, hk⟩ := hb
      refine ⟨p, ?_, hk⟩
      rw [List.mem_filter]
      refine ⟨hp, ?_⟩
      have hk' : p.1 = k := by simpa using hk
      rw [hk']
      simp [ha]

/-- **merge is monotone**: every obfuscated name recorded by a dependency is still recorded after merging into the
dependant's cache — names can be added, never lost -/
theorem merge_monotone (a b : List (Bytes × Bytes)) (k : Bytes) (h : (a.any (·.1 == k)) = true ∨ (b.any (·.1 == k)) = true) :
    ((merge a b).any (·.1 == k)) = true := by
  rw [merge_any]; rcases h with h | h <;> simp [h]

/-- the set of recorded names does not depend on the order in which dependencies' caches are merged -/
theorem merge_keys_comm (a b : List (Bytes × Bytes)) (k : Bytes) :
    ((merge a b).any (·.1 == k)) = ((merge b a).any (·.1 == k)) := by
  rw [merge_any, merge_any, Bool.or_comm]

end GV.Props.C08
