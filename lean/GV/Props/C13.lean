import GV.Model.Naming
/-
C13 — garble map, the build and garble reverse agree on every name.

`garble map` and the compile step call the SAME function (`obfuscatedObjectName`, modelled by `decideObj`), so
"map = build" is true by construction of the model; the content of that clause is carried by the tie (real
`garble map` output vs. the identifiers of the real build's garbled source).  `garble reverse` builds its table with
a THIRD piece of code (reverse.go:54-126), modelled here as `reversePairs`.
-/
set_option linter.unusedSimpArgs false
namespace GV.Props.C13
open GV.Naming GV.Salt GV.NameHash

/-- what `commandMap` lists for a package: every object whose decision is a rename -/
def mapEntries (env : Env) (objs : List (Bytes × Obj)) : List (Bytes × Bytes) :=
  objs.filterMap fun (key, o) => match decideObj env o with
    | .rename n => some (key, n)
    | _ => none

/-- **map = build** (by construction): an entry of `garble map` is exactly the decision the compile step takes -/
theorem map_eq_build (env : Env) (objs : List (Bytes × Obj)) (key n : Bytes) (h : (key, n) ∈ mapEntries env objs) :
    ∃ o, (key, o) ∈ objs ∧ decideObj env o = .rename n := by
  unfold mapEntries at h
  rw [List.mem_filterMap] at h
  obtain ⟨⟨k, o⟩, hm, hd⟩ := h
  cases hdo : decideObj env o with
  | keep => simp [hdo] at hd
  | panic => simp [hdo] at hd
  | rename n' => simp [hdo] at hd; exact ⟨o, by rw [← hd.1]; exact hm, by rw [hdo, hd.2]⟩

theorem map_lists_every_renamed (env : Env) (objs : List (Bytes × Obj)) (key n : Bytes) (o : Obj)
    (hm : (key, o) ∈ objs) (hd : decideObj env o = .rename n) : (key, n) ∈ mapEntries env objs := by
  unfold mapEntries
  rw [List.mem_filterMap]
  exact ⟨(key, o), hm, by simp [hd]⟩

/-- the name pairs `garble reverse` collects for one package (obfuscated, original): its import path, every FuncDecl
name, every TypeSpec name (all hashed with the package, unconditionally) and every struct field (hashed with its
struct), and — since the `fix:` commit for reverse — every package-level variable. -/
def reversePairs (env : Env) (p : Pkg) (funcDecls typeSpecs : List (Bytes × NameClass)) (fields : List (Bytes × NameClass × Nat))
    (vars : List (Bytes × NameClass) := []) :
    List (Option Bytes × Bytes) :=
  vars.map (fun (n, c) => (hashWithPackage env.cfg p.path p.gaid n c, n)) ++
  [(hashWithPackage env.cfg p.path p.gaid p.path p.pathCls, p.path)] ++
  funcDecls.map (fun (n, c) => (hashWithPackage env.cfg p.path p.gaid n c, n)) ++
  typeSpecs.map (fun (n, c) => (hashWithPackage env.cfg p.path p.gaid n c, n)) ++
  fields.map (fun (n, c, h) => ((structSaltBytes env.cfg h).bind (fun s => hashWithCustomSalt env.cfg s n c), n))

/-- **reverse inverts map, for functions, methods and types**: a declared function or type that the build renames
to `n` has the pair (n, original) in the reverse table -/
theorem reverse_has_func (env : Env) (p : Pkg) (fd ts vs : List (Bytes × NameClass)) (fs : List (Bytes × NameClass × Nat))
    (name : Bytes) (cls : NameClass) (o : Obj) (n : Bytes)
    (ho : o.kind = .func ∨ o.kind = .typeName) (hn : o.name = name) (hc : o.cls = cls) (hp : o.pkgPath = some p.path)
    (hl : env.lookup p.path = .found p) (hmem : (name, cls) ∈ fd ∨ (name, cls) ∈ ts)
    (hd : decideObj env o = .rename n) :
    (some n, name) ∈ reversePairs env p fd ts fs vs := by
  have hh : hashWithPackage env.cfg p.path p.gaid name cls = some n := by
    unfold decideObj at hd
    simp only [hp, hl] at hd
    split at hd; · simp at hd
    split at hd; · simp at hd
    rcases ho with ho | ho
    · simp only [ho] at hd
      repeat' (split at hd <;> try simp at hd)
      unfold pkgHash ofOpt at hd
      rw [hn, hc] at hd
      split at hd <;> simp_all
    · simp only [ho] at hd
      unfold pkgHash ofOpt at hd
      rw [hn, hc] at hd
      split at hd <;> simp_all
  unfold reversePairs
  rcases hmem with h | h
  · apply List.mem_append_left; apply List.mem_append_left; apply List.mem_append_right
    rw [List.mem_map]; exact ⟨(name, cls), h, by simp [hh]⟩
  · apply List.mem_append_left; apply List.mem_append_right
    rw [List.mem_map]; exact ⟨(name, cls), h, by simp [hh]⟩

/-- … and for struct fields -/
theorem reverse_has_field (env : Env) (p : Pkg) (fd ts vs : List (Bytes × NameClass)) (fs : List (Bytes × NameClass × Nat))
    (name : Bytes) (cls : NameClass) (h : Nat) (o : Obj) (n : Bytes)
    (ho : o.kind = .field) (hn : o.name = name) (hc : o.cls = cls) (hp : o.pkgPath = some p.path) (hs : o.structHash = some h)
    (hl : env.lookup p.path = .found p) (hmem : (name, cls, h) ∈ fs)
    (hd : decideObj env o = .rename n) :
    (some n, name) ∈ reversePairs env p fd ts fs vs := by
  have hh : (structSaltBytes env.cfg h).bind (fun s => hashWithCustomSalt env.cfg s name cls) = some n := by
    unfold decideObj at hd
    simp only [hp, hl, ho, hs] at hd
    split at hd; · simp at hd
    split at hd; · simp at hd
    unfold fieldHash ofOpt at hd
    rw [hn, hc] at hd
    split at hd <;> simp_all
  unfold reversePairs
  apply List.mem_append_right
  rw [List.mem_map]; exact ⟨(name, cls, h), hmem, by simp [hh]⟩

/-- the import path pair is always there -/
theorem reverse_has_import_path (env : Env) (p : Pkg) (fd ts vs : List (Bytes × NameClass)) (fs : List (Bytes × NameClass × Nat)) :
    (hashWithPackage env.cfg p.path p.gaid p.path p.pathCls, p.path) ∈ reversePairs env p fd ts fs vs := by
  unfold reversePairs; simp

/-- … and for package-level variables -/
theorem reverse_has_var (env : Env) (p : Pkg) (fd ts vs : List (Bytes × NameClass)) (fs : List (Bytes × NameClass × Nat))
    (name : Bytes) (cls : NameClass) (o : Obj) (n : Bytes)
    (ho : o.kind = .var) (hn : o.name = name) (hc : o.cls = cls) (hp : o.pkgPath = some p.path)
    (hl : env.lookup p.path = .found p) (hmem : (name, cls) ∈ vs)
    (hd : decideObj env o = .rename n) :
    (some n, name) ∈ reversePairs env p fd ts fs vs := by
  have hh : hashWithPackage env.cfg p.path p.gaid name cls = some n := by
    unfold decideObj at hd
    simp only [hp, hl, ho] at hd
    split at hd; · simp at hd
    split at hd; · simp at hd
    unfold pkgHash ofOpt at hd
    rw [hn, hc] at hd
    split at hd <;> simp_all
  unfold reversePairs
  apply List.mem_append_left; apply List.mem_append_left; apply List.mem_append_left; apply List.mem_append_left
  rw [List.mem_map]; exact ⟨(name, cls), hmem, by simp [hh]⟩

end GV.Props.C13
