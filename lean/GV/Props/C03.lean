import GV.Gen.Nondet
import GV.Model.Replacer
/-
C03 — Builds are reproducible bit for bit.

PARTIAL by nature: the Go compiler, assembler and linker are outside any model, and garble's whole pipeline is not
modelled as one function.  What is decided here is the part a proof can carry: *where* garble's own code could
depend on anything but its inputs, and that each such place is harmless.

`GV.Gen.nondetSites` is regenerated on every run: every `range` over a map, every `maps.Keys/Values/All`, every
package-level `math/rand` and `crypto/rand` call, clock / pid / hostname / temp-name / cwd reads, goroutines and
selects in garble's six packages (type-checked against export data), each with the class the expectation file gives
it; a new site or an edited statement is `.unclassified`.

For each class there is a theorem that the class's computation gives the same result for EVERY iteration order
(every permutation of the map's entries).  `no_order_dependent_site` then says the regenerated table has no site in
the `orderDependent` or `unclassified` class, `seeded_rand_only` that no package-level random source is used, and
`unproved_sites` pins the sites whose order-independence is only sampled.
-/
set_option linter.unusedSimpArgs false
namespace GV.Props.C03
open GV.Nondet GV.Replacer

/-! ### the classes: result is the same for every iteration order -/

/-- **setBuild**: building a set by insertion: membership does not depend on the order -/
theorem setBuild_perm {α : Type} [DecidableEq α] (l l' : List α) (h : l.Perm l') (init : List α) (x : α) :
    x ∈ l.foldl (fun s a => if a ∈ s then s else a :: s) init ↔ x ∈ l'.foldl (fun s a => if a ∈ s then s else a :: s) init := by
  have key : ∀ (l : List α) (init : List α), x ∈ l.foldl (fun s a => if a ∈ s then s else a :: s) init ↔ x ∈ init ∨ x ∈ l := by
    intro l
    induction l with
    | nil => intro init; simp
    | cons a t ih =>
      intro init
      simp only [List.foldl_cons, ih, List.mem_cons]
      by_cases ha : a ∈ init
      · simp only [ha, if_true]
        constructor
        · rintro (h | h)
          · exact Or.inl h
          · exact Or.inr (Or.inr h)
        · rintro (h | h | h)
          · exact Or.inl h
          · subst h; exact Or.inl ha
          · exact Or.inr h
      · simp only [ha, if_false, List.mem_cons]
        constructor
        · rintro ((h | h) | h)
          · exact Or.inr (Or.inl h)
          · exact Or.inl h
          · exact Or.inr (Or.inr h)
        · rintro (h | h | h)
          · exact Or.inl (Or.inr h)
          · exact Or.inl (Or.inl h)
          · exact Or.inr h
  rw [key, key, h.mem_iff]

/-- **anyMatch**: an existence test -/
theorem anyMatch_perm {α : Type} (l l' : List α) (h : l.Perm l') (p : α → Bool) : l.any p = l'.any p := by
  rw [Bool.eq_iff_iff]
  simp only [List.any_eq_true]
  constructor
  · rintro ⟨x, hx, hp⟩; exact ⟨x, h.mem_iff.mp hx, hp⟩
  · rintro ⟨x, hx, hp⟩; exact ⟨x, h.mem_iff.mpr hx, hp⟩

/-- **commutative**: accumulation with an operation that commutes on the right -/
theorem commutative_perm {α β : Type} (f : β → α → β) (hf : ∀ b a a', f (f b a) a' = f (f b a') a)
    (l l' : List α) (h : l.Perm l') (init : β) : l.foldl f init = l'.foldl f init := by
  induction h generalizing init with
  | nil => rfl
  | cons a _ ih => simp only [List.foldl_cons, ih]
  | swap a a' t => simp only [List.foldl_cons, hf]
  | trans _ _ ih1 ih2 => rw [ih1, ih2]

/-- **collectSort**: collect (with any filter), then sort by a total, antisymmetric order: one result for all orders -/
theorem collectSort_perm {α : Type} (le : α → α → Bool)
    (total : ∀ a b, le a b || le b a) (trans : ∀ a b c, le a b → le b c → le a c) (antisymm : ∀ a b, le a b → le b a → a = b)
    (l l' : List α) (h : l.Perm l') (p : α → Bool) :
    (l.filter p).mergeSort le = (l'.filter p).mergeSort le := by
  have hp : ((l.filter p).mergeSort le).Perm ((l'.filter p).mergeSort le) :=
    (List.mergeSort_perm _ _).trans ((h.filter p).trans (List.mergeSort_perm _ _).symm)
  have s1 := List.pairwise_mergeSort (le := le) (fun a b c => trans a b c) (fun a b => total a b) (l.filter p)
  have s2 := List.pairwise_mergeSort (le := le) (fun a b c => trans a b c) (fun a b => total a b) (l'.filter p)
  exact hp.eq_of_pairwise (fun a b _ _ hab hba => antisymm a b hab hba) s1 s2

/-- **perKeyIndependent**: each entry writes only the slot of its own key, and keys are distinct (map keys):
the final content of every slot is the same for every order -/
theorem perKey_perm {κ ν : Type} [DecidableEq κ] (l l' : List (κ × ν)) (h : l.Perm l')
    (nodup : (l.map (·.1)).Nodup) (k : κ) :
    l.lookup k = l'.lookup k := by
  have nodup' : (l'.map (·.1)).Nodup := (h.map (·.1)).nodup_iff.mp nodup
  have key : ∀ (l : List (κ × ν)), (l.map (·.1)).Nodup → ∀ v, l.lookup k = some v ↔ (k, v) ∈ l := by
    intro l
    induction l with
    | nil => intro _ v; simp
    | cons p t ih =>
      intro nd v
      obtain ⟨k0, v0⟩ := p
      simp only [List.map_cons, List.nodup_cons, List.mem_map] at nd
      by_cases hk : k = k0
      · subst hk
        simp only [List.lookup_cons_self, Option.some.injEq, List.mem_cons, Prod.mk.injEq, true_and]
        constructor
        · intro e; exact Or.inl e.symm
        · rintro (e | e)
          · exact e.symm
          · exact absurd ⟨(k, v), e, rfl⟩ nd.1
      · have : (k == k0) = false := by simpa using hk
        simp only [List.lookup_cons, this, ih nd.2 v, List.mem_cons, Prod.mk.injEq, hk, false_and, false_or]
  cases h1 : l.lookup k with
  | some v =>
    have := (key l nodup v).mp h1
    exact ((key l' nodup' v).mpr (h.mem_iff.mp this)).symm
  | none =>
    cases h2 : l'.lookup k with
    | none => rfl
    | some v =>
      have := (key l' nodup' v).mp h2
      have := (key l nodup v).mpr (h.mem_iff.mpr this)
      rw [h1] at this; cases this

theorem eq_of_nodup_keys {κ ν : Type} : ∀ (l : List (κ × ν)), (l.map (·.1)).Nodup → ∀ p q, p ∈ l → q ∈ l → p.1 = q.1 → p = q
  | [], _, _, _, hp, _, _ => by cases hp
  | a :: t, nd, p, q, hp, hq, e => by
    simp only [List.map_cons, List.nodup_cons, List.mem_map] at nd
    rcases List.mem_cons.mp hp with hp1 | hp1 <;> rcases List.mem_cons.mp hq with hq1 | hq1
    · rw [hp1, hq1]
    · subst hp1; exact absurd ⟨q, hq1, e.symm⟩ nd.1
    · subst hq1; exact absurd ⟨p, hp1, e⟩ nd.1
    · exact eq_of_nodup_keys t nd.2 p q hp1 hq1 e

/-- first match in a list sorted by a relation: every other matching element is related to it -/
theorem find?_first {α : Type} (R : α → α → Prop) (f : α → Bool) (l : List α) (hs : l.Pairwise R) (p q : α)
    (hp : l.find? f = some p) (hq : q ∈ l) (hfq : f q = true) : p = q ∨ R p q := by
  induction l with
  | nil => cases hq
  | cons a t ih =>
    rw [List.pairwise_cons] at hs
    by_cases hfa : f a = true
    · simp only [List.find?_cons, hfa, Option.some.injEq] at hp
      subst hp
      rcases List.mem_cons.mp hq with e | e
      · exact Or.inl e.symm
      · exact Or.inr (hs.1 q e)
    · have hfa' : f a = false := by simpa using hfa
      simp only [List.find?_cons, hfa'] at hp
      rcases List.mem_cons.mp hq with e | e
      · subst e; rw [hfa'] at hfq; cases hfq
      · exact ih hs.2 hp e

theorem isPrefixOf_eq_of_length {a b s : Bytes} (ha : a.isPrefixOf s = true) (hb : b.isPrefixOf s = true)
    (hl : a.length = b.length) : a = b := by
  rw [List.isPrefixOf_iff_prefix] at ha hb
  obtain ⟨ra, rfl⟩ := ha
  obtain ⟨rb, hb⟩ := hb
  exact (List.append_inj hb.symm hl).1

/-- **lengthSortedReplacer** (the go_asm.h name replacer, transformer.go): the pairs are the entries of a map (distinct
keys) sorted by descending key length only; among keys of equal length the order is whatever the map gave.  For EVERY
two such orderings the pair applied at any position is the same, hence the whole replacement is. -/
theorem lengthSorted_firstMatch (ps ps' : List (Bytes × Bytes)) (h : ps.Perm ps')
    (nodup : (ps.map (·.1)).Nodup)
    (s1 : ps.Pairwise (fun a b => a.1.length ≥ b.1.length)) (s2 : ps'.Pairwise (fun a b => a.1.length ≥ b.1.length))
    (s : Bytes) : firstMatch ps s = firstMatch ps' s := by
  have uniq := eq_of_nodup_keys ps nodup
  unfold firstMatch
  cases h1 : ps.find? (fun p => !p.1.isEmpty && p.1.isPrefixOf s) with
  | none =>
    cases h2 : ps'.find? (fun p => !p.1.isEmpty && p.1.isPrefixOf s) with
    | none => rfl
    | some q =>
      have hq := List.mem_of_find?_eq_some h2
      have hfq := List.find?_some h2
      have := List.find?_eq_none.mp h1 q (h.mem_iff.mpr hq)
      simp [hfq] at this
  | some p =>
    have hp := List.mem_of_find?_eq_some h1
    have hfp := List.find?_some h1
    cases h2 : ps'.find? (fun p => !p.1.isEmpty && p.1.isPrefixOf s) with
    | none =>
      have := List.find?_eq_none.mp h2 p (h.mem_iff.mp hp)
      simp [hfp] at this
    | some q =>
      have hq := List.mem_of_find?_eq_some h2
      have hfq := List.find?_some h2
      have a1 := find?_first _ _ ps s1 p q h1 (h.mem_iff.mpr hq) hfq
      have a2 := find?_first _ _ ps' s2 q p h2 (h.mem_iff.mp hp) hfp
      have hlen : p.1.length = q.1.length := by
        rcases a1 with e | e
        · rw [e]
        · rcases a2 with e2 | e2
          · rw [e2]
          · omega
      simp only [Bool.and_eq_true, Bool.not_eq_true'] at hfp hfq
      have := isPrefixOf_eq_of_length hfp.2 hfq.2 hlen
      rw [uniq p q hp (h.mem_iff.mpr hq) this]

theorem lengthSorted_replacer (ps ps' : List (Bytes × Bytes)) (h : ps.Perm ps')
    (nodup : (ps.map (·.1)).Nodup)
    (s1 : ps.Pairwise (fun a b => a.1.length ≥ b.1.length)) (s2 : ps'.Pairwise (fun a b => a.1.length ≥ b.1.length))
    (s : Bytes) : replaceAll ps s = replaceAll ps' s := by
  have fm := lengthSorted_firstMatch ps ps' h nodup s1 s2
  have key : ∀ (f : Nat) (s : Bytes), replaceFuel ps f s = replaceFuel ps' f s := by
    intro f
    induction f with
    | zero => intro s; rfl
    | succ f ih =>
      intro s
      cases s with
      | nil => rfl
      | cons c r =>
        simp only [replaceFuel, fm (c :: r)]
        cases firstMatch ps' (c :: r) with
        | none => simp only [ih]
        | some kv => obtain ⟨k, v⟩ := kv; simp only [ih]
  unfold replaceAll
  rw [key]

/-! ### the regenerated table -/

/-- no site of the current source is order-dependent or unclassified -/
theorem no_order_dependent_site :
    GV.Gen.nondetSites.all (fun s => s.cls != .orderDependent && s.cls != .unclassified) = true := by decide

/-- all random draws come from seeded streams: no package-level math/rand call anywhere in garble's packages -/
theorem seeded_rand_only : GV.Gen.nondetSites.all (fun s => s.kind != "global-rand") = true := by decide

/-- the only use of crypto/rand is `-seed=random`, which the property excludes (same seed) -/
theorem crypto_rand_only_for_random_seed :
    (GV.Gen.nondetSites.filter (fun s => s.kind == "crypto-rand")).map (·.key) = ["main|seedFlag.Set|crypto-rand#1"] := by decide

/-- no goroutines, selects, pid or hostname reads in garble's own packages -/
theorem no_scheduling_or_host_dependence :
    GV.Gen.nondetSites.all (fun s => s.kind != "goroutine" && s.kind != "select" && s.kind != "pid" && s.kind != "hostname" && s.kind != "numcpu") = true := by decide

/-- the sites whose order-independence is NOT proved here (sampled by repeated cold builds): exactly these -/
theorem unproved_sites :
    (GV.Gen.nondetSites.filter (fun s => s.cls == .sampledOnly)).map (·.key) =
      ["main|reflectInspector.ignoreReflectedTypes|map-range#1"] := by decide

/-- the table is not empty and does contain proved classes (non-vacuity) -/
example : (GV.Gen.nondetSites.filter (fun s => s.cls == .collectSort)).length ≥ 4 ∧ GV.Gen.nondetSites.length ≥ 60 := by decide

end GV.Props.C03
