import GV.Model.Literals
import GV.Gen.LitConsts
import GV.Props.C05
/-
C09 — With -literals, literal contents do not appear in the binary.

Proved: which expressions are rewritten (decision over a context record, window constants regenerated from
literals.go), and for the `simple` strategy that the stored ciphertext differs from the plaintext at every position
where the key byte is non-zero (an aligned leak needs an all-zero key window).  That the plaintext cannot occur in the
binary BY COINCIDENCE elsewhere is a probability statement and is not proved: partial; the marker scan samples it.
-/
set_option linter.unusedSimpArgs false
namespace GV.Props.C09
open GV.Literals GV.Gen.Lit

/-- what `literals.Obfuscate` looks at for one expression -/
structure LitCtx where
  isConstString : Bool        -- has a constant value and its type is exactly `string`
  len : Nat                   -- length of the value / number of composite elements
  inConstDecl : Bool          -- under a `const` GenDecl
  inNosplitFunc : Bool        -- under a FuncDecl whose doc has //go:nosplit
  inLinkerVarSpec : Bool      -- under the ValueSpec of a -ldflags=-X target
  isByteComposite : Bool      -- []byte{…} / [N]byte{…} (also behind &) whose elements are all constant integers
  pkgInScope : Bool           -- the package is selected by GOGARBLE (transformGoFile's guard)

def inWindow (n : Nat) : Bool := MinSize ≤ n && n ≤ MaxSize

/-- the decision of the AST walk (pre: subtrees skipped; post: expressions replaced) -/
def shouldObfuscate (c : LitCtx) : Bool :=
  c.pkgInScope && !c.inConstDecl && !c.inNosplitFunc && !c.inLinkerVarSpec &&
  (c.isConstString || c.isByteComposite) && inWindow c.len

/-- the property's list of exemptions -/
def Exempt (c : LitCtx) : Prop :=
  c.pkgInScope = false ∨ c.inConstDecl = true ∨ c.inNosplitFunc = true ∨ c.inLinkerVarSpec = true ∨
  (c.isConstString = false ∧ c.isByteComposite = false) ∨ c.len < 8 ∨ 2048 < c.len

/-- **rewritten ⇔ not exempt**, with the documented window 8 bytes … 2 KiB (constants regenerated from the source) -/
theorem rewritten_iff_not_exempt (c : LitCtx) : shouldObfuscate c = true ↔ ¬ Exempt c := by
  unfold shouldObfuscate Exempt inWindow MinSize MaxSize
  cases c.pkgInScope <;> cases c.inConstDecl <;> cases c.inNosplitFunc <;> cases c.inLinkerVarSpec <;>
    cases c.isConstString <;> cases c.isByteComposite <;> simp <;> omega

theorem window : MinSize = 8 ∧ MaxSize = 2048 := by decide

theorem add_fixed (x k : UInt8) (h : x + k = x) : k = 0 := by
  have h' := congrArg UInt8.toNat h
  rw [UInt8.toNat_add] at h'
  apply UInt8.toNat_inj.mp
  have := k.toNat_lt; have := x.toNat_lt
  simp; omega

theorem sub_fixed (x k : UInt8) (h : x - k = x) : k = 0 := by
  have h' := congrArg UInt8.toNat h
  rw [UInt8.toNat_sub] at h'
  apply UInt8.toNat_inj.mp
  have := k.toNat_lt; have := x.toNat_lt
  simp at *; omega

/-- a byte operator leaves a byte unchanged only for the zero key byte -/
theorem op_fixed_iff_zero (op : Op) (x k : UInt8) : op.eval x k = x ↔ k = 0 := by
  cases op
  · simp only [Op.eval]
    constructor
    · intro h
      have := congrArg (fun y => x ^^^ y) h
      simp only [← UInt8.xor_assoc, UInt8.xor_self, UInt8.zero_xor] at this
      exact this
    · intro h; subst h; simp
  · simp only [Op.eval]
    exact ⟨add_fixed x k, fun h => by subst h; simp⟩
  · simp only [Op.eval]
    exact ⟨sub_fixed x k, fun h => by subst h; simp⟩

/-- **aligned leak ⇔ zero key** (`simple`): the stored ciphertext agrees with the plaintext at position i exactly when
the i-th key byte is zero; so the whole plaintext survives in place only under an all-zero key -/
theorem simple_cipher_differs (op : Op) : ∀ (d k : Bytes), d.length = k.length →
    (zipOp op d k = d ↔ ∀ b ∈ k, b = 0) := by
  intro d
  induction d with
  | nil => intro k h; cases k <;> simp_all [zipOp]
  | cons x xs ih =>
    intro k h
    cases k with
    | nil => simp at h
    | cons y ys =>
      simp only [zipOp, List.cons.injEq, op_fixed_iff_zero, List.mem_cons, forall_eq_or_imp]
      rw [ih ys (by simpa using h)]

/-- non-vacuity: a 10-byte string constant in an ordinary position of an in-scope package is rewritten -/
example : shouldObfuscate ⟨true, 10, false, false, false, false, true⟩ = true := by decide

end GV.Props.C09
