import GV.Model.Link
import GV.Proofs.FlagSet
/-
C02 — The binary carries no original names, paths, positions or build metadata.

Proved here (for all objects / all link command lines / all importcfg contents): garble keeps a name only for a
documented reason; the link step always gets -w -s, an empty -buildid and runtime.buildVersion=unknown; the rewritten
importcfg consists of importmap/packagefile lines only (modinfo and everything else is dropped); positions are
hashed or, under -tiny, empty.  What the compiler and linker then put into the binary is outside the model: the
end-to-end scan samples it.
-/
set_option linter.unusedSimpArgs false
namespace GV.Props.C02
open GV.Naming GV.Link GV.Flags GV.Salt

/-- the documented reasons for an original name to survive -/
def Documented (env : Env) (o : Obj) : Prop :=
  o.pkgPath = none ∨                                                      -- universe scope (builtins)
  (∃ path, o.pkgPath = some path ∧ specialKeep path o.name = true) ∨      -- embed.FS, reflect.Method(ByName), align64, pkix *SET
  (∃ path lp, o.pkgPath = some path ∧ env.lookup path = .found lp ∧ lp.toObfuscate = false) ∨  -- package outside GOGARBLE / runtime
  o.kind = .other ∨                                                       -- constants, labels, package names: nothing to rename
  (o.kind = .func ∧ ((∃ path, o.pkgPath = some path ∧ env.intrinsic path o.name = true) ∨       -- compiler intrinsics
                     (o.cls = .exported ∧ o.hasRecv = true) ∨              -- exported methods
                     o.name = str "main" ∨ o.name = str "init" ∨ o.name = str "TestMain" ∨
                     (hasPrefix (str "Test") o.name = true ∧ o.testSig = true)))                  -- test functions

/-- **kept ⇒ documented**: any new silent exemption in `obfuscatedObjectName` breaks this theorem's tie -/
theorem kept_only_if_documented (env : Env) (o : Obj) (h : decideObj env o = .keep) : Documented env o := by
  unfold decideObj at h
  unfold Documented
  cases hp : o.pkgPath with
  | none => left; rfl
  | some path =>
    simp only [hp] at h
    by_cases hs : specialKeep path o.name = true
    · right; left; exact ⟨path, rfl, hs⟩
    · simp only [hs] at h
      cases hl : env.lookup path with
      | notFound => simp [hl] at h
      | notDependency => simp [hl] at h
      | found lp =>
        simp only [hl] at h
        by_cases ho : lp.toObfuscate = true
        · simp only [ho, Bool.not_true, Bool.false_eq_true, if_false] at h
          cases hk : o.kind with
          | field =>
            simp only [hk] at h
            cases hsh : o.structHash with
            | none => simp [hsh] at h
            | some sh =>
              simp only [hsh, fieldHash, ofOpt] at h
              split at h <;> simp at h
          | var => simp [hk, pkgHash, ofOpt] at h; split at h <;> simp at h
          | typeName => simp [hk, pkgHash, ofOpt] at h; split at h <;> simp at h
          | other => right; right; right; left; rfl
          | func =>
            right; right; right; right
            refine ⟨rfl, ?_⟩
            simp only [hk] at h
            by_cases hi : env.intrinsic path o.name = true
            · left; exact ⟨path, rfl, hi⟩
            · simp only [hi] at h
              by_cases he : (o.cls == .exported && o.hasRecv) = true
              · right; left; simpa using he
              · simp only [he] at h
                by_cases hm : (o.name == str "main" || o.name == str "init" || o.name == str "TestMain") = true
                · simp only [Bool.or_eq_true, beq_iff_eq] at hm
                  rcases hm with (hm | hm) | hm
                  · right; right; left; exact hm
                  · right; right; right; left; exact hm
                  · right; right; right; right; left; exact hm
                · simp only [hm] at h
                  by_cases ht : (hasPrefix (str "Test") o.name && o.testSig) = true
                  · right; right; right; right; right; simpa using ht
                  · simp [ht, pkgHash, ofOpt] at h; split at h <;> simp at h
        · right; right; left; exact ⟨path, lp, rfl, hl, by simpa using ho⟩

/-- the same for the full decision including embedded fields: an embedded field keeps its name only if the type it is
named after is predeclared, or that type's name is kept for a documented reason -/
theorem ident_kept_only_if_documented (env : Env) (o : Obj) (emb : Embedded) (h : decideIdent env o emb = .keep) :
    match emb with
    | .no => Documented env o
    | .unnamed => True
    | .named n c p => Documented env { kind := .typeName, name := n, cls := c, pkgPath := p } := by
  cases emb with
  | no => exact kept_only_if_documented env o h
  | unnamed => trivial
  | named n c p => exact kept_only_if_documented env _ h

/-- every flag appended for `-X` duplication has the `-X=` form, so it is never a bare flag name -/
theorem xDuplicates_form (dup : Bytes → Option Bytes) (flags : List Tok) :
    ∀ a ∈ xDuplicates dup flags, ∃ d, a = bstr "-X=" ++ d := by
  intro a ha
  unfold xDuplicates at ha
  rw [List.mem_filterMap] at ha
  obtain ⟨v, _, hv⟩ := ha
  cases hd : dup v with
  | none => simp [hd] at hv
  | some d => simp [hd] at hv; exact ⟨d, hv.symm⟩

theorem bare_not_xform (n : Tok) (hn : n = bstr "-importcfg" ∨ n = bstr "-buildid") (d : Bytes) : n ≠ bstr "-X=" ++ d := by
  have e1 : bstr "-importcfg" = [45, 105, 109, 112, 111, 114, 116, 99, 102, 103] := by decide
  have e2 : bstr "-buildid" = [45, 98, 117, 105, 108, 100, 105, 100] := by decide
  have e3 : bstr "-X=" = [45, 88, 61] := by decide
  rcases hn with h | h <;> subst h <;> simp [e1, e2, e3]

/-- **link flags**: whatever flags the go command passes to the linker (any list not ending in a bare `-importcfg`
or `-buildid`, and in which `-w`, `-s` and the version flag do not sit in the value position of a bare
`-importcfg`/`-buildid`), garble's link step strips DWARF and the symbol table and overrides the Go version. -/
theorem link_flags (dup : Bytes → Option Bytes) (newCfg : Tok) (flags : List Tok) (x : Tok)
    (hx : x = bstr "-w" ∨ x = bstr "-s" ∨ x = bstr "-X=runtime.buildVersion=unknown")
    (hlast1 : flags.getLast? ≠ some (bstr "-importcfg")) (hlast2 : flags.getLast? ≠ some (bstr "-buildid"))
    (hadj1 : adj (bstr "-importcfg") x flags = false) (hadj2 : adj (bstr "-buildid") x flags = false) :
    x ∈ transformLinkFlags dup newCfg flags := by
  have ew : bstr "-w" = [45, 119] := by decide
  have es : bstr "-s" = [45, 115] := by decide
  have ev : bstr "-X=runtime.buildVersion=unknown" = [45, 88, 61, 114, 117, 110, 116, 105, 109, 101, 46, 98, 117, 105, 108, 100, 86, 101, 114, 115, 105, 111, 110, 61, 117, 110, 107, 110, 111, 119, 110] := by decide
  have ei : bstr "-importcfg" = [45, 105, 109, 112, 111, 114, 116, 99, 102, 103] := by decide
  have eb : bstr "-buildid" = [45, 98, 117, 105, 108, 100, 105, 100] := by decide
  -- x has neither the `-importcfg=` nor the `-buildid=` prefix, and is none of the values written
  have hpi : (bstr "-importcfg" ++ [61]).isPrefixOf x = false := by rcases hx with h | h | h <;> subst h <;> (simp [ew, es, ev, ei]; try decide)
  have hpb : (bstr "-buildid" ++ [61]).isPrefixOf x = false := by rcases hx with h | h | h <;> subst h <;> (simp [ew, es, ev, eb]; try decide)
  have hne1 : ([] : Tok) ≠ x := by rcases hx with h | h | h <;> subst h <;> simp [ew, es, ev]
  have hne2 : bstr "-buildid" ++ 61 :: [] ≠ x := by rcases hx with h | h | h <;> subst h <;> (simp [ew, es, ev, eb]; try decide)
  have hne3 : ([] : Tok) ≠ bstr "-importcfg" := by simp [ei]
  have hne4 : bstr "-buildid" ++ 61 :: [] ≠ bstr "-importcfg" := by simp [ei, eb]
  unfold transformLinkFlags
  simp only
  -- no element of the appended `-X=…` duplicates and version flag is a bare flag name
  have hdups : ∀ n, (n = bstr "-importcfg" ∨ n = bstr "-buildid") →
      n ∉ xDuplicates dup flags ++ [bstr "-X=runtime.buildVersion=unknown"] := by
    intro n hn hm
    rw [List.mem_append] at hm
    rcases hm with hm | hm
    · obtain ⟨d, hd⟩ := xDuplicates_form dup flags n hm
      exact bare_not_xform n hn d hd
    · simp at hm; rcases hn with h | h <;> subst h <;> simp [ev, ei, eb] at hm
  -- f2 = flags ++ dups ++ [version flag]
  have hf2adj : ∀ n, (n = bstr "-importcfg" ∨ n = bstr "-buildid") → adj n x flags = false → flags.getLast? ≠ some n →
      adj n x (flags ++ xDuplicates dup flags ++ [bstr "-X=runtime.buildVersion=unknown"]) = false := by
    intro n hn ha hl
    rw [List.append_assoc]
    exact adj_append n x flags _ ha hl (adj_false_of_not_mem n x _ (hdups n hn))
  have hf2last : ∀ n, (n = bstr "-importcfg" ∨ n = bstr "-buildid") →
      (flags ++ xDuplicates dup flags ++ [bstr "-X=runtime.buildVersion=unknown"]).getLast? ≠ some n := by
    intro n hn
    simp only [List.getLast?_append, List.getLast?_singleton, Option.some_or]
    intro h; simp at h; rcases hn with e | e <;> subst e <;> simp [ev, ei, eb] at h
  -- f3 = flagSetValue -buildid "" f2
  let f2 := flags ++ xDuplicates dup flags ++ [bstr "-X=runtime.buildVersion=unknown"]
  have hf3adj : adj (bstr "-importcfg") x (flagSetValue (bstr "-buildid") [] f2) = false :=
    adj_flagSetValue _ _ _ _ f2 (hf2adj _ (Or.inl rfl) hadj1 hlast1) hne1 hne2 hne3 hne4
  have hf3last : (flagSetValue (bstr "-buildid") [] f2).getLast? ≠ some (bstr "-importcfg") := by
    rcases getLast_flagSetValue (bstr "-buildid") [] f2 with h | h | h
    · rw [h]; exact hf2last _ (Or.inl rfl)
    · rw [h]; simp [ei, eb]
    · rw [h]; simp [ei]
  -- x is in f4 = f3 ++ [-w, -s]
  have hmem4 : x ∈ flagSetValue (bstr "-buildid") [] f2 ++ [bstr "-w", bstr "-s"] := by
    rcases hx with h | h | h
    · subst h; simp
    · subst h; simp
    · subst h
      apply List.mem_append_left
      exact mem_flagSetValue _ _ _ f2 (by simp [f2]) hpb (hf2adj _ (Or.inr rfl) hadj2 hlast2)
  have hadj4 : adj (bstr "-importcfg") x (flagSetValue (bstr "-buildid") [] f2 ++ [bstr "-w", bstr "-s"]) = false :=
    adj_append _ x _ _ hf3adj hf3last (adj_false_of_not_mem _ x _ (by simp [ew, es, ei]))
  exact mem_flagSetValue _ _ _ _ hmem4 hpi hadj4

/-- **importcfg lines**: the rewritten importcfg only has `importmap`/`packagefile` lines — `modinfo` (module and
VCS information), comments and anything else in the original are dropped, for every input -/
theorem importcfg_only_known_lines (rm : Bytes → Bytes → Bytes × Bytes) (rp : Bytes → Bytes) (data : Bytes) :
    ∀ l ∈ processImportCfg rm rp data, (str "importmap ").isPrefixOf l = true ∨ (str "packagefile ").isPrefixOf l = true := by
  intro l hl
  unfold processImportCfg renderCfg at hl
  rw [List.mem_append] at hl
  rcases hl with hl | hl
  · rw [List.mem_filterMap] at hl
    obtain ⟨c, _, hc⟩ := hl
    cases c with
    | importmap b a => simp at hc; left; rw [← hc]; simp [List.append_assoc]
    | packagefile p f => simp at hc
  · rw [List.mem_filterMap] at hl
    obtain ⟨c, _, hc⟩ := hl
    cases c with
    | importmap b a => simp at hc
    | packagefile p f => simp at hc; right; rw [← hc]; simp [List.append_assoc]

/-- **positions**: under -tiny the position name is empty; otherwise it is a hashed name plus `.go`, and it depends on
the package, the file's base name and the byte offset of the call only -/
theorem position_tiny_empty (cfg : Cfg) (p : Pkg) (base : Bytes) (off : Nat) (h : cfg.tiny = true) :
    callPosName cfg p base off = some [] := by
  unfold callPosName; simp [h]

theorem position_hashed (cfg : Cfg) (p : Pkg) (base : Bytes) (off : Nat) (h : cfg.tiny = false) :
    callPosName cfg p base off =
      (hashWithPackage cfg p.path p.gaid (posString base off) .notIdent).map (· ++ str ".go") := by
  unfold callPosName; simp [h]

/-- non-vacuity: the go command's usual link flags satisfy the hypotheses of `link_flags` -/
example : let flags := [bstr "-o", bstr "a.out", bstr "-importcfg", bstr "/tmp/importcfg.link", bstr "-buildmode=exe", bstr "-buildid=abc", bstr "-extld=gcc"]
    flags.getLast? ≠ some (bstr "-importcfg") ∧ flags.getLast? ≠ some (bstr "-buildid") ∧
    adj (bstr "-importcfg") (bstr "-w") flags = false ∧ adj (bstr "-buildid") (bstr "-w") flags = false := by decide

end GV.Props.C02
