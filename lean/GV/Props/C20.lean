import GV.Model.Flags
import GV.Gen.Steps
/-
C20 — Command lines are split the way the go command splits them.

`goSplit` is the specification: the Go `flag` package's parse loop over the go command's own flag table, which is
regenerated on every run from `go help build`, `go help testflag` and cmd/go's source (`Gen.goFlags`).
garble's tables are regenerated from main.go (`Gen.booleanFlags`, `Gen.forwardBuildFlags`, …).
All theorems are for argument vectors of ANY length.
-/
set_option linter.unusedSimpArgs false
namespace GV.Props.C20
open GV.Flags GV.Gen

/-- **tables agree**: every flag documented by the go command is boolean for garble iff it is boolean for go
(re-checked by kernel evaluation against the regenerated tables on every run) -/
theorem tables_agree : ∀ p ∈ goFlags, garbleBools.contains (45 :: bstr p.1) = p.2 := by decide

theorem goTable_sound (nm : Tok) (b : Bool) (h : goTable nm = some b) : garbleBools.contains (45 :: nm) = b := by
  unfold goTable at h
  cases hf : goFlags.find? (fun p => bstr p.1 == nm) with
  | none => simp [hf] at h
  | some p =>
    simp [hf] at h
    have hm := List.mem_of_find?_eq_some hf
    have hp := List.find?_some hf
    simp at hp
    rw [← hp, ← h]
    exact tables_agree p hm

/-- **partition**: garble only cuts the vector in two; nothing is dropped, added or reordered -/
theorem split_partition (bools : List Tok) (v : List Tok) :
    (garbleSplit bools v).1 ++ (garbleSplit bools v).2 = v := by
  fun_induction garbleSplit bools v with
  | case1 => rfl
  | case2 a h => simp
  | case3 a h => simp
  | case4 a v rest h => simp
  | case5 a v rest h1 h2 r ih => simp [r, ih]
  | case6 a v rest h1 h2 r ih => simp [r, ih]

/-! per-token agreement between go's classification and garble's tests -/

theorem cutName_of_noEq (b : Tok) (h : hasEq b = false) : cutName b = b := by
  unfold cutName hasEq at *
  induction b with
  | nil => rfl
  | cons c r ih =>
    simp [List.contains_cons] at h
    simp [List.takeWhile_cons, h.1, ih (by simpa using h.2)]
    intro e; exact absurd e.symm h.1

theorem classify_nonflag (tbl) (a : Tok) (h : classify tbl a = .nonflag) : dash a = false := by
  unfold classify at h
  cases hd : dash a with
  | false => rfl
  | true =>
    simp [hd] at h
    split at h <;> try simp at h
    split at h <;> try simp at h
    split at h <;> try simp at h
    split at h <;> simp at h

theorem norm_of_dash (a : Tok) (h : dash a = true) : norm a = 45 :: stripDashes a := by
  match a with
  | [] => simp [dash] at h
  | [c] => simp [dash] at h; subst h; rfl
  | c :: d :: r =>
    simp [dash] at h; subst h
    by_cases hd : d = 45
    · subst hd; rfl
    · unfold norm stripDashes; simp [hd]

theorem hasEq_of_dash (a : Tok) (h : dash a = true) : hasEq a = hasEq (stripDashes a) := by
  match a with
  | [] => simp [dash] at h
  | [c] => simp [dash] at h; subst h; rfl
  | c :: d :: r =>
    simp [dash] at h; subst h
    by_cases hd : d = 45
    · subst hd; simp [hasEq, stripDashes, List.contains_cons]
    · unfold hasEq stripDashes; simp [hd, List.contains_cons]

/-- a token go accepts as a flag is a flag for garble, and garble's "does not consume the next argument" test
(`booleanFlags[arg] || strings.Contains(arg, "=")`) agrees with go's -/
theorem classify_flag (a : Tok) (k : Kind) (h : classify goTable a = k) (hk : k = .alone ∨ k = .needsValue) :
    dash a = true ∧ ((garbleBools.contains (norm a) || hasEq a) = (k == .alone)) := by
  unfold classify at h
  cases hd : dash a with
  | false => simp [hd] at h; subst h; simp at hk
  | true =>
    refine ⟨rfl, ?_⟩
    rw [norm_of_dash a hd, hasEq_of_dash a hd]
    simp [hd] at h
    split at h
    · subst h; simp at hk
    · generalize stripDashes a = body at h ⊢
      split at h
      · subst h; simp at hk
      · subst h; simp at hk
      · subst h; simp at hk
      · split at h
        · subst h; simp at hk
        · rename_i ht
          subst h
          cases he : hasEq body with
          | true => simp
          | false =>
            rw [cutName_of_noEq body he] at ht
            have hs := goTable_sound body true ht
            simp at hs; simp [hs]
        · rename_i ht
          cases he : hasEq body with
          | true => simp [he] at h; subst h; simp
          | false =>
            simp [he] at h; subst h
            rw [cutName_of_noEq body he] at ht
            have hs := goTable_sound body false ht
            have hne : (Kind.needsValue == Kind.alone) = false := by decide
            simp at hs; simp [hs, hne]

/-- **garble splits like go**: for every argument vector that the go command itself accepts (all flag tokens
documented, in `-f`, `--f`, `-f=v`, `--f=v`, `-f v` forms; values, packages and file names arbitrary, including ones
that look like flags), garble's split into flags and arguments is exactly go's -/
theorem split_eq_goSplit (v : List Tok) (r : List Tok × List Tok)
    (h : goSplit goTable v = some r) : garbleSplit garbleBools v = r := by
  fun_induction goSplit goTable v generalizing r with
  | case1 => simp at h; subst h; rfl
  | case2 a hc =>
    simp at h; subst h
    simp [garbleSplit, classify_nonflag _ a hc]
  | case3 a hc =>
    simp at h; subst h
    have := classify_flag a _ hc (Or.inl rfl)
    simp [garbleSplit, this.1]
  | case4 a hc1 hc2 => simp at h
  | case5 a v rest hc =>
    simp at h; subst h
    simp [garbleSplit, classify_nonflag _ a hc]
  | case6 a v rest hc ih =>
    have hf := classify_flag a _ hc (Or.inl rfl)
    cases hg : goSplit goTable (v :: rest) with
    | none => simp [hg] at h
    | some r' =>
      simp [hg] at h; subst h
      have := ih r' hg
      have heq : (Kind.alone == Kind.alone) = true := by decide
      have hb : (garbleBools.contains (norm a) || hasEq a) = true := by rw [hf.2, heq]
      simp only [garbleSplit, hf.1, hb, this]; simp
  | case7 a v rest hc ih =>
    have hf := classify_flag a _ hc (Or.inr rfl)
    cases hg : goSplit goTable rest with
    | none => simp [hg] at h
    | some r' =>
      simp [hg] at h; subst h
      have := ih r' hg
      have hne : (Kind.needsValue == Kind.alone) = false := by decide
      have hb : (garbleBools.contains (norm a) || hasEq a) = false := by rw [hf.2, hne]
      simp only [garbleSplit, hf.1, hb, this]; simp
  | case8 a v rest h1 h2 h3 => simp at h

/-! ### forwarding to the internal `go list` -/

/-- the flag's name as garble looks it up: `-name` (one dash, value cut off) -/
def lookupName (a : Tok) : Tok := cutName (norm a)

/-- specification of the forward filter in terms of GO's parse: keep exactly the flags (with their values) whose
name is a forwarded build flag, `--f` normalised to `-f` -/
def fwdSpec (tbl : Tok → Option Bool) (fwd : Tok → Bool) : List Tok → List Tok
  | [] => []
  | [a] => if fwd (lookupName a) then [norm a] else []
  | a :: v :: rest =>
    match classify tbl a with
    | .needsValue => (if fwd (lookupName a) then [norm a, v] else []) ++ fwdSpec tbl fwd rest
    | _ => (if fwd (lookupName a) then [norm a] else []) ++ fwdSpec tbl fwd (v :: rest)

/-- is every flag of the list a forwarded build flag (per go's parse)? -/
def allFwd (tbl : Tok → Option Bool) (fwd : Tok → Bool) : List Tok → Bool
  | [] => true
  | [a] => fwd (lookupName a)
  | a :: v :: rest =>
    match classify tbl a with
    | .needsValue => fwd (lookupName a) && allFwd tbl fwd rest
    | _ => fwd (lookupName a) && allFwd tbl fwd (v :: rest)

theorem norm_norm_bool (a : Tok) (h : dash a = true) :
    (garbleBools.contains (norm a) || hasEq (norm a)) = (garbleBools.contains (norm a) || hasEq a) := by
  rw [hasEq_of_dash a h]
  have : hasEq (norm a) = hasEq (stripDashes a) := by
    rw [norm_of_dash a h]; simp [hasEq, List.contains_cons]
  rw [this]

/-- **forward exact**: for a flag list go parses completely as flags, the list handed to `go list` is exactly the
forwarded build flags with their values, in order -/
theorem forward_exact (fwd : Tok → Bool) (fl : List Tok) (h : goSplit goTable fl = some (fl, [])) :
    (filterForward fwd garbleBools fl).1 = fwdSpec goTable fwd fl := by
  fun_induction goSplit goTable fl with
  | case1 => rfl
  | case2 a hc => simp at h
  | case3 a hc => simp only [filterForward, fwdSpec, lookupName]; by_cases hfw : fwd (cutName (norm a)) = true <;> simp [hfw]
  | case4 a hc1 hc2 => simp at h
  | case5 a v rest hc => simp at h
  | case6 a v rest hc ih =>
    have hf := classify_flag a _ hc (Or.inl rfl)
    cases hg : goSplit goTable (v :: rest) with
    | none => simp [hg] at h
    | some r' =>
      simp [hg] at h
      have hr : r' = (v :: rest, []) := by
        cases r' with | mk f r => simp at h; simp [h.1, h.2]
      have heq : (Kind.alone == Kind.alone) = true := by decide
      have hb : (garbleBools.contains (norm a) || hasEq (norm a)) = true := by rw [norm_norm_bool a hf.1, hf.2, heq]
      rw [hr] at hg
      simp only [filterForward, fwdSpec, hc, hb, ih hg, lookupName]; by_cases hfw : fwd (cutName (norm a)) = true <;> simp [hfw]
  | case7 a v rest hc ih =>
    have hf := classify_flag a _ hc (Or.inr rfl)
    cases hg : goSplit goTable rest with
    | none => simp [hg] at h
    | some r' =>
      simp [hg] at h
      have hr : r' = (rest, []) := by
        cases r' with | mk f r => simp at h; simp [h.1, h.2]
      have hne : (Kind.needsValue == Kind.alone) = false := by decide
      have hb : (garbleBools.contains (norm a) || hasEq (norm a)) = false := by rw [norm_norm_bool a hf.1, hf.2, hne]
      rw [hr] at hg
      simp only [filterForward, fwdSpec, hc, hb, ih hg, lookupName]; by_cases hfw : fwd (cutName (norm a)) = true <;> simp [hfw]
  | case8 a v rest h1 h2 h3 => simp at h

/-- every flag go accepts has a name the empty flag set rejects (so the reverse/map error really is an error) -/
theorem lookupName_parseFails (a : Tok) (k : Kind) (h : classify goTable a = k) (hk : k = .alone ∨ k = .needsValue) :
    parseFails (lookupName a) = true := by
  have hd := (classify_flag a k h hk).1
  unfold classify at h
  simp [hd] at h
  unfold lookupName
  rw [norm_of_dash a hd]
  split at h
  · subst h; simp at hk
  · generalize stripDashes a = body at h ⊢
    split at h
    · subst h; simp at hk
    · subst h; simp at hk
    · subst h; simp at hk
    · rename_i h1 h2 h3
      match body with
      | [] => exact (h1 rfl).elim
      | c :: r =>
        have : c ≠ 61 := fun e => h3 r (by rw [e])
        simp [cutName, List.takeWhile_cons, this]
        by_cases h45 : c = 45
        · exact (h2 r (by rw [h45])).elim
        · unfold parseFails; simp [h45]

/-- **unknown flags rejected** (reverse / map): for a flag list go parses completely, the check fails exactly when
some flag is not a forwarded build flag -/
theorem reject_iff (fwd : Tok → Bool) (fl : List Tok) (h : goSplit goTable fl = some (fl, [])) :
    rejectUnknown fwd garbleBools fl = !(allFwd goTable fwd fl) := by
  have key : (filterForward fwd garbleBools fl).2 = none ∧ allFwd goTable fwd fl = true ∨
      (∃ n, (filterForward fwd garbleBools fl).2 = some n ∧ parseFails n = true) ∧ allFwd goTable fwd fl = false := by
    fun_induction goSplit goTable fl with
    | case1 => left; exact ⟨rfl, rfl⟩
    | case2 a hc => simp at h
    | case3 a hc =>
      have pf := lookupName_parseFails a _ hc (Or.inl rfl)
      cases hfw : fwd (lookupName a) with
      | true => left; simp [filterForward, allFwd, hfw, lookupName] at *
      | false =>
        right; simp [filterForward, allFwd, lookupName] at *; simp [hfw, pf]
    | case4 a hc1 hc2 => simp at h
    | case5 a v rest hc => simp at h
    | case6 a v rest hc ih =>
      have hf := classify_flag a _ hc (Or.inl rfl)
      have pf := lookupName_parseFails a _ hc (Or.inl rfl)
      cases hg : goSplit goTable (v :: rest) with
      | none => simp [hg] at h
      | some r' =>
        simp [hg] at h
        have hr : r' = (v :: rest, []) := by
          cases r' with | mk f r => simp at h; simp [h.1, h.2]
        have heq : (Kind.alone == Kind.alone) = true := by decide
        have hb : (garbleBools.contains (norm a) || hasEq (norm a)) = true := by rw [norm_norm_bool a hf.1, hf.2, heq]
        rw [hr] at hg
        have := ih hg
        simp only [filterForward, allFwd, hc, hb, lookupName] at *
        rcases this with ⟨h1, h2⟩ | ⟨⟨n, h1, h3⟩, h2⟩
        · cases hfw : fwd (cutName (norm a)) with
          | true => left; simp [h1, h2, hfw]
          | false => right; simp [h1, h2, hfw, pf]
        · right; simp [h1, h2, h3]
    | case7 a v rest hc ih =>
      have hf := classify_flag a _ hc (Or.inr rfl)
      have pf := lookupName_parseFails a _ hc (Or.inr rfl)
      cases hg : goSplit goTable rest with
      | none => simp [hg] at h
      | some r' =>
        simp [hg] at h
        have hr : r' = (rest, []) := by
          cases r' with | mk f r => simp at h; simp [h.1, h.2]
        have hne : (Kind.needsValue == Kind.alone) = false := by decide
        have hb : (garbleBools.contains (norm a) || hasEq (norm a)) = false := by rw [norm_norm_bool a hf.1, hf.2, hne]
        rw [hr] at hg
        have := ih hg
        simp only [filterForward, allFwd, hc, hb, lookupName] at *
        rcases this with ⟨h1, h2⟩ | ⟨⟨n, h1, h3⟩, h2⟩
        · cases hfw : fwd (cutName (norm a)) with
          | true => left; simp [h1, h2, hfw]
          | false => right; simp [h1, h2, hfw, pf]
        · right; simp [h1, h2, h3]
    | case8 a v rest h1 h2 h3 => simp at h
  unfold rejectUnknown
  rcases key with ⟨h1, h2⟩ | ⟨⟨n, h1, h3⟩, h2⟩
  · simp [h1, h2]
  · simp [h1, h2, h3]

/-- **forward complete**: every flag listed by `go help build` reaches the internal package listing, except the
ones that must not be repeated in a nested go command (-a -n -x -v), the ones garble always sets itself
(-trimpath -toolexec -buildvcs) and the output-format flag -json -/
theorem forward_complete : ∀ n ∈ goBuildFlags,
    n ∈ ["a", "n", "x", "v", "trimpath", "toolexec", "buildvcs", "json"] ∨ garbleFwd (45 :: bstr n) = true := by decide

/-! ### garble's own flags after the command -/

/-- the pattern source as it stands in main.go -/
theorem rx_source : rxGarbleFlagSource.toList = "^--?(?:literals|tiny|debug|debugdir|seed)(?:$|=)".toList := by decide
/-- its alternatives are exactly garble's registered flags -/
theorem rx_alternatives : garbleOwnFlags = ["debug", "debugdir", "literals", "seed", "tiny"] := by decide

/-- **garble flags after the command are rejected**, in the forms -f, --f, -f=v, --f=v -/
theorem garble_flag_rejected : ∀ w ∈ garbleOwn, ∀ v : Tok,
    rxGarbleMatch garbleOwn (45 :: w) = true ∧ rxGarbleMatch garbleOwn (45 :: 45 :: w) = true ∧
    rxGarbleMatch garbleOwn (45 :: w ++ 61 :: v) = true ∧ rxGarbleMatch garbleOwn (45 :: 45 :: w ++ 61 :: v) = true := by
  intro w hw v
  have hw' : w = bstr "debug" ∨ w = bstr "debugdir" ∨ w = bstr "literals" ∨ w = bstr "seed" ∨ w = bstr "tiny" := by
    revert hw; simp [garbleOwn, rx_alternatives]
  have e1 : bstr "debug" = [100, 101, 98, 117, 103] := by decide
  have e2 : bstr "debugdir" = [100, 101, 98, 117, 103, 100, 105, 114] := by decide
  have e3 : bstr "literals" = [108, 105, 116, 101, 114, 97, 108, 115] := by decide
  have e4 : bstr "seed" = [115, 101, 101, 100] := by decide
  have e5 : bstr "tiny" = [116, 105, 110, 121] := by decide
  rcases hw' with h | h | h | h | h <;> subst h <;>
    simp [rxGarbleMatch, norm, garbleOwn, rx_alternatives, e1, e2, e3, e4, e5, List.isPrefixOf]

/-- the rejection is applied to EVERY flag token after the command: the loop in `toolexecCmd` is, textually, a plain
`range` over the flag tokens whose only statement is the match-and-fail (regenerated from main.go on every run; a loop
that skips positions, as a "value of the previous flag" heuristic would, no longer has this shape) -/
theorem reject_loop_shape : GV.Gen.rejectLoopShape.toList =
    "for _, flag := range listFlags { if rxGarbleFlag.MatchString(flag) { return nil, fmt.Errorf(\"garble flags must precede command, like: garble %s build ./pkg\", flag) } }".toList := by
  rfl

/-- the model of that loop -/
def rejectsAfterCommand (flags : List Tok) : Bool := flags.any (rxGarbleMatch garbleOwn)

/-- wherever a garble flag stands among the flag tokens - after a boolean flag written with one or two dashes, after a
`-name=value`, anywhere - the command line is rejected -/
theorem garble_flag_anywhere_rejected (pre post : List Tok) (w : Tok) (hw : w ∈ garbleOwn) (v : Tok) :
    rejectsAfterCommand (pre ++ (45 :: w) :: post) = true ∧ rejectsAfterCommand (pre ++ (45 :: 45 :: w) :: post) = true ∧
    rejectsAfterCommand (pre ++ (45 :: w ++ 61 :: v) :: post) = true ∧ rejectsAfterCommand (pre ++ (45 :: 45 :: w ++ 61 :: v) :: post) = true := by
  have h := garble_flag_rejected w hw v
  unfold rejectsAfterCommand
  refine ⟨?_, ?_, ?_, ?_⟩
  · exact List.any_eq_true.mpr ⟨_, by simp, h.1⟩
  · exact List.any_eq_true.mpr ⟨_, by simp, h.2.1⟩
  · exact List.any_eq_true.mpr ⟨_, by simp, h.2.2.1⟩
  · exact List.any_eq_true.mpr ⟨_, by simp, h.2.2.2⟩

/-! ### `garble test`: flags may follow the package list (as `go test` allows) -/

def isFlagTok (t : Tok) : Bool := t.head? == some 45

/-- model of the `if command == "test"` block of toolexecCmd: (listFlags, listArgs) -/
def testSplit (flags args : List Tok) : List Tok × List Tok :=
  let rest := args.dropWhile (fun a => !isFlagTok a)
  (flags ++ rest.takeWhile (fun a => a != bstr "-args" && a != bstr "--args"), args.takeWhile (fun a => !isFlagTok a))

/-- the block as it stands in main.go (regenerated on every run) -/
theorem test_split_shape : GV.Gen.testSplitShape.toList =
    "{ n := 0 for n < len(args) && !strings.HasPrefix(args[n], \"-\") { n++ } rest := args[n:] for i, arg := range rest { if arg == \"-args\" || arg == \"--args\" { rest = rest[:i] break } } listFlags = append(flags[:len(flags):len(flags)], rest...) listArgs = args[:n:n] }".toList := by
  rfl

/-- only the leading non-flag arguments are listed as packages, and they are all non-flags -/
theorem testSplit_packages (flags args : List Tok) :
    (testSplit flags args).2 = args.takeWhile (fun a => !isFlagTok a) ∧ ∀ a ∈ (testSplit flags args).2, isFlagTok a = false := by
  refine ⟨rfl, ?_⟩
  have key : ∀ (l : List Tok) (a : Tok), a ∈ l.takeWhile (fun a => !isFlagTok a) → isFlagTok a = false := by
    intro l
    induction l with
    | nil => intro a ha; simp at ha
    | cons x xs ih =>
      intro a ha
      by_cases hx : isFlagTok x = true
      · simp [List.takeWhile, hx] at ha
      · have hx' : isFlagTok x = false := by simpa using hx
        simp only [List.takeWhile_cons, hx', Bool.not_false, if_true, List.mem_cons] at ha
        rcases ha with e | e
        · rw [e]; exact hx'
        · exact ih a e
  exact key args

/-- a garble flag placed after the packages (and before `-args`) is rejected like one placed before them -/
theorem testSplit_rejects_trailing_garble_flag (flags pkgs pre post : List Tok) (w : Tok) (hw : w ∈ garbleOwn)
    (hp : ∀ a ∈ pkgs, isFlagTok a = false)
    (hpre : ∀ a ∈ pre, a ≠ bstr "-args" ∧ a ≠ bstr "--args") (hne : pre ≠ [] → ∀ a, pre.head? = some a → isFlagTok a = true) :
    rejectsAfterCommand (testSplit flags (pkgs ++ pre ++ (45 :: w) :: post)).1 = true := by
  unfold rejectsAfterCommand testSplit
  simp only [List.any_append, Bool.or_eq_true]
  right
  -- dropWhile removes exactly the packages
  have hdrop : (pkgs ++ pre ++ (45 :: w) :: post).dropWhile (fun a => !isFlagTok a) = pre ++ (45 :: w) :: post := by
    rw [List.append_assoc]
    induction pkgs with
    | nil =>
      cases pre with
      | nil => simp [List.dropWhile, isFlagTok]
      | cons a t =>
        have := hne (by simp) a rfl
        simp [List.dropWhile, this]
    | cons a t ih =>
      have ha := hp a (List.mem_cons_self ..)
      simp only [List.cons_append, List.dropWhile_cons, ha, Bool.not_false, if_true]
      exact ih (fun x hx => hp x (List.mem_cons_of_mem _ hx))
  rw [hdrop]
  -- takeWhile keeps `pre` and the garble flag
  have hw' : ((45 :: w) != bstr "-args" && (45 :: w) != bstr "--args") = true := by
    have hw'' : w = bstr "debug" ∨ w = bstr "debugdir" ∨ w = bstr "literals" ∨ w = bstr "seed" ∨ w = bstr "tiny" := by
      revert hw; simp [garbleOwn, rx_alternatives]
    rcases hw'' with h | h | h | h | h <;> subst h <;> decide
  have htake : ∀ (l : List Tok), (∀ a ∈ l, a ≠ bstr "-args" ∧ a ≠ bstr "--args") →
      (45 :: w) ∈ (l ++ (45 :: w) :: post).takeWhile (fun a => a != bstr "-args" && a != bstr "--args") := by
    intro l
    induction l with
    | nil => intro _; simp [List.takeWhile, hw']
    | cons a t ih =>
      intro h
      have ha := h a (List.mem_cons_self ..)
      have : (a != bstr "-args" && a != bstr "--args") = true := by simp [ha.1, ha.2]
      simp only [List.cons_append, List.takeWhile_cons, this, if_true, List.mem_cons]
      exact Or.inr (ih (fun x hx => h x (List.mem_cons_of_mem _ hx)))
  exact List.any_eq_true.mpr ⟨_, htake pre hpre, (garble_flag_rejected w hw []).1⟩

/-- what follows `-args` belongs to the test binary: it is neither forwarded nor checked -/
theorem testSplit_stops_at_args (flags pre post : List Tok) (hpre : ∀ a ∈ pre, a ≠ bstr "-args" ∧ a ≠ bstr "--args")
    (h0 : ∀ a, pre.head? = some a → isFlagTok a = true) (hne : pre ≠ []) :
    (testSplit flags (pre ++ bstr "-args" :: post)).1 = flags ++ pre := by
  unfold testSplit
  simp only []
  congr 1
  cases pre with
  | nil => exact absurd rfl hne
  | cons a t =>
    have ha := h0 a rfl
    have hd : ((a :: t) ++ bstr "-args" :: post).dropWhile (fun a => !isFlagTok a) = (a :: t) ++ bstr "-args" :: post := by
      simp [List.dropWhile, ha]
    rw [hd]
    have : ∀ (l : List Tok), (∀ x ∈ l, x ≠ bstr "-args" ∧ x ≠ bstr "--args") →
        (l ++ bstr "-args" :: post).takeWhile (fun a => a != bstr "-args" && a != bstr "--args") = l := by
      intro l
      induction l with
      | nil => intro _; simp [List.takeWhile]
      | cons x xs ih =>
        intro h
        have hx := h x (List.mem_cons_self ..)
        have : (x != bstr "-args" && x != bstr "--args") = true := by simp [hx.1, hx.2]
        simp only [List.cons_append, List.takeWhile_cons, this, if_true]
        rw [ih (fun y hy => h y (List.mem_cons_of_mem _ hy))]
    exact this (a :: t) hpre

/-! ### `-C dir`: hoisted to the front, everything else kept in order -/

/-- the hoisted flag is a contiguous piece of the flag list, and the rest is the list without it: nothing is dropped,
duplicated or reordered - for every flag list -/
theorem splitChdir_partition (bools : List Tok) : ∀ (flags : List Tok),
    ∃ pre post, flags = pre ++ (splitChdir bools flags).1 ++ post ∧ (splitChdir bools flags).2 = pre ++ post := by
  intro flags
  fun_induction splitChdir bools flags with
  | case1 => exact ⟨[], [], rfl, rfl⟩
  | case2 a0 h => exact ⟨[], [], by simp, rfl⟩
  | case3 a0 h => exact ⟨[a0], [], by simp, rfl⟩
  | case4 a0 v rest a h => exact ⟨[], rest, by simp, rfl⟩
  | case5 a0 v rest a h1 h2 => exact ⟨[], v :: rest, by simp, rfl⟩
  | case6 a0 v rest a h1 h2 h3 r ih =>
    obtain ⟨pre, post, e1, e2⟩ := ih
    exact ⟨a0 :: pre, post, by simp only [List.cons_append]; rw [← e1], by simp only [List.cons_append]; rw [← e2]⟩
  | case7 a0 v rest a h1 h2 h3 r ih =>
    obtain ⟨pre, post, e1, e2⟩ := ih
    exact ⟨a0 :: v :: pre, post, by simp only [List.cons_append]; rw [← e1], by simp only [List.cons_append]; rw [← e2]⟩

/-- **and nothing else is**: a rejected token is one of garble's flags, alone or with `=value`; in particular a
value such as `-tags=my-debug` or `out-tiny` is never rejected -/
theorem rx_only_own (a : Tok) (h : rxGarbleMatch garbleOwn a = true) :
    ∃ w ∈ garbleOwn, norm a = 45 :: w ∨ ∃ v, norm a = 45 :: w ++ 61 :: v := by
  unfold rxGarbleMatch at h
  split at h
  · rename_i r hn
    rw [List.any_eq_true] at h
    obtain ⟨w, hw, hp⟩ := h
    simp at hp
    refine ⟨w, hw, ?_⟩
    obtain ⟨t, ht⟩ := hp.1
    rw [hn, ← ht]
    have hd : List.drop w.length r = t := by rw [← ht]; simp
    rw [hd] at hp
    cases t with
    | nil => left; simp
    | cons c t' => right; simp at hp; exact ⟨t', by rw [hp.2]; simp⟩
  · simp at h

/-- the nested go command ends with the user's vector, unchanged and in order -/
theorem nested_preserves_user_args (cmd : Tok) (fixed : List Tok) (tool : Tok) (extra v : List Tok) :
    ∃ pre, nestedGoArgs cmd fixed tool extra (garbleSplit garbleBools v).1 (garbleSplit garbleBools v).2 = pre ++ v := by
  refine ⟨[cmd] ++ fixed ++ [tool] ++ extra, ?_⟩
  unfold nestedGoArgs
  rw [List.append_assoc, split_partition]

/-- non-vacuity: go accepts `-race --tags x -ldflags=-X=main.v=1 ./pkg -tiny` and splits it after the flags -/
example : goSplit goTable [bstr "-race", bstr "--tags", bstr "x", bstr "-ldflags=-X=main.v=1", bstr "./pkg", bstr "-tiny"] =
    some ([bstr "-race", bstr "--tags", bstr "x", bstr "-ldflags=-X=main.v=1"], [bstr "./pkg", bstr "-tiny"]) := by decide

end GV.Props.C20
