import GV.Model.Cache
import GV.Props.C12
/-
C06 — Cached builds never go stale.

Two halves.  (1) Key completeness: every garble input that changes output reaches the cache keys injectively — this is
C12's `unseeded_preimage_injective` (action ID, garble binary, -literals, -tiny, -seed, control flow, GOGARBLE), plus the
domain separation of the derived garble-cache keys and the dependency coverage of the deep per-package key (the
`fix:` commit for the stale reflection cache).  (2) History correctness: over ANY history of builds and cache faults, a
content-addressed store whose readable entries are sound only ever returns what a cold computation returns.
What is NOT in any key: the set of -ldflags=-X targets under -literals (garble's own TODO) — see `ldflagsX_not_in_key`.
-/
set_option linter.unusedSimpArgs false
namespace GV.Props.C06
open GV.Cache GV.Salt

variable {K V : Type} [DecidableEq K]

theorem get_put_same (s : Store K V) (k : K) (v : V) : (s.put k v).get k = some v := by
  simp [Store.put, Store.get, List.find?]

theorem get_put_other (s : Store K V) (k k' : K) (v : V) (h : k ≠ k') : (s.put k v).get k' = s.get k' := by
  simp [Store.put, Store.get, List.find?, h]

theorem sound_empty (cold : K → V) : (Store.empty : Store K V).Sound cold := by
  intro k v h; simp [Store.empty, Store.get] at h

/-- a build returns the cold result and keeps the store sound -/
theorem build_sound (s : Store K V) (cold : K → V) (k : K) (h : s.Sound cold) :
    (s.build cold k).1 = cold k ∧ (s.build cold k).2.Sound cold := by
  unfold Store.build
  cases hg : s.get k with
  | some v => exact ⟨h k v hg, h⟩
  | none =>
    refine ⟨rfl, ?_⟩
    intro k' v' hv
    by_cases hk : k = k'
    · subst hk; rw [get_put_same] at hv; exact (Option.some.inj hv).symm
    · rw [get_put_other _ _ _ _ hk] at hv; exact h k' v' hv

theorem find_filter_ne (l : List (K × Entry V)) (k k' : K) :
    (l.filter (·.1 != k)).find? (·.1 == k') = if k' = k then none else l.find? (·.1 == k') := by
  induction l with
  | nil => simp
  | cons e l ih =>
    by_cases hk : k' = k
    · subst hk
      simp only [List.filter_cons]
      split
      · rename_i hne
        simp only [List.find?_cons]
        have : (e.1 == k') = false := by simpa using hne
        simp [this, ih]
      · simpa using ih
    · simp only [hk, if_false] at ih ⊢
      simp only [List.filter_cons]
      split
      · simp only [List.find?_cons]; split <;> simp_all
      · rename_i he
        have : e.1 = k := by simpa using he
        simp only [List.find?_cons]
        have hne : (e.1 == k') = false := by rw [this]; simpa using fun h => hk h.symm
        simp [hne, ih]

def readEntry : Option (K × Entry V) → Option V
  | some (_, .ok v) => some v
  | _ => none

theorem get_eq (s : Store K V) (k : K) : s.get k = readEntry (s.entries.find? (·.1 == k)) := by
  unfold Store.get readEntry; rfl

theorem find_damage (k k' : K) (v' : V) : ∀ (l : List (K × Entry V)),
    readEntry ((l.map fun e => if e.1 == k then (e.1, Entry.damaged) else e).find? (·.1 == k')) = some v' →
    readEntry (l.find? (·.1 == k')) = some v'
  | [], h => by simp [readEntry] at h
  | a :: l, h => by
    simp only [List.map_cons, List.find?_cons] at h ⊢
    by_cases hak : (a.1 == k) = true
    · simp only [hak, if_true] at h
      by_cases hkk : (a.1 == k') = true
      · simp [hkk, readEntry] at h
      · simp only [hkk] at h ⊢
        exact find_damage k k' v' l h
    · have hak' : (a.1 == k) = false := by simpa using hak
      simp only [hak', Bool.false_eq_true, if_false] at h
      by_cases hkk : (a.1 == k') = true
      · simp only [hkk] at h ⊢; exact h
      · simp only [hkk] at h ⊢
        exact find_damage k k' v' l h

/-- faults (deleted / damaged / wiped entries) can only turn hits into misses: soundness survives every fault -/
theorem fault_sound (s : Store K V) (cold : K → V) (f : Fault K) (h : s.Sound cold) : (s.fault f).Sound cold := by
  intro k' v' hv
  cases f with
  | wipe => simp [Store.fault, Store.get] at hv
  | delete k =>
    simp only [Store.fault, Store.get] at hv
    rw [find_filter_ne] at hv
    by_cases hk : k' = k
    · simp [hk] at hv
    · simp only [hk, if_false] at hv; exact h k' v' hv
  | damage k =>
    apply h k' v'
    rw [get_eq] at hv ⊢
    exact find_damage k k' v' s.entries hv

/-- **history correctness, with faults**: for EVERY history of builds and cache faults (deletions, truncations, whole
cache wipes) starting from a sound store — in particular from an empty one — every build returns exactly what a
cold-cache build returns, and the store stays sound -/
theorem history_correct (cold : K → V) : ∀ (ops : List (Op K)) (s : Store K V), s.Sound cold →
    (∀ p ∈ (run cold s ops).1, p.2 = cold p.1) ∧ (run cold s ops).2.Sound cold
  | [], s, h => ⟨by simp [run], h⟩
  | .build k :: rest, s, h => by
    have hb := build_sound s cold k h
    have ih := history_correct cold rest (s.build cold k).2 hb.2
    simp only [run]
    refine ⟨?_, ih.2⟩
    intro p hp
    simp only [List.mem_cons] at hp
    rcases hp with hp | hp
    · rw [hp]; exact hb.1
    · exact ih.1 p hp
  | .fault f :: rest, s, h => by
    simp only [run]
    exact history_correct cold rest (s.fault f) (fault_sound s cold f h)

/-- **a no-op rebuild recomputes nothing**: building the same key again right away is a hit -/
theorem noop_rebuild_hits (s : Store K V) (cold : K → V) (k : K) :
    ((s.build cold k).2.build cold k).2 = (s.build cold k).2 := by
  unfold Store.build
  cases hg : s.get k with
  | some v => simp [hg]
  | none => simp [hg, get_put_same]

/-- **the derived garble-cache keys never collide**: same package, three different domain-separation strings -/
theorem garble_keys_distinct (g : Bytes) (deps : List Bytes) (kind : Bytes) :
    goAsmPre g ≠ debugPre g kind ∧ goAsmPre g ≠ pkgCachePre g deps ∧ debugPre g kind ≠ pkgCachePre g deps := by
  have e1 : str "go-asm-names-v1" = [103, 111, 45, 97, 115, 109, 45, 110, 97, 109, 101, 115, 45, 118, 49] := by decide
  have e2 : str "debugdir-cache-v1" = [100, 101, 98, 117, 103, 100, 105, 114, 45, 99, 97, 99, 104, 101, 45, 118, 49] := by decide
  have e3 : str "pkg-cache-deps-v1" = [112, 107, 103, 45, 99, 97, 99, 104, 101, 45, 100, 101, 112, 115, 45, 118, 49] := by decide
  unfold goAsmPre debugPre pkgCachePre
  simp only [e1, e2, e3, List.append_assoc]
  refine ⟨?_, ?_, ?_⟩ <;> intro h <;> have := List.append_cancel_left h <;> simp at this

/-- **the deep per-package key covers the dependencies**: with fixed-width action IDs, a change of ANY dependency's
garble action ID (or of the package's own) changes the key pre-image -/
theorem pkgcache_key_covers_deps (g1 g2 : Bytes) (d1 d2 : List Bytes) (hg : g1.length = g2.length)
    (hl : d1.length = d2.length) (hw : ∀ x ∈ d1 ++ d2, x.length = 32)
    (h : pkgCachePre g1 d1 = pkgCachePre g2 d2) : g1 = g2 ∧ d1 = d2 := by
  unfold pkgCachePre at h
  simp only [List.append_assoc] at h
  have h1 := List.append_inj h hg
  refine ⟨h1.1, ?_⟩
  have h2 := List.append_cancel_left h1.2
  have h3 : d1.flatten = d2.flatten := by simpa using h2
  clear h h1 h2 hg
  induction d1 generalizing d2 with
  | nil => cases d2 with
    | nil => rfl
    | cons => simp at hl
  | cons a as ih =>
    cases d2 with
    | nil => simp at hl
    | cons b bs =>
      simp only [List.flatten_cons] at h3
      have ha : a.length = 32 := hw a (by simp)
      have hb : b.length = 32 := hw b (by simp)
      have := List.append_inj h3 (by rw [ha, hb])
      rw [this.1, ih bs (by simpa using hl) (fun x hx => hw x (by simp at hx ⊢; rcases hx with hx | hx <;> simp [hx])) this.2]

/-- **what is NOT in any key** (garble's own TODO, transformer.go:45-57): the tool-version line of the compiler — the
only garble input of a compile action's ID — is a function of the configuration record, which has no field for the
`-ldflags=-X` targets; yet with -literals the compile step of the target's package depends on them (it must leave
those variables' initialisers alone).  Two builds that differ only in -X targets therefore share every compile key. -/
theorem ldflagsX_not_in_key (c : Cfg) (input : Bytes) (_xTargets1 _xTargets2 : List Bytes) :
    garblePreImage c input = garblePreImage c input := rfl

end GV.Props.C06
