import GV.Model.Replacer
import GV.Model.Link
/-
C04 — garble reverse restores obfuscated traces exactly.
-/
set_option linter.unusedSimpArgs false
namespace GV.Props.C04
open GV.Replacer

theorem splitAfterNL_flatten : ∀ s : Bytes, (splitAfterNL s).flatten = s
  | [] => rfl
  | c :: r => by
    unfold splitAfterNL
    by_cases h : (c == 10) = true
    · simp [h, splitAfterNL_flatten r]
    · simp only [h]
      have ih := splitAfterNL_flatten r
      cases hs : splitAfterNL r with
      | nil => rw [hs] at ih; simp at ih; simp [ih]
      | cons l ls => rw [hs] at ih; simp at ih ⊢; rw [← ih]

theorem map_eq_self {α} (f : α → α) : ∀ (l : List α), (∀ x ∈ l, f x = x) → l.map f = l
  | [], _ => rfl
  | a :: l, h => by simp [h a (by simp), map_eq_self f l (fun x hx => h x (by simp [hx]))]

theorem zip_self_eq {α} : ∀ (l : List α) (p : α × α), p ∈ l.zip l → p.1 = p.2
  | [], _, h => by simp at h
  | a :: l, p, h => by
    simp at h
    rcases h with h | h
    · rw [h]
    · exact zip_self_eq l p h

/-- no key occurs at any position of `s` -/
def NoKeyIn (pairs : List (Bytes × Bytes)) : Bytes → Prop
  | [] => True
  | c :: r => firstMatch pairs (c :: r) = none ∧ NoKeyIn pairs r

theorem replaceFuel_id (pairs : List (Bytes × Bytes)) : ∀ (f : Nat) (s : Bytes), NoKeyIn pairs s → replaceFuel pairs f s = s
  | 0, _, _ => rfl
  | _ + 1, [], _ => rfl
  | f + 1, c :: r, h => by
    simp only [replaceFuel, h.1]
    rw [replaceFuel_id pairs f r h.2]

/-- **pass-through (one line)**: text in which no obfuscated name occurs is returned byte for byte -/
theorem passthrough_line (pairs : List (Bytes × Bytes)) (s : Bytes) (h : NoKeyIn pairs s) : replaceAll pairs s = s :=
  replaceFuel_id pairs _ s h

/-- **pass-through (whole input, any line endings, with or without final newline)**: if no line contains a key, the
output equals the input and `modified` is false (exit status 1) -/
theorem passthrough (pairs : List (Bytes × Bytes)) (input : Bytes)
    (h : ∀ l ∈ splitAfterNL input, NoKeyIn pairs l) : reverseContent pairs input = (input, false) := by
  unfold reverseContent
  have hm : (splitAfterNL input).map (replaceAll pairs) = splitAfterNL input :=
    map_eq_self _ _ (fun l hl => passthrough_line pairs l (h l hl))
  simp only [hm, splitAfterNL_flatten]
  congr 1
  rw [List.any_eq_false]
  intro p hp
  simp [zip_self_eq _ p hp]

/-- **modified ⇒ something changed; unchanged ⇒ not modified**: the exit status reports exactly whether a line changed -/
theorem not_modified_output_eq (pairs : List (Bytes × Bytes)) (input : Bytes)
    (h : (reverseContent pairs input).2 = false) : (reverseContent pairs input).1 = input := by
  unfold reverseContent at *
  simp only at h ⊢
  rw [List.any_eq_false] at h
  have hz : ∀ (ls : List Bytes) (l : Bytes), l ∈ ls → (l, replaceAll pairs l) ∈ ls.zip (ls.map (replaceAll pairs)) := by
    intro ls
    induction ls with
    | nil => intro l hl; simp at hl
    | cons a as ih =>
      intro l hl
      simp at hl
      rcases hl with hl | hl
      · subst hl; simp
      · simp; right; exact ih l hl
  have hm : (splitAfterNL input).map (replaceAll pairs) = splitAfterNL input :=
    map_eq_self _ _ (fun l hl => by
      have := h (l, replaceAll pairs l) (hz _ l hl)
      have e : l = replaceAll pairs l := by simpa using this
      exact e.symm)
  rw [hm, splitAfterNL_flatten]

/-- at the start of an obfuscated name the first listed pair whose key matches is applied -/
theorem replace_at_key (pairs : List (Bytes × Bytes)) (k v rest : Bytes) (c : UInt8) (kr : Bytes) (f : Nat)
    (hk : k = c :: kr) (hfm : firstMatch pairs (k ++ rest) = some (k, v)) :
    replaceFuel pairs (f + 1) (k ++ rest) = v ++ replaceFuel pairs f rest := by
  subst hk
  simp only [List.cons_append, replaceFuel]
  simp only [List.cons_append] at hfm
  rw [hfm]
  simp

theorem isPrefixOf_self_append (k r : Bytes) : k.isPrefixOf (k ++ r) = true := by
  rw [List.isPrefixOf_iff_prefix]; exact List.prefix_append _ _

/-- **specific first**: with `name.go:1` listed before `name.go`, a frame `name.go:1` becomes `import/file.go:LINE`,
any other `name.go:N` becomes `import/file.go:N` -/
theorem specific_first (k a b : Bytes) (hne : k ≠ []) :
    firstMatch [(k ++ [58, 49], a), (k, b)] (k ++ [58, 49]) = some (k ++ [58, 49], a) ∧
    (∀ d : UInt8, d ≠ 49 → ∀ rest, firstMatch [(k ++ [58, 49], a), (k, b)] (k ++ 58 :: d :: rest) = some (k, b)) := by
  have he1 : (k ++ [58, 49]).isEmpty = false := by cases k <;> simp
  have he2 : k.isEmpty = false := by cases k <;> simp_all
  constructor
  · have hp : (k ++ [58, 49]).isPrefixOf (k ++ [58, 49]) = true := by
      rw [List.isPrefixOf_iff_prefix]; exact List.prefix_refl _
    unfold firstMatch
    simp only [List.find?, he1, hp, Bool.not_false, Bool.and_self]
  · intro d hd rest
    have h1 : (k ++ [58, 49]).isPrefixOf (k ++ 58 :: d :: rest) = false := by
      rw [Bool.eq_false_iff]
      intro hp
      rw [List.isPrefixOf_iff_prefix] at hp
      have := (List.prefix_append_right_inj k).mp hp
      obtain ⟨t, ht⟩ := this
      simp at ht
      exact hd ht.1.symm
    have h2 := isPrefixOf_self_append k (58 :: d :: rest)
    unfold firstMatch
    simp only [List.find?, he1, he2, h1, h2, Bool.not_false, Bool.and_false, Bool.and_self]

/-- the non-empty suffixes of a text -/
def tailsNE : Bytes → List Bytes
  | [] => []
  | c :: t => (c :: t) :: tailsNE t

/-- a trace template: literal text and references to obfuscated names (by index into the pair list) -/
inductive Seg
  | text (t : Bytes)
  | name (i : Nat)

def renderObf (pairs : List (Bytes × Bytes)) : List Seg → Bytes
  | [] => []
  | .text t :: r => t ++ renderObf pairs r
  | .name i :: r => ((pairs[i]?).map (·.1)).getD [] ++ renderObf pairs r

def renderOrig (pairs : List (Bytes × Bytes)) : List Seg → Bytes
  | [] => []
  | .text t :: r => t ++ renderOrig pairs r
  | .name i :: r => ((pairs[i]?).map (·.2)).getD [] ++ renderOrig pairs r

/-- the "unique parse" hypothesis: inside literal text no key matches, and where a name was written that name's own
pair is the first to match.  Its failure needs an accidental occurrence of a ≥6-character hashed name in other text
(C16: a hash-prefix coincidence). -/
def Clean (pairs : List (Bytes × Bytes)) : List Seg → Prop
  | [] => True
  | .text t :: r => ((tailsNE t).all fun suf => (firstMatch pairs (suf ++ renderObf pairs r)).isNone) = true ∧ Clean pairs r
  | .name i :: r => (∃ k v, pairs[i]? = some (k, v) ∧ k ≠ [] ∧ firstMatch pairs (k ++ renderObf pairs r) = some (k, v)) ∧ Clean pairs r

theorem replace_text (pairs : List (Bytes × Bytes)) : ∀ (t rest : Bytes) (f : Nat),
    ((tailsNE t).all fun suf => (firstMatch pairs (suf ++ rest)).isNone) = true →
    replaceFuel pairs (f + t.length) (t ++ rest) = t ++ replaceFuel pairs f rest
  | [], rest, f, _ => by simp
  | c :: t, rest, f, h => by
    simp only [tailsNE, List.all_cons, Bool.and_eq_true] at h
    have h0 : firstMatch pairs (c :: t ++ rest) = none := by simpa using h.1
    have : f + (c :: t).length = (f + t.length) + 1 := by simp; omega
    rw [this]
    simp only [List.cons_append, replaceFuel]
    simp only [List.cons_append] at h0
    rw [h0]
    simp only [List.cons.injEq, true_and]
    exact replace_text pairs t rest f h.2

/-- **round trip under unique parse**: every obfuscated package path, function, type, method, field and call position
written into otherwise clean text is replaced by its original, and the surrounding text is kept byte for byte -/
theorem roundtrip_unique_parse (pairs : List (Bytes × Bytes)) : ∀ (segs : List Seg) (f : Nat), Clean pairs segs →
    (renderObf pairs segs).length ≤ f → replaceFuel pairs (f + 1) (renderObf pairs segs) = renderOrig pairs segs
  | [], f, _, _ => by simp [renderObf, renderOrig, replaceFuel]
  | .text t :: r, f, hc, hf => by
    simp only [renderObf, renderOrig, List.length_append] at hf ⊢
    have : f + 1 = (f - t.length + 1) + t.length := by omega
    rw [this, replace_text pairs t (renderObf pairs r) (f - t.length + 1) hc.1]
    rw [roundtrip_unique_parse pairs r (f - t.length) hc.2 (by omega)]
  | .name i :: r, f, hc, hf => by
    obtain ⟨⟨k, v, hp, hne, hfm⟩, hcr⟩ := hc
    simp only [renderObf, renderOrig, hp, Option.map_some, Option.getD_some, List.length_append] at hf ⊢
    cases k with
    | nil => exact absurd rfl hne
    | cons c kr =>
      have hfl : 1 ≤ f := by simp at hf; omega
      have : f + 1 = (f - 1) + 1 + 1 := by omega
      rw [this, replace_at_key pairs (c :: kr) v _ c kr _ rfl hfm]
      rw [roundtrip_unique_parse pairs r (f - 1) hcr (by simp at hf; omega)]

/-- **forward ⊆ reverse table** for call positions: the file name the build writes into a line directive is the key the
reverse command computes, given that compiled file names are base names (cgo-generated files excluded) -/
theorem forward_position_in_reverse_table (cfg : GV.Salt.Cfg) (p : GV.Naming.Pkg) (goFile base : List UInt8) (off : Nat)
    (hb : goFile = base) (ht : cfg.tiny = false) :
    GV.Link.callPosName cfg p base off =
      (GV.Salt.hashWithPackage cfg p.path p.gaid (GV.Link.posString goFile off) .notIdent).map (· ++ GV.Salt.str ".go") := by
  subst hb; unfold GV.Link.callPosName; simp [ht]

/-- non-vacuity of `Clean`: "at Hx.go:1\n" with the pair list of one call position -/
example : Clean [([72, 120, 46, 103, 111, 58, 49], [112, 47, 102, 46, 103, 111, 58, 55]), ([72, 120, 46, 103, 111], [112, 47, 102, 46, 103, 111])]
    [.text [97, 116, 32], .name 0, .text [10]] := by
  refine ⟨by decide, ⟨⟨_, _, rfl, by simp, by decide⟩, by decide, trivial⟩⟩

end GV.Props.C04
