import GV.Model.Protocol
/-
C17 — Concurrent garble processes never interfere (the linker protocol part).

For ANY number of processes, ANY interleaving and ANY crashes: whenever a process runs the patched linker, the
binary on disk is complete and is the one for that process's version; and at most one process is inside the
lock-protected section.  flock semantics, rename atomicity of `go build -o` and timing are outside the model: partial.
-/
set_option linter.unusedSimpArgs false
namespace GV.Props.C17
open GV.Protocol

/-- the source order of the protocol steps, as it stands in /repo now (regenerated) -/
theorem linker_steps_order : GV.Gen.linkerSteps = ["Lock", "checkVersion", "fileExists", "applyPatches", "Remove", "Remove", "buildLinker", "writeVersion"] := by decide
/-- the lock is taken inside PatchLinker, released by a deferred call, i.e. after the linker has run -/
theorem toolexec_steps_order : GV.Gen.toolexecLinkSteps = ["PatchLinker", "defer unlock", "Run"] := by decide

structure Inv (s : State) : Prop where
  owns : ∀ p, inCS (s.pc p) = true → s.owner = some p
  haveBin : ∀ p, (s.pc p = .built ∨ s.pc p = .stamped ∨ s.pc p = .running) → s.bin = .complete (s.ver p)
  stampOK : ∀ v, s.stamp = some v → s.bin = .complete v
  noStampWhileBuilding : ∀ p, s.pc p = .building → s.stamp = none

/-- any starting condition of the cache directory: no linker, a complete linker with or without its stamp, or a
partial binary left by an earlier crash (necessarily without a matching stamp) -/
theorem inv_initial (ver : Pid → Ver) (bin : Bin) (stamp : Option Ver)
    (h : ∀ v, stamp = some v → bin = .complete v) : Inv (initial ver bin stamp) := by
  refine ⟨?_, ?_, h, ?_⟩ <;> intros <;> simp_all [initial, inCS]

theorem mutex (s : State) (h : Inv s) (p q : Pid) (hp : inCS (s.pc p) = true) (hq : inCS (s.pc q) = true) : p = q := by
  have h1 := h.owns p hp; have h2 := h.owns q hq; rw [h1] at h2; exact Option.some.inj h2

theorem pc_setPc_self (s : State) (p : Pid) (c : PC) : (setPc s p c).pc p = c := by simp [setPc]
theorem pc_setPc_other (s : State) (p q : Pid) (c : PC) (h : q ≠ p) : (setPc s p c).pc q = s.pc q := by simp [setPc, h]

/-- a step by `p` that keeps `p` inside the critical section (or a step by which `p` enters it while nobody holds
the lock) leaves every other process outside -/
theorem others_outside (s : State) (h : Inv s) (p q : Pid) (hp : inCS (s.pc p) = true) (hq : q ≠ p) : inCS (s.pc q) = false := by
  cases hc : inCS (s.pc q) with
  | false => rfl
  | true => exact absurd (mutex s h q p hc hp) hq

/-- the invariant survives every step of every process, including crashes at any point -/
theorem inv_step (s t : State) (h : Inv s) (st : Step s t) : Inv t := by
  cases st with
  | lock p hpc ho =>
    refine ⟨?_, ?_, ?_, ?_⟩
    · intro q hq
      by_cases e : q = p
      · subst e; simp [setPc]
      · rw [pc_setPc_other _ _ _ _ e] at hq; (try dsimp only at hq); (try dsimp only at hq)
        have := h.owns q hq; simp [ho] at this
    · intro q hq
      by_cases e : q = p
      · subst e; simp [setPc] at hq
      · rw [pc_setPc_other _ _ _ _ e] at hq; (try dsimp only at hq); simpa [setPc] using h.haveBin q hq
    · intro v hv; simpa [setPc] using h.stampOK v (by simpa [setPc] using hv)
    · intro q hq
      by_cases e : q = p
      · subst e; simp [setPc] at hq
      · rw [pc_setPc_other _ _ _ _ e] at hq; (try dsimp only at hq); simpa [setPc] using h.noStampWhileBuilding q hq
  | reuse p hpc hok =>
    simp only [linkerOK, Bool.and_eq_true, beq_iff_eq] at hok
    have hin : inCS (s.pc p) = true := by simp [hpc, inCS]
    refine ⟨?_, ?_, ?_, ?_⟩
    · intro q hq
      by_cases e : q = p
      · subst e; simpa [setPc] using h.owns q hin
      · rw [pc_setPc_other _ _ _ _ e] at hq; (try dsimp only at hq); simpa [setPc] using h.owns q hq
    · intro q hq
      by_cases e : q = p
      · subst e; simpa [setPc] using hok.2
      · rw [pc_setPc_other _ _ _ _ e] at hq; (try dsimp only at hq); simpa [setPc] using h.haveBin q hq
    · intro v hv; simpa [setPc] using h.stampOK v (by simpa [setPc] using hv)
    · intro q hq
      by_cases e : q = p
      · subst e; simp [setPc] at hq
      · rw [pc_setPc_other _ _ _ _ e] at hq; (try dsimp only at hq); simpa [setPc] using h.noStampWhileBuilding q hq
  | startBuild p hpc hno =>
    have hin : inCS (s.pc p) = true := by simp [hpc, inCS]
    refine ⟨?_, ?_, ?_, ?_⟩
    · intro q hq
      by_cases e : q = p
      · subst e; simpa [setPc] using h.owns q hin
      · rw [pc_setPc_other _ _ _ _ e] at hq; (try dsimp only at hq); simpa [setPc] using h.owns q hq
    · intro q hq
      by_cases e : q = p
      · subst e; simp [setPc] at hq
      · rw [pc_setPc_other _ _ _ _ e] at hq; (try dsimp only at hq); (try dsimp only at hq)
        have := others_outside s h p q hin e
        rcases hq with hq | hq | hq <;> simp [hq, inCS] at this
    · intro v hv; simp [setPc] at hv
    · intro q _; simp [setPc]
  | finishBuild p hpc =>
    have hin : inCS (s.pc p) = true := by simp [hpc, inCS]
    have hns := h.noStampWhileBuilding p hpc
    refine ⟨?_, ?_, ?_, ?_⟩
    · intro q hq
      by_cases e : q = p
      · subst e; simpa [setPc] using h.owns q hin
      · rw [pc_setPc_other _ _ _ _ e] at hq; (try dsimp only at hq); simpa [setPc] using h.owns q hq
    · intro q hq
      by_cases e : q = p
      · subst e; simp [setPc]
      · rw [pc_setPc_other _ _ _ _ e] at hq; (try dsimp only at hq); (try dsimp only at hq)
        have := others_outside s h p q hin e
        rcases hq with hq | hq | hq <;> simp [hq, inCS] at this
    · intro v hv; simp [setPc, hns] at hv
    · intro q hq
      by_cases e : q = p
      · subst e; simp [setPc] at hq
      · rw [pc_setPc_other _ _ _ _ e] at hq; (try dsimp only at hq); (try dsimp only at hq)
        have := others_outside s h p q hin e
        simp [hq, inCS] at this
  | writeStamp p hpc =>
    have hin : inCS (s.pc p) = true := by simp [hpc, inCS]
    have hb := h.haveBin p (Or.inl hpc)
    refine ⟨?_, ?_, ?_, ?_⟩
    · intro q hq
      by_cases e : q = p
      · subst e; simpa [setPc] using h.owns q hin
      · rw [pc_setPc_other _ _ _ _ e] at hq; (try dsimp only at hq); simpa [setPc] using h.owns q hq
    · intro q hq
      by_cases e : q = p
      · subst e; simpa [setPc] using hb
      · rw [pc_setPc_other _ _ _ _ e] at hq; (try dsimp only at hq); simpa [setPc] using h.haveBin q hq
    · intro v hv
      simp [setPc] at hv
      rw [← hv]; simpa [setPc] using hb
    · intro q hq
      by_cases e : q = p
      · subst e; simp [setPc] at hq
      · rw [pc_setPc_other _ _ _ _ e] at hq; (try dsimp only at hq); (try dsimp only at hq)
        have := others_outside s h p q hin e
        simp [hq, inCS] at this
  | toRun p hpc =>
    have hin : inCS (s.pc p) = true := by simp [hpc, inCS]
    have hb := h.haveBin p (Or.inr (Or.inl hpc))
    refine ⟨?_, ?_, ?_, ?_⟩
    · intro q hq
      by_cases e : q = p
      · subst e; simpa [setPc] using h.owns q hin
      · rw [pc_setPc_other _ _ _ _ e] at hq; (try dsimp only at hq); simpa [setPc] using h.owns q hq
    · intro q hq
      by_cases e : q = p
      · subst e; simpa [setPc] using hb
      · rw [pc_setPc_other _ _ _ _ e] at hq; (try dsimp only at hq); simpa [setPc] using h.haveBin q hq
    · intro v hv; simpa [setPc] using h.stampOK v (by simpa [setPc] using hv)
    · intro q hq
      by_cases e : q = p
      · subst e; simp [setPc] at hq
      · rw [pc_setPc_other _ _ _ _ e] at hq; (try dsimp only at hq); simpa [setPc] using h.noStampWhileBuilding q hq
  | unlock p hpc =>
    have hin : inCS (s.pc p) = true := by simp [hpc, inCS]
    refine ⟨?_, ?_, ?_, ?_⟩
    · intro q hq
      by_cases e : q = p
      · subst e; simp [setPc, inCS] at hq
      · rw [pc_setPc_other _ _ _ _ e] at hq; (try dsimp only at hq); (try dsimp only at hq)
        have := others_outside s h p q hin e
        rw [hq] at this; simp at this
    · intro q hq
      by_cases e : q = p
      · subst e; simp [setPc] at hq
      · rw [pc_setPc_other _ _ _ _ e] at hq; (try dsimp only at hq); simpa [setPc] using h.haveBin q hq
    · intro v hv; simpa [setPc] using h.stampOK v (by simpa [setPc] using hv)
    · intro q hq
      by_cases e : q = p
      · subst e; simp [setPc] at hq
      · rw [pc_setPc_other _ _ _ _ e] at hq; (try dsimp only at hq); simpa [setPc] using h.noStampWhileBuilding q hq
  | crash p h1 h2 =>
    refine ⟨?_, ?_, ?_, ?_⟩
    · intro q hq
      by_cases e : q = p
      · subst e; simp [setPc, inCS] at hq
      · rw [pc_setPc_other _ _ _ _ e] at hq; (try dsimp only at hq); (try dsimp only at hq)
        have := h.owns q hq
        simp [setPc, this, e]
    · intro q hq
      by_cases e : q = p
      · subst e; simp [setPc] at hq
      · rw [pc_setPc_other _ _ _ _ e] at hq; (try dsimp only at hq); simpa [setPc] using h.haveBin q hq
    · intro v hv; simpa [setPc] using h.stampOK v (by simpa [setPc] using hv)
    · intro q hq
      by_cases e : q = p
      · subst e; simp [setPc] at hq
      · rw [pc_setPc_other _ _ _ _ e] at hq; (try dsimp only at hq); simpa [setPc] using h.noStampWhileBuilding q hq

theorem inv_reach (s t : State) (h : Inv s) (r : Reach s t) : Inv t := by
  induction r with
  | refl => exact h
  | step _ st ih => exact inv_step _ _ ih st

/-- **the patched linker is never used half-written**: in every state reachable from any initial cache directory
state by any interleaving of any number of processes (and any crashes), a process that is about to run / running the
linker finds the complete binary of its own version -/
theorem running_has_complete_linker (ver : Pid → Ver) (bin : Bin) (stamp : Option Ver)
    (h0 : ∀ v, stamp = some v → bin = .complete v) (t : State) (r : Reach (initial ver bin stamp) t)
    (p : Pid) (hp : t.pc p = .running) : t.bin = .complete (t.ver p) :=
  (inv_reach _ _ (inv_initial ver bin stamp h0) r).haveBin p (Or.inr (Or.inr hp))

/-- **mutual exclusion**: no two processes are between lock and unlock at the same time -/
theorem mutual_exclusion (ver : Pid → Ver) (bin : Bin) (stamp : Option Ver)
    (h0 : ∀ v, stamp = some v → bin = .complete v) (t : State) (r : Reach (initial ver bin stamp) t)
    (p q : Pid) (hp : inCS (t.pc p) = true) (hq : inCS (t.pc q) = true) : p = q :=
  mutex t (inv_reach _ _ (inv_initial ver bin stamp h0) r) p q hp hq

/-- sanity (the invariant is not vacuous): WITHOUT the requirement that the lock is free, a second process can start
rebuilding while the first is running the linker — the state the invariant forbids -/
example : ∃ s : State, s.pc 0 = .running ∧ s.pc 1 = .building ∧ s.bin = .part 7 ∧ ¬ Inv s :=
  ⟨{ owner := some 0, bin := .part 7, stamp := none, pc := fun q => if q = 0 then .running else if q = 1 then .building else .idle, ver := fun _ => 7 },
   rfl, rfl, rfl, fun h => by have := h.haveBin 0 (Or.inr (Or.inr rfl)); simp at this⟩

end GV.Props.C17
