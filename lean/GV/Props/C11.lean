import GV.Model.Ctrlflow
/-
C11 — Control-flow obfuscation preserves function behaviour.

PARTIAL: the conversion of forty SSA instruction kinds back to Go source (ssa2ast) is not modelled; it is exercised by
the differential check (gvlib/c11.py), which is also where the two open findings live.  Proved here, for all inputs:

* trash blocks are never entered: `always_false_nonempty`, `always_false_is_false`;
* the flattening dispatcher routes every stored key to its own block and the initial value 0 to the real entry:
  `flatten_keys_ok`, `dispatch_hits`, `dispatch_entry`;
* `generateKeys` returns distinct, non-zero, non-blacklisted keys for every random stream: `generateKeys_ok`;
* under both hardenings the emitted store expression evaluates to the emitted compare literal, and the compare
  literals stay pairwise distinct and non-zero: `xor_*`, `delegate_*`;
* phi lowering: a tuple assignment is exactly the SSA semantics (`tuple_is_parallel`); the sequential lowering garble
  used before fix is NOT (`sequential_is_wrong`, the `a, b = b, a` witness) and is right only without interference
  (`sequential_ok_partial`);
* inserting a do-nothing block on an edge (junk jump; trash dispatch with its always-false condition) changes no
  execution between original blocks, in either direction: `insertEdge_forward`, `insertEdge_backward`.
-/
set_option linter.unusedSimpArgs false
namespace GV.Props.C11
open GV.Ctrlflow

/-! ### trash blocks are never entered -/

theorem always_false_nonempty (v1 v2 : Int) : falseCandidates v1 v2 ≠ [] := by
  by_cases h : v1 = v2
  · have : Cmp.neq ∈ falseCandidates v1 v2 := by
      unfold falseCandidates
      exact List.mem_filter.mpr ⟨by simp [allCmps], by simp [Cmp.eval, h]⟩
    exact List.ne_nil_of_mem this
  · have : Cmp.eql ∈ falseCandidates v1 v2 := by
      unfold falseCandidates
      exact List.mem_filter.mpr ⟨by simp [allCmps], by simp [Cmp.eval, h]⟩
    exact List.ne_nil_of_mem this

theorem always_false_is_false (v1 v2 : Int) (draw : Nat) (t : Cmp) (h : pickCmp v1 v2 draw = some t) :
    t.eval v1 v2 = false := by
  unfold pickCmp at h
  have hm : t ∈ falseCandidates v1 v2 := List.mem_of_getElem? h
  unfold falseCandidates at hm
  have := (List.mem_filter.mp hm).2
  simpa using this

/-- every draw below the number of candidates picks one (the code draws `Intn(len(candidates))`) -/
theorem always_false_total (v1 v2 : Int) (draw : Nat) (h : draw < (falseCandidates v1 v2).length) :
    ∃ t, pickCmp v1 v2 draw = some t := by
  unfold pickCmp
  exact ⟨_, List.getElem?_eq_getElem h⟩

/-! ### dispatcher -/

theorem flatten_keys_ok (perm : List Nat) (h : perm.Nodup) : (flattenKeys perm).Nodup ∧ 0 ∉ flattenKeys perm := by
  unfold flattenKeys
  constructor
  · rw [List.nodup_iff_pairwise_ne, List.pairwise_map]
    exact List.Pairwise.imp (fun {a b} (hab : a ≠ b) (e : a + 1 = b + 1) => hab (by omega)) h
  · simp

theorem findIdx?_nodup (keys : List Nat) (nd : keys.Nodup) (i : Nat) (hi : i < keys.length) :
    keys.findIdx? (· == keys[i]) = some i := by
  induction keys generalizing i with
  | nil => simp at hi
  | cons a t ih =>
    rw [List.nodup_cons] at nd
    cases i with
    | zero => simp [List.findIdx?_cons]
    | succ i =>
      have hi' : i < t.length := by simpa using hi
      have hne : a ≠ t[i] := by
        intro e; exact nd.1 (e ▸ List.getElem_mem hi')
      have : (a == (a :: t)[i + 1]) = false := by simpa using hne
      rw [List.findIdx?_cons, this]
      simp only [List.getElem_cons_succ]
      rw [ih nd.2 i hi']
      simp

/-- a block that stored `keys[i]` in the dispatcher variable is followed by target `i` -/
theorem dispatch_hits (keys : List Nat) (nd : keys.Nodup) (i : Nat) (hi : i < keys.length) :
    dispatch keys keys[i] = some i := by
  unfold dispatch
  rw [findIdx?_nodup keys nd i hi]

/-- on function entry the dispatcher variable is 0 and the chain falls through to the real entry block -/
theorem dispatch_entry (keys : List Nat) (h0 : 0 ∉ keys) : dispatch keys 0 = none := by
  unfold dispatch
  have : keys.findIdx? (· == 0) = none := by
    rw [List.findIdx?_eq_none_iff]
    intro x hx
    have : x ≠ 0 := fun e => h0 (e ▸ hx)
    simpa using this
  rw [this]

/-! ### key generation -/

theorem generateKeys_inv (count : Nat) (black draws acc : List Nat) (res : List Nat)
    (hacc : acc.Nodup ∧ 0 ∉ acc ∧ ∀ x ∈ acc, x ∉ black)
    (h : generateKeys count black draws acc = some res) :
    res.Nodup ∧ 0 ∉ res ∧ (∀ x ∈ res, x ∉ black) ∧ res.length = acc.length + count := by
  fun_induction generateKeys count black draws acc with
  | case1 black draws acc =>
    simp only [Option.some.injEq] at h
    subst h
    refine ⟨(List.reverse_perm acc).nodup_iff.mpr hacc.1, by simpa using hacc.2.1, ?_, by simp⟩
    intro x hx; exact hacc.2.2 x (List.mem_reverse.mp hx)
  | case2 c black acc => simp at h
  | case3 c black d ds acc hskip ih => exact ih hacc h
  | case4 c black d ds acc hkeep ih =>
    simp only [Bool.or_eq_true, beq_iff_eq, List.contains_eq_mem, decide_eq_true_eq, not_or] at hkeep
    have hacc' : (d :: acc).Nodup ∧ 0 ∉ (d :: acc) ∧ ∀ x ∈ d :: acc, x ∉ black := by
      refine ⟨List.nodup_cons.mpr ⟨hkeep.2, hacc.1⟩, ?_, ?_⟩
      · simp only [List.mem_cons, not_or]
        exact ⟨fun e => hkeep.1.1 e.symm, hacc.2.1⟩
      · intro x hx
        rcases List.mem_cons.mp hx with e | e
        · subst e; exact hkeep.1.2
        · exact hacc.2.2 x e
    have := ih hacc' h
    refine ⟨this.1, this.2.1, this.2.2.1, ?_⟩
    have hl := this.2.2.2
    simp only [List.length_cons] at hl
    omega

/-- for EVERY random stream: the keys are pairwise distinct, non-zero, not blacklisted, and there are `count` of them -/
theorem generateKeys_ok (count : Nat) (black draws : List Nat) (res : List Nat)
    (h : generateKeys count black draws [] = some res) :
    res.Nodup ∧ 0 ∉ res ∧ (∀ x ∈ res, x ∉ black) ∧ res.length = count := by
  have := generateKeys_inv count black draws [] res ⟨List.nodup_nil, by simp, by simp⟩ h
  simpa using this

/-! ### hardening -/

theorem xor_cancel (a b : Nat) : (a ^^^ b) ^^^ b = a := by
  rw [Nat.xor_assoc, Nat.xor_self, Nat.xor_zero]

/-- xor hardening: the emitted store expression evaluates to the emitted compare literal -/
theorem xor_store_eq_compare (h : XorH) (i : Nat) : h.store i = h.compare i := by
  unfold XorH.store XorH.compare XorH.globalKey
  exact Nat.xor_comm _ _

theorem xor_left_inj (g a b : Nat) (e : a ^^^ g = b ^^^ g) : a = b := by
  have := congrArg (· ^^^ g) e
  simpa [xor_cancel] using this

/-- ... the compare literals are non-zero (so the initial 0 still reaches the real entry) because the global key is
blacklisted, and pairwise distinct because the keys are -/
theorem xor_compare_ok (h : XorH) (nd : h.ks.Nodup) (hb : h.globalKey ∉ h.ks) (i j : Nat) (hi : i < h.ks.length) (hj : j < h.ks.length) :
    h.compare i ≠ 0 ∧ (h.compare i = h.compare j → i = j) := by
  unfold XorH.compare
  rw [getElem!_pos h.ks i hi, getElem!_pos h.ks j hj]
  constructor
  · intro e
    have : h.ks[i] = h.globalKey := by
      have := congrArg (· ^^^ h.globalKey) e
      simpa [xor_cancel, Nat.zero_xor] using this
    exact hb (this ▸ List.getElem_mem hi)
  · intro e
    have := xor_left_inj _ _ _ e
    exact (List.getElem_inj nd).mp this

/-- delegate-table hardening: the delegate call decrypts to the compare literal, whatever key bytes, indexes and
local keys were drawn -/
theorem delegate_store_eq_compare (h : DelegateH) (i : Nat) : h.store i = h.compare i := by
  unfold DelegateH.store DelegateH.encrypted DelegateH.compare
  exact xor_cancel _ _

theorem delegate_compare_ok (h : DelegateH) (nd : h.ks.Nodup) (h0 : 0 ∉ h.ks) (i j : Nat) (hi : i < h.ks.length) (hj : j < h.ks.length) :
    h.compare i ≠ 0 ∧ (h.compare i = h.compare j → i = j) := by
  unfold DelegateH.compare
  rw [getElem!_pos h.ks i hi, getElem!_pos h.ks j hj]
  exact ⟨fun e => h0 (e ▸ List.getElem_mem hi), fun e => (List.getElem_inj nd).mp e⟩

/-! ### phi lowering -/

theorem foldl_set_not_mem (vals : List (Var × Int)) (env : Env) (w : Var) (h : ∀ p ∈ vals, p.1 ≠ w) :
    (vals.foldl (fun e p => e.set p.1 p.2) env) w = env w := by
  induction vals generalizing env with
  | nil => rfl
  | cons p t ih =>
    simp only [List.foldl_cons]
    rw [ih _ (fun q hq => h q (List.mem_cons_of_mem _ hq))]
    have : p.1 ≠ w := h p (List.mem_cons_self ..)
    simp [Env.set, Ne.symm this]

theorem foldl_set_nodup (vals : List (Var × Int)) (nd : (vals.map (·.1)).Nodup) (env : Env) (w : Var) :
    (vals.foldl (fun e p => e.set p.1 p.2) env) w = match vals.find? (·.1 == w) with
      | some p => p.2
      | none => env w := by
  induction vals generalizing env with
  | nil => rfl
  | cons p t ih =>
    simp only [List.map_cons, List.nodup_cons, List.mem_map] at nd
    simp only [List.foldl_cons, List.find?_cons]
    by_cases hp : p.1 = w
    · have : (p.1 == w) = true := by simpa using hp
      simp only [this]
      rw [foldl_set_not_mem]
      · simp [Env.set, hp]
      · intro q hq e
        exact nd.1 ⟨q, hq, by rw [e, hp]⟩
    · have : (p.1 == w) = false := by simpa using hp
      simp only [this]
      rw [ih nd.2]
      cases t.find? (·.1 == w) with
      | some q => rfl
      | none => simp [Env.set, Ne.symm hp]

/-- **the lowering used since the fix**: one tuple assignment per predecessor block is exactly the SSA semantics of
the phi nodes, for every set of phi nodes (distinct targets), every operand and every environment -/
theorem tuple_is_parallel (ps : List (Var × Operand)) (nd : (ps.map (·.1)).Nodup) (env : Env) :
    tupleAssign ps env = phiParallel ps env := by
  funext w
  unfold tupleAssign phiParallel
  rw [foldl_set_nodup]
  · rw [List.find?_map]
    cases h : ps.find? ((fun p => p.1 == w) ∘ fun p => (p.1, p.2.eval env)) with
    | none =>
      have : ps.find? (·.1 == w) = none := by simpa [Function.comp_def] using h
      simp [this]
    | some p =>
      have : ps.find? (·.1 == w) = some p := by simpa [Function.comp_def] using h
      simp [this]
  · simpa [List.map_map, Function.comp_def] using nd

/-- the sequential lowering is wrong: `a, b = b, a` (phi nodes of a loop header that swap two variables) -/
theorem sequential_is_wrong : ∃ (ps : List (Var × Operand)) (env : Env),
    (ps.map (·.1)).Nodup ∧ phiSequential ps env ≠ phiParallel ps env := by
  refine ⟨[(0, .var 1), (1, .var 0)], (fun v => if v = 0 then 1 else 2), by decide, ?_⟩
  intro e
  have := congrFun e 1
  simp [phiSequential, phiParallel, Env.set, Operand.eval] at this

/-- the sequential lowering is right when no later phi reads an earlier phi's target -/
theorem sequential_ok_partial (ps : List (Var × Operand)) (nd : (ps.map (·.1)).Nodup) (env : Env)
    (indep : ∀ p ∈ ps, ∀ q ∈ ps, q.2 ≠ .var p.1) :
    phiSequential ps env = phiParallel ps env := by
  rw [← tuple_is_parallel ps nd]
  unfold phiSequential tupleAssign
  simp only []
  -- evaluating in the running environment equals evaluating in the initial one
  have key : ∀ (l : List (Var × Operand)) (e : Env), (∀ q ∈ l, q.2.eval e = q.2.eval env) →
      (∀ p ∈ l, ∀ q ∈ l, q.2 ≠ .var p.1) →
      l.foldl (fun e p => e.set p.1 (p.2.eval e)) e = (l.map fun p => (p.1, p.2.eval env)).foldl (fun e p => e.set p.1 p.2) e := by
    intro l
    induction l with
    | nil => intro e _ _; rfl
    | cons p t ih =>
      intro e he hind
      simp only [List.foldl_cons, List.map_cons]
      rw [he p (List.mem_cons_self ..)]
      apply ih
      · intro q hq
        rw [← he q (List.mem_cons_of_mem _ hq)]
        cases hq2 : q.2 with
        | const c => rfl
        | var v =>
          have : v ≠ p.1 := by
            intro ev
            exact hind p (List.mem_cons_self ..) q (List.mem_cons_of_mem _ hq) (by rw [hq2, ev])
          simp [Operand.eval, Env.set, this]
      · intro a ha b hb
        exact hind a (List.mem_cons_of_mem _ ha) b (List.mem_cons_of_mem _ hb)
  exact key ps env (fun _ _ => rfl) indep

/-! ### edge insertion (junk jumps, trash dispatch blocks) -/

variable {σ : Type}

theorem steps_trans {P : Prog σ} {a b c : Nat} {s t u : σ} (h1 : Steps P a s b t) (h2 : Steps P b t c u) : Steps P a s c u := by
  induction h1 with
  | refl => exact h2
  | step hn _ ih => exact .step hn (ih h2)

theorem ie_exec_ne (P : Prog σ) (b tgt j n : Nat) (s : σ) (hn : n ≠ j) : (insertEdge P b tgt j).exec n s = P.exec n s := by
  simp [insertEdge, hn]
theorem ie_exec_j (P : Prog σ) (b tgt j : Nat) (s : σ) : (insertEdge P b tgt j).exec j s = s := by
  simp [insertEdge]
theorem ie_next_j (P : Prog σ) (b tgt j : Nat) (s : σ) : (insertEdge P b tgt j).next j s = some tgt := by
  simp [insertEdge]
theorem ie_next_other (P : Prog σ) (b tgt j n : Nat) (s : σ) (hn : n ≠ j) (hnb : n ≠ b) :
    (insertEdge P b tgt j).next n s = P.next n s := by
  simp [insertEdge, hn, hnb]
theorem ie_next_b_hit (P : Prog σ) (b tgt j : Nat) (s : σ) (hb : b ≠ j) (h : P.next b s = some tgt) :
    (insertEdge P b tgt j).next b s = some j := by
  simp [insertEdge, hb, h]
theorem ie_next_b_miss (P : Prog σ) (b tgt j m : Nat) (s : σ) (hb : b ≠ j) (h : P.next b s = some m) (hm : m ≠ tgt) :
    (insertEdge P b tgt j).next b s = some m := by
  simp [insertEdge, hb, h, hm]
theorem ie_next_b_none (P : Prog σ) (b tgt j : Nat) (s : σ) (hb : b ≠ j) (h : P.next b s = none) :
    (insertEdge P b tgt j).next b s = none := by
  simp [insertEdge, hb, h]

/-- every execution of the original function between two of its blocks is an execution of the transformed one -/
theorem insertEdge_forward (P : Prog σ) (b tgt j : Nat) (hb : b ≠ j)
    (n k : Nat) (s t : σ) (fresh : ∀ m u, P.next m u ≠ some j) (hn : n ≠ j)
    (h : Steps P n s k t) : Steps (insertEdge P b tgt j) n s k t := by
  induction h with
  | refl => exact .refl _ _
  | @step n m k s t hnext _ ih =>
    have hm : m ≠ j := fun e => fresh n _ (e ▸ hnext)
    have ex := ie_exec_ne P b tgt j n s hn
    by_cases hnb : n = b
    · subst hnb
      by_cases hmt : m = tgt
      · subst hmt
        -- the redirected edge: n -> j -> m
        have n1 : (insertEdge P n m j).next n ((insertEdge P n m j).exec n s) = some j := by
          rw [ex]; exact ie_next_b_hit P n m j _ hb hnext
        refine .step n1 ?_
        rw [ex]
        have n2 : (insertEdge P n m j).next j ((insertEdge P n m j).exec j (P.exec n s)) = some m := ie_next_j P n m j _
        refine .step n2 ?_
        rw [ie_exec_j]
        exact ih hm
      · have n1 : (insertEdge P n tgt j).next n ((insertEdge P n tgt j).exec n s) = some m := by
          rw [ex]; exact ie_next_b_miss P n tgt j m _ hb hnext hmt
        refine .step n1 ?_
        rw [ex]; exact ih hm
    · have n1 : (insertEdge P b tgt j).next n ((insertEdge P b tgt j).exec n s) = some m := by
        rw [ex, ie_next_other P b tgt j n _ hn hnb]; exact hnext
      refine .step n1 ?_
      rw [ex]; exact ih hm

/-- ... and conversely: the transformed function has no other executions between original blocks -/
theorem insertEdge_backward (P : Prog σ) (b tgt j : Nat) (hb : b ≠ j) (ht : tgt ≠ j)
    (fresh : ∀ m u, P.next m u ≠ some j)
    (n k : Nat) (s t : σ) (hk : k ≠ j)
    (h : Steps (insertEdge P b tgt j) n s k t) :
    (n ≠ j → Steps P n s k t) ∧ (n = j → Steps P tgt s k t) := by
  induction h with
  | refl n s => exact ⟨fun _ => .refl _ _, fun e => absurd e hk⟩
  | @step n m k s t hnext _ ih =>
    have ih2 := ih hk
    constructor
    · intro hn
      have ex := ie_exec_ne P b tgt j n s hn
      rw [ex] at hnext ih2
      by_cases hnb : n = b
      · subst hnb
        cases hp : P.next n (P.exec n s) with
        | none =>
          rw [ie_next_b_none P n tgt j _ hb hp] at hnext
          cases hnext
        | some m0 =>
          by_cases hmt : m0 = tgt
          · subst hmt
            rw [ie_next_b_hit P n m0 j _ hb hp] at hnext
            have : m = j := by cases hnext; rfl
            exact .step hp (ih2.2 this)
          · rw [ie_next_b_miss P n tgt j m0 _ hb hp hmt] at hnext
            have hmm : m = m0 := by cases hnext; rfl
            subst hmm
            have hm : m ≠ j := fun e => fresh n _ (e ▸ hp)
            exact .step hp (ih2.1 hm)
      · rw [ie_next_other P b tgt j n _ hn hnb] at hnext
        have hm : m ≠ j := fun e => fresh n _ (e ▸ hnext)
        exact .step hnext (ih2.1 hm)
    · intro hn
      subst hn
      rw [ie_exec_j] at hnext ih2
      rw [ie_next_j] at hnext
      have hmt : m = tgt := by cases hnext; rfl
      subst hmt
      exact ih2.1 ht

/-- non-vacuity: a two-block loop with a junk jump inserted on its back edge still runs its three iterations -/
example : ∃ t, Steps (insertEdge (σ := Nat) ⟨fun n s => if n = 0 then s + 1 else s, fun n s => if n = 0 then (if s < 3 then some 0 else some 1) else none⟩ 0 0 7) 0 0 1 t := by
  refine ⟨3, ?_⟩
  have fwd := insertEdge_forward (σ := Nat) ⟨fun n s => if n = 0 then s + 1 else s, fun n s => if n = 0 then (if s < 3 then some 0 else some 1) else none⟩ 0 0 7 (by decide) 0 1 0 3
    (by intro m u; simp only []; split <;> (try split) <;> simp) (by decide)
  apply fwd
  exact .step (m := 0) (by decide) (.step (m := 0) (by decide) (.step (m := 1) (by decide) (.refl _ _)))

end GV.Props.C11
