import GV.Model.Ctrlflow
/-
C11 — Control-flow obfuscation preserves function behaviour.

PARTIAL: the conversion of forty SSA instruction kinds back to Go source (ssa2ast) is not modelled; it is exercised by
the differential check (gvlib/c11.py), which is also where the two open findings live.  Proved here, for all inputs:

* trash blocks are never entered: `always_false_nonempty`, `always_false_is_false`;
* the flattening dispatcher routes every stored key to its own block and the initial value 0 to the real entry:
  `flatten_keys_ok`, `dispatch_hits`, `dispatch_entry`;
* `generateKeys` returns distinct, non-zero, non-blacklisted keys for every random stream: `generateKeys_ok`;
* under both hardenings the emitted store expression evaluates to the emitted compare literal, and the compare
  literals stay pairwise distinct and non-zero: `xor_*`, `delegate_*`;
* phi lowering: a tuple assignment is exactly the SSA semantics (`tuple_is_parallel`); the sequential lowering garble
  used before fix is NOT (`sequential_is_wrong`, the `a, b = b, a` witness) and is right only without interference
  (`sequential_ok_partial`);
* inserting a do-nothing block on an edge (junk jump; trash dispatch with its always-false condition) changes no
  execution between original blocks, in either direction: `insertEdge_forward`, `insertEdge_backward`;
* **one flattening pass** over an abstract CFG (any blocks, any state, any set of redirected edges, any distinct
  non-zero keys): the dispatcher built as control flow (jump blocks, entry, if-chain) routes every redirected edge to
  its target and the initial 0 to the real entry (`dispatcher_routes`, `dispatcher_entry`), hence every execution of
  the original function is an execution of the flattened one with the same function state (`flatten_forward`) and
  every result it returns is returned (`flatten_returns`).  The real `applyFlattening` is checked on every run to
  produce exactly this structure (gvlib/c11.py `flatten_structure`).
-/
set_option linter.unusedSimpArgs false
namespace GV.Props.C11
open GV.Ctrlflow

/-! ### trash blocks are never entered -/

theorem always_false_nonempty (v1 v2 : Int) : falseCandidates v1 v2 ≠ [] := by
  by_cases h : v1 = v2
  · have : Cmp.neq ∈ falseCandidates v1 v2 := by
      unfold falseCandidates
      exact List.mem_filter.mpr ⟨by simp [allCmps], by simp [Cmp.eval, h]⟩
    exact List.ne_nil_of_mem this
  · have : Cmp.eql ∈ falseCandidates v1 v2 := by
      unfold falseCandidates
      exact List.mem_filter.mpr ⟨by simp [allCmps], by simp [Cmp.eval, h]⟩
    exact List.ne_nil_of_mem this

theorem always_false_is_false (v1 v2 : Int) (draw : Nat) (t : Cmp) (h : pickCmp v1 v2 draw = some t) :
    t.eval v1 v2 = false := by
  unfold pickCmp at h
  have hm : t ∈ falseCandidates v1 v2 := List.mem_of_getElem? h
  unfold falseCandidates at hm
  have := (List.mem_filter.mp hm).2
  simpa using this

/-- every draw below the number of candidates picks one (the code draws `Intn(len(candidates))`) -/
theorem always_false_total (v1 v2 : Int) (draw : Nat) (h : draw < (falseCandidates v1 v2).length) :
    ∃ t, pickCmp v1 v2 draw = some t := by
  unfold pickCmp
  exact ⟨_, List.getElem?_eq_getElem h⟩

/-! ### dispatcher -/

theorem flatten_keys_ok (perm : List Nat) (h : perm.Nodup) : (flattenKeys perm).Nodup ∧ 0 ∉ flattenKeys perm := by
  unfold flattenKeys
  constructor
  · rw [List.nodup_iff_pairwise_ne, List.pairwise_map]
    exact List.Pairwise.imp (fun {a b} (hab : a ≠ b) (e : a + 1 = b + 1) => hab (by omega)) h
  · simp

theorem findIdx?_nodup (keys : List Nat) (nd : keys.Nodup) (i : Nat) (hi : i < keys.length) :
    keys.findIdx? (· == keys[i]) = some i := by
  induction keys generalizing i with
  | nil => simp at hi
  | cons a t ih =>
    rw [List.nodup_cons] at nd
    cases i with
    | zero => simp [List.findIdx?_cons]
    | succ i =>
      have hi' : i < t.length := by simpa using hi
      have hne : a ≠ t[i] := by
        intro e; exact nd.1 (e ▸ List.getElem_mem hi')
      have : (a == (a :: t)[i + 1]) = false := by simpa using hne
      rw [List.findIdx?_cons, this]
      simp only [List.getElem_cons_succ]
      rw [ih nd.2 i hi']
      simp

/-- a block that stored `keys[i]` in the dispatcher variable is followed by target `i` -/
theorem dispatch_hits (keys : List Nat) (nd : keys.Nodup) (i : Nat) (hi : i < keys.length) :
    dispatch keys keys[i] = some i := by
  unfold dispatch
  rw [findIdx?_nodup keys nd i hi]

/-- on function entry the dispatcher variable is 0 and the chain falls through to the real entry block -/
theorem dispatch_entry (keys : List Nat) (h0 : 0 ∉ keys) : dispatch keys 0 = none := by
  unfold dispatch
  have : keys.findIdx? (· == 0) = none := by
    rw [List.findIdx?_eq_none_iff]
    intro x hx
    have : x ≠ 0 := fun e => h0 (e ▸ hx)
    simpa using this
  rw [this]

/-! ### key generation -/

theorem generateKeys_inv (count : Nat) (black draws acc : List Nat) (res : List Nat)
    (hacc : acc.Nodup ∧ 0 ∉ acc ∧ ∀ x ∈ acc, x ∉ black)
    (h : generateKeys count black draws acc = some res) :
    res.Nodup ∧ 0 ∉ res ∧ (∀ x ∈ res, x ∉ black) ∧ res.length = acc.length + count := by
  fun_induction generateKeys count black draws acc with
  | case1 black draws acc =>
    simp only [Option.some.injEq] at h
    subst h
    refine ⟨(List.reverse_perm acc).nodup_iff.mpr hacc.1, by simpa using hacc.2.1, ?_, by simp⟩
    intro x hx; exact hacc.2.2 x (List.mem_reverse.mp hx)
  | case2 c black acc => simp at h
  | case3 c black d ds acc hskip ih => exact ih hacc h
  | case4 c black d ds acc hkeep ih =>
    simp only [Bool.or_eq_true, beq_iff_eq, List.contains_eq_mem, decide_eq_true_eq, not_or] at hkeep
    have hacc' : (d :: acc).Nodup ∧ 0 ∉ (d :: acc) ∧ ∀ x ∈ d :: acc, x ∉ black := by
      refine ⟨List.nodup_cons.mpr ⟨hkeep.2, hacc.1⟩, ?_, ?_⟩
      · simp only [List.mem_cons, not_or]
        exact ⟨fun e => hkeep.1.1 e.symm, hacc.2.1⟩
      · intro x hx
        rcases List.mem_cons.mp hx with e | e
        · subst e; exact hkeep.1.2
        · exact hacc.2.2 x e
    have := ih hacc' h
    refine ⟨this.1, this.2.1, this.2.2.1, ?_⟩
    have hl := this.2.2.2
    simp only [List.length_cons] at hl
    omega

/-- for EVERY random stream: the keys are pairwise distinct, non-zero, not blacklisted, and there are `count` of them -/
theorem generateKeys_ok (count : Nat) (black draws : List Nat) (res : List Nat)
    (h : generateKeys count black draws [] = some res) :
    res.Nodup ∧ 0 ∉ res ∧ (∀ x ∈ res, x ∉ black) ∧ res.length = count := by
  have := generateKeys_inv count black draws [] res ⟨List.nodup_nil, by simp, by simp⟩ h
  simpa using this

/-! ### hardening -/

theorem xor_cancel (a b : Nat) : (a ^^^ b) ^^^ b = a := by
  rw [Nat.xor_assoc, Nat.xor_self, Nat.xor_zero]

/-- xor hardening: the emitted store expression evaluates to the emitted compare literal -/
theorem xor_store_eq_compare (h : XorH) (i : Nat) : h.store i = h.compare i := by
  unfold XorH.store XorH.compare XorH.globalKey
  exact Nat.xor_comm _ _

theorem xor_left_inj (g a b : Nat) (e : a ^^^ g = b ^^^ g) : a = b := by
  have := congrArg (· ^^^ g) e
  simpa [xor_cancel] using this

/-- ... the compare literals are non-zero (so the initial 0 still reaches the real entry) because the global key is
blacklisted, and pairwise distinct because the keys are -/
theorem xor_compare_ok (h : XorH) (nd : h.ks.Nodup) (hb : h.globalKey ∉ h.ks) (i j : Nat) (hi : i < h.ks.length) (hj : j < h.ks.length) :
    h.compare i ≠ 0 ∧ (h.compare i = h.compare j → i = j) := by
  unfold XorH.compare
  rw [getElem!_pos h.ks i hi, getElem!_pos h.ks j hj]
  constructor
  · intro e
    have : h.ks[i] = h.globalKey := by
      have := congrArg (· ^^^ h.globalKey) e
      simpa [xor_cancel, Nat.zero_xor] using this
    exact hb (this ▸ List.getElem_mem hi)
  · intro e
    have := xor_left_inj _ _ _ e
    exact (List.getElem_inj nd).mp this

/-- delegate-table hardening: the delegate call decrypts to the compare literal, whatever key bytes, indexes and
local keys were drawn -/
theorem delegate_store_eq_compare (h : DelegateH) (i : Nat) : h.store i = h.compare i := by
  unfold DelegateH.store DelegateH.encrypted DelegateH.compare
  exact xor_cancel _ _

theorem delegate_compare_ok (h : DelegateH) (nd : h.ks.Nodup) (h0 : 0 ∉ h.ks) (i j : Nat) (hi : i < h.ks.length) (hj : j < h.ks.length) :
    h.compare i ≠ 0 ∧ (h.compare i = h.compare j → i = j) := by
  unfold DelegateH.compare
  rw [getElem!_pos h.ks i hi, getElem!_pos h.ks j hj]
  exact ⟨fun e => h0 (e ▸ List.getElem_mem hi), fun e => (List.getElem_inj nd).mp e⟩

/-! ### phi lowering -/

theorem foldl_set_not_mem (vals : List (Var × Int)) (env : Env) (w : Var) (h : ∀ p ∈ vals, p.1 ≠ w) :
    (vals.foldl (fun e p => e.set p.1 p.2) env) w = env w := by
  induction vals generalizing env with
  | nil => rfl
  | cons p t ih =>
    simp only [List.foldl_cons]
    rw [ih _ (fun q hq => h q (List.mem_cons_of_mem _ hq))]
    have : p.1 ≠ w := h p (List.mem_cons_self ..)
    simp [Env.set, Ne.symm this]

theorem foldl_set_nodup (vals : List (Var × Int)) (nd : (vals.map (·.1)).Nodup) (env : Env) (w : Var) :
    (vals.foldl (fun e p => e.set p.1 p.2) env) w = match vals.find? (·.1 == w) with
      | some p => p.2
      | none => env w := by
  induction vals generalizing env with
  | nil => rfl
  | cons p t ih =>
    simp only [List.map_cons, List.nodup_cons, List.mem_map] at nd
    simp only [List.foldl_cons, List.find?_cons]
    by_cases hp : p.1 = w
    · have : (p.1 == w) = true := by simpa using hp
      simp only [this]
      rw [foldl_set_not_mem]
      · simp [Env.set, hp]
      · intro q hq e
        exact nd.1 ⟨q, hq, by rw [e, hp]⟩
    · have : (p.1 == w) = false := by simpa using hp
      simp only [this]
      rw [ih nd.2]
      cases t.find? (·.1 == w) with
      | some q => rfl
      | none => simp [Env.set, Ne.symm hp]

/-- **the lowering used since the fix**: one tuple assignment per predecessor block is exactly the SSA semantics of
the phi nodes, for every set of phi nodes (distinct targets), every operand and every environment -/
theorem tuple_is_parallel (ps : List (Var × Operand)) (nd : (ps.map (·.1)).Nodup) (env : Env) :
    tupleAssign ps env = phiParallel ps env := by
  funext w
  unfold tupleAssign phiParallel
  rw [foldl_set_nodup]
  · rw [List.find?_map]
    cases h : ps.find? ((fun p => p.1 == w) ∘ fun p => (p.1, p.2.eval env)) with
    | none =>
      have : ps.find? (·.1 == w) = none := by simpa [Function.comp_def] using h
      simp [this]
    | some p =>
      have : ps.find? (·.1 == w) = some p := by simpa [Function.comp_def] using h
      simp [this]
  · simpa [List.map_map, Function.comp_def] using nd

/-- the sequential lowering is wrong: `a, b = b, a` (phi nodes of a loop header that swap two variables) -/
theorem sequential_is_wrong : ∃ (ps : List (Var × Operand)) (env : Env),
    (ps.map (·.1)).Nodup ∧ phiSequential ps env ≠ phiParallel ps env := by
  refine ⟨[(0, .var 1), (1, .var 0)], (fun v => if v = 0 then 1 else 2), by decide, ?_⟩
  intro e
  have := congrFun e 1
  simp [phiSequential, phiParallel, Env.set, Operand.eval] at this

/-- the sequential lowering is right when no later phi reads an earlier phi's target -/
theorem sequential_ok_partial (ps : List (Var × Operand)) (nd : (ps.map (·.1)).Nodup) (env : Env)
    (indep : ∀ p ∈ ps, ∀ q ∈ ps, q.2 ≠ .var p.1) :
    phiSequential ps env = phiParallel ps env := by
  rw [← tuple_is_parallel ps nd]
  unfold phiSequential tupleAssign
  simp only []
  -- evaluating in the running environment equals evaluating in the initial one
  have key : ∀ (l : List (Var × Operand)) (e : Env), (∀ q ∈ l, q.2.eval e = q.2.eval env) →
      (∀ p ∈ l, ∀ q ∈ l, q.2 ≠ .var p.1) →
      l.foldl (fun e p => e.set p.1 (p.2.eval e)) e = (l.map fun p => (p.1, p.2.eval env)).foldl (fun e p => e.set p.1 p.2) e := by
    intro l
    induction l with
    | nil => intro e _ _; rfl
    | cons p t ih =>
      intro e he hind
      simp only [List.foldl_cons, List.map_cons]
      rw [he p (List.mem_cons_self ..)]
      apply ih
      · intro q hq
        rw [← he q (List.mem_cons_of_mem _ hq)]
        cases hq2 : q.2 with
        | const c => rfl
        | var v =>
          have : v ≠ p.1 := by
            intro ev
            exact hind p (List.mem_cons_self ..) q (List.mem_cons_of_mem _ hq) (by rw [hq2, ev])
          simp [Operand.eval, Env.set, this]
      · intro a ha b hb
        exact hind a (List.mem_cons_of_mem _ ha) b (List.mem_cons_of_mem _ hb)
  exact key ps env (fun _ _ => rfl) indep

/-! ### edge insertion (junk jumps, trash dispatch blocks) -/

variable {σ : Type}

theorem steps_trans {P : Prog σ} {a b c : Nat} {s t u : σ} (h1 : Steps P a s b t) (h2 : Steps P b t c u) : Steps P a s c u := by
  induction h1 with
  | refl => exact h2
  | step hn _ ih => exact .step hn (ih h2)

theorem ie_exec_ne (P : Prog σ) (b tgt j n : Nat) (s : σ) (hn : n ≠ j) : (insertEdge P b tgt j).exec n s = P.exec n s := by
  simp [insertEdge, hn]
theorem ie_exec_j (P : Prog σ) (b tgt j : Nat) (s : σ) : (insertEdge P b tgt j).exec j s = s := by
  simp [insertEdge]
theorem ie_next_j (P : Prog σ) (b tgt j : Nat) (s : σ) : (insertEdge P b tgt j).next j s = some tgt := by
  simp [insertEdge]
theorem ie_next_other (P : Prog σ) (b tgt j n : Nat) (s : σ) (hn : n ≠ j) (hnb : n ≠ b) :
    (insertEdge P b tgt j).next n s = P.next n s := by
  simp [insertEdge, hn, hnb]
theorem ie_next_b_hit (P : Prog σ) (b tgt j : Nat) (s : σ) (hb : b ≠ j) (h : P.next b s = some tgt) :
    (insertEdge P b tgt j).next b s = some j := by
  simp [insertEdge, hb, h]
theorem ie_next_b_miss (P : Prog σ) (b tgt j m : Nat) (s : σ) (hb : b ≠ j) (h : P.next b s = some m) (hm : m ≠ tgt) :
    (insertEdge P b tgt j).next b s = some m := by
  simp [insertEdge, hb, h, hm]
theorem ie_next_b_none (P : Prog σ) (b tgt j : Nat) (s : σ) (hb : b ≠ j) (h : P.next b s = none) :
    (insertEdge P b tgt j).next b s = none := by
  simp [insertEdge, hb, h]

/-- every execution of the original function between two of its blocks is an execution of the transformed one -/
theorem insertEdge_forward (P : Prog σ) (b tgt j : Nat) (hb : b ≠ j)
    (n k : Nat) (s t : σ) (fresh : ∀ m u, P.next m u ≠ some j) (hn : n ≠ j)
    (h : Steps P n s k t) : Steps (insertEdge P b tgt j) n s k t := by
  induction h with
  | refl => exact .refl _ _
  | @step n m k s t hnext _ ih =>
    have hm : m ≠ j := fun e => fresh n _ (e ▸ hnext)
    have ex := ie_exec_ne P b tgt j n s hn
    by_cases hnb : n = b
    · subst hnb
      by_cases hmt : m = tgt
      · subst hmt
        -- the redirected edge: n -> j -> m
        have n1 : (insertEdge P n m j).next n ((insertEdge P n m j).exec n s) = some j := by
          rw [ex]; exact ie_next_b_hit P n m j _ hb hnext
        refine .step n1 ?_
        rw [ex]
        have n2 : (insertEdge P n m j).next j ((insertEdge P n m j).exec j (P.exec n s)) = some m := ie_next_j P n m j _
        refine .step n2 ?_
        rw [ie_exec_j]
        exact ih hm
      · have n1 : (insertEdge P n tgt j).next n ((insertEdge P n tgt j).exec n s) = some m := by
          rw [ex]; exact ie_next_b_miss P n tgt j m _ hb hnext hmt
        refine .step n1 ?_
        rw [ex]; exact ih hm
    · have n1 : (insertEdge P b tgt j).next n ((insertEdge P b tgt j).exec n s) = some m := by
        rw [ex, ie_next_other P b tgt j n _ hn hnb]; exact hnext
      refine .step n1 ?_
      rw [ex]; exact ih hm

/-- ... and conversely: the transformed function has no other executions between original blocks -/
theorem insertEdge_backward (P : Prog σ) (b tgt j : Nat) (hb : b ≠ j) (ht : tgt ≠ j)
    (fresh : ∀ m u, P.next m u ≠ some j)
    (n k : Nat) (s t : σ) (hk : k ≠ j)
    (h : Steps (insertEdge P b tgt j) n s k t) :
    (n ≠ j → Steps P n s k t) ∧ (n = j → Steps P tgt s k t) := by
  induction h with
  | refl n s => exact ⟨fun _ => .refl _ _, fun e => absurd e hk⟩
  | @step n m k s t hnext _ ih =>
    have ih2 := ih hk
    constructor
    · intro hn
      have ex := ie_exec_ne P b tgt j n s hn
      rw [ex] at hnext ih2
      by_cases hnb : n = b
      · subst hnb
        cases hp : P.next n (P.exec n s) with
        | none =>
          rw [ie_next_b_none P n tgt j _ hb hp] at hnext
          cases hnext
        | some m0 =>
          by_cases hmt : m0 = tgt
          · subst hmt
            rw [ie_next_b_hit P n m0 j _ hb hp] at hnext
            have : m = j := by cases hnext; rfl
            exact .step hp (ih2.2 this)
          · rw [ie_next_b_miss P n tgt j m0 _ hb hp hmt] at hnext
            have hmm : m = m0 := by cases hnext; rfl
            subst hmm
            have hm : m ≠ j := fun e => fresh n _ (e ▸ hp)
            exact .step hp (ih2.1 hm)
      · rw [ie_next_other P b tgt j n _ hn hnb] at hnext
        have hm : m ≠ j := fun e => fresh n _ (e ▸ hnext)
        exact .step hnext (ih2.1 hm)
    · intro hn
      subst hn
      rw [ie_exec_j] at hnext ih2
      rw [ie_next_j] at hnext
      have hmt : m = tgt := by cases hnext; rfl
      subst hmt
      exact ih2.1 ht

/-- non-vacuity: a two-block loop with a junk jump inserted on its back edge still runs its three iterations -/
example : ∃ t, Steps (insertEdge (σ := Nat) ⟨fun n s => if n = 0 then s + 1 else s, fun n s => if n = 0 then (if s < 3 then some 0 else some 1) else none⟩ 0 0 7) 0 0 1 t := by
  refine ⟨3, ?_⟩
  have fwd := insertEdge_forward (σ := Nat) ⟨fun n s => if n = 0 then s + 1 else s, fun n s => if n = 0 then (if s < 3 then some 0 else some 1) else none⟩ 0 0 7 (by decide) 0 1 0 3
    (by intro m u; simp only []; split <;> (try split) <;> simp) (by decide)
  apply fwd
  exact .step (m := 0) (by decide) (.step (m := 0) (by decide) (.step (m := 1) (by decide) (.refl _ _)))



/-! ### the dispatcher as control flow

`applyFlattening` builds: for every redirected edge `i` a jump block `F i` whose phi edge stores `keys[i]` in the
dispatcher variable, the dispatcher entry `D`, and a chain of blocks `C i` (`if v == keys[i] goto target i else goto C (i+1)`,
the last one falling through to the real entry block).  Nodes: `D = base`, `C i = base + 1 + i`, `F i = base + 1 + n + i`.
The state is the function's own state paired with the dispatcher variable. -/

structure Dispatcher where
  base : Nat
  keys : List Nat
  targets : List Nat
  realEntry : Nat

def Dispatcher.n (d : Dispatcher) : Nat := d.keys.length
def Dispatcher.D (d : Dispatcher) : Nat := d.base
def Dispatcher.C (d : Dispatcher) (i : Nat) : Nat := d.base + 1 + i
def Dispatcher.F (d : Dispatcher) (i : Nat) : Nat := d.base + 1 + d.n + i

/-- the dispatcher blocks as a program over (σ × dispatcher variable); `orig` gives the behaviour of every other node -/
def Dispatcher.prog {σ : Type} (d : Dispatcher) (orig : Prog (σ × Nat)) : Prog (σ × Nat) where
  exec k s :=
    if d.F 0 ≤ k ∧ k < d.F d.n then (s.1, d.keys.getD (k - d.F 0) 0)       -- jump block: the phi edge stores the key
    else if d.D ≤ k ∧ k < d.F 0 then s                                     -- entry and chain blocks compute nothing
    else orig.exec k s
  next k s :=
    if d.F 0 ≤ k ∧ k < d.F d.n then some d.D
    else if k = d.D then some (if d.n = 0 then d.realEntry else d.C 0)
    else if d.C 0 ≤ k ∧ k < d.C d.n then
      let i := k - d.C 0
      if s.2 = d.keys.getD i 0 then some (d.targets.getD i 0)
      else if i + 1 < d.n then some (d.C (i + 1)) else some d.realEntry
    else orig.next k s

variable {σ : Type}

/-- from chain block `C j` with the dispatcher variable holding `keys[i]`, `j ≤ i`: control reaches target `i` without
touching the function's state -/
theorem chain_reaches (d : Dispatcher) (orig : Prog (σ × Nat)) (nd : d.keys.Nodup) (i : Nat) (hi : i < d.n) (s : σ) :
    ∀ (m j : Nat), j + m = i → Steps (d.prog orig) (d.C j) (s, d.keys.getD i 0) (d.targets.getD i 0) (s, d.keys.getD i 0) := by
  intro m
  induction m with
  | zero =>
    intro j hj
    have hji : j = i := by omega
    subst hji
    have hC : d.C 0 ≤ d.C j ∧ d.C j < d.C d.n := by unfold Dispatcher.C; omega
    have hnF : ¬ (d.F 0 ≤ d.C j ∧ d.C j < d.F d.n) := by unfold Dispatcher.F Dispatcher.C; omega
    have hnD : d.C j ≠ d.D := by unfold Dispatcher.C Dispatcher.D; omega
    have hD2 : d.D ≤ d.C j ∧ d.C j < d.F 0 := by unfold Dispatcher.C Dispatcher.D Dispatcher.F; omega
    have hsub : d.C j - d.C 0 = j := by unfold Dispatcher.C; omega
    have ex : (d.prog orig).exec (d.C j) (s, d.keys.getD j 0) = (s, d.keys.getD j 0) := by
      simp [Dispatcher.prog, hnF, hD2]
    refine .step (m := d.targets.getD j 0) ?_ ?_
    · rw [ex]; simp [Dispatcher.prog, hnF, hnD, hC, hsub]
    · rw [ex]; exact .refl _ _
  | succ m ih =>
    intro j hj
    have hjn : j < d.n := by omega
    have hC : d.C 0 ≤ d.C j ∧ d.C j < d.C d.n := by unfold Dispatcher.C; omega
    have hnF : ¬ (d.F 0 ≤ d.C j ∧ d.C j < d.F d.n) := by unfold Dispatcher.F Dispatcher.C; omega
    have hnD : d.C j ≠ d.D := by unfold Dispatcher.C Dispatcher.D; omega
    have hD2 : d.D ≤ d.C j ∧ d.C j < d.F 0 := by unfold Dispatcher.C Dispatcher.D Dispatcher.F; omega
    have hsub : d.C j - d.C 0 = j := by unfold Dispatcher.C; omega
    have ex : (d.prog orig).exec (d.C j) (s, d.keys.getD i 0) = (s, d.keys.getD i 0) := by
      simp [Dispatcher.prog, hnF, hD2]
    have hne : d.keys.getD i 0 ≠ d.keys.getD j 0 := by
      unfold Dispatcher.n at hi hjn
      simp only [List.getD_eq_getElem?_getD, List.getElem?_eq_getElem hi, List.getElem?_eq_getElem hjn, Option.getD_some]
      intro e
      have := (List.getElem_inj nd).mp e
      omega
    have hlt : j + 1 < d.n := by omega
    have hne' : ¬ d.keys[i]?.getD 0 = d.keys[j]?.getD 0 := by simpa [List.getD_eq_getElem?_getD] using hne
    refine .step (m := d.C (j + 1)) ?_ ?_
    · rw [ex]; simp [Dispatcher.prog, hnF, hnD, hC, hsub, hne', hlt]
    · rw [ex]; exact ih (j + 1) (by omega)

/-- **a redirected edge still arrives**: from the jump block of edge `i`, through the dispatcher, control reaches the
block the edge pointed to, with the function's own state untouched -/
theorem dispatcher_routes (d : Dispatcher) (orig : Prog (σ × Nat)) (nd : d.keys.Nodup) (i : Nat) (hi : i < d.n) (s : σ) (v : Nat) :
    Steps (d.prog orig) (d.F i) (s, v) (d.targets.getD i 0) (s, d.keys.getD i 0) := by
  have hF : d.F 0 ≤ d.F i ∧ d.F i < d.F d.n := by unfold Dispatcher.F; omega
  have hsub : d.F i - d.F 0 = i := by unfold Dispatcher.F; omega
  have ex : (d.prog orig).exec (d.F i) (s, v) = (s, d.keys.getD i 0) := by simp [Dispatcher.prog, hF, hsub]
  refine .step (m := d.D) ?_ ?_
  · rw [ex]; simp [Dispatcher.prog, hF]
  · rw [ex]
    have hnF : ¬ (d.F 0 ≤ d.D ∧ d.D < d.F d.n) := by unfold Dispatcher.F Dispatcher.D; omega
    have hD2 : d.D ≤ d.D ∧ d.D < d.F 0 := by unfold Dispatcher.D Dispatcher.F; omega
    have exD : (d.prog orig).exec d.D (s, d.keys.getD i 0) = (s, d.keys.getD i 0) := by simp [Dispatcher.prog, hnF, hD2]
    have hn0 : d.n ≠ 0 := by omega
    refine .step (m := d.C 0) ?_ ?_
    · rw [exD]; simp [Dispatcher.prog, hnF, hn0]
    · rw [exD]; exact chain_reaches d orig nd i hi s i 0 (by omega)

/-- **function entry**: the dispatcher variable starts as 0, no key is 0, so the chain falls through to the real entry -/
theorem chain_falls_through (d : Dispatcher) (orig : Prog (σ × Nat)) (h0 : 0 ∉ d.keys) (s : σ) :
    ∀ (m j : Nat), j + m + 1 = d.n → Steps (d.prog orig) (d.C j) (s, 0) d.realEntry (s, 0) := by
  intro m
  induction m with
  | zero =>
    intro j hj
    have hjn : j < d.n := by omega
    have hC : d.C 0 ≤ d.C j ∧ d.C j < d.C d.n := by unfold Dispatcher.C; omega
    have hnF : ¬ (d.F 0 ≤ d.C j ∧ d.C j < d.F d.n) := by unfold Dispatcher.F Dispatcher.C; omega
    have hnD : d.C j ≠ d.D := by unfold Dispatcher.C Dispatcher.D; omega
    have hD2 : d.D ≤ d.C j ∧ d.C j < d.F 0 := by unfold Dispatcher.C Dispatcher.D Dispatcher.F; omega
    have hsub : d.C j - d.C 0 = j := by unfold Dispatcher.C; omega
    have ex : (d.prog orig).exec (d.C j) (s, 0) = (s, 0) := by simp [Dispatcher.prog, hnF, hD2]
    have hne : (0 : Nat) ≠ d.keys.getD j 0 := by
      unfold Dispatcher.n at hjn
      simp only [List.getD_eq_getElem?_getD, List.getElem?_eq_getElem hjn, Option.getD_some]
      intro e; exact h0 (e ▸ List.getElem_mem hjn)
    have hlast : ¬ (j + 1 < d.n) := by omega
    have hne' : ¬ 0 = d.keys[j]?.getD 0 := by simpa [List.getD_eq_getElem?_getD] using hne
    refine .step (m := d.realEntry) ?_ ?_
    · rw [ex]; simp [Dispatcher.prog, hnF, hnD, hC, hsub, hne', hlast]
    · rw [ex]; exact .refl _ _
  | succ m ih =>
    intro j hj
    have hjn : j < d.n := by omega
    have hC : d.C 0 ≤ d.C j ∧ d.C j < d.C d.n := by unfold Dispatcher.C; omega
    have hnF : ¬ (d.F 0 ≤ d.C j ∧ d.C j < d.F d.n) := by unfold Dispatcher.F Dispatcher.C; omega
    have hnD : d.C j ≠ d.D := by unfold Dispatcher.C Dispatcher.D; omega
    have hD2 : d.D ≤ d.C j ∧ d.C j < d.F 0 := by unfold Dispatcher.C Dispatcher.D Dispatcher.F; omega
    have hsub : d.C j - d.C 0 = j := by unfold Dispatcher.C; omega
    have ex : (d.prog orig).exec (d.C j) (s, 0) = (s, 0) := by simp [Dispatcher.prog, hnF, hD2]
    have hne : (0 : Nat) ≠ d.keys.getD j 0 := by
      unfold Dispatcher.n at hjn
      simp only [List.getD_eq_getElem?_getD, List.getElem?_eq_getElem hjn, Option.getD_some]
      intro e; exact h0 (e ▸ List.getElem_mem hjn)
    have hlt : j + 1 < d.n := by omega
    have hne' : ¬ 0 = d.keys[j]?.getD 0 := by simpa [List.getD_eq_getElem?_getD] using hne
    refine .step (m := d.C (j + 1)) ?_ ?_
    · rw [ex]; simp [Dispatcher.prog, hnF, hnD, hC, hsub, hne', hlt]
    · rw [ex]; exact ih (j + 1) (by omega)

theorem dispatcher_entry (d : Dispatcher) (orig : Prog (σ × Nat)) (h0 : 0 ∉ d.keys) (s : σ) :
    Steps (d.prog orig) d.D (s, 0) d.realEntry (s, 0) := by
  have hnF : ¬ (d.F 0 ≤ d.D ∧ d.D < d.F d.n) := by unfold Dispatcher.F Dispatcher.D; omega
  have hD2 : d.D ≤ d.D ∧ d.D < d.F 0 := by unfold Dispatcher.D Dispatcher.F; omega
  have exD : (d.prog orig).exec d.D (s, 0) = (s, 0) := by simp [Dispatcher.prog, hnF, hD2]
  have hnF0 : ¬ d.F 0 ≤ d.D := by unfold Dispatcher.F Dispatcher.D; omega
  by_cases hn : d.n = 0
  · refine .step (m := d.realEntry) ?_ ?_
    · rw [exD]; simp [Dispatcher.prog, hnF0, hn]
    · rw [exD]; exact .refl _ _
  · refine .step (m := d.C 0) ?_ ?_
    · rw [exD]; simp [Dispatcher.prog, hnF, hn]
    · rw [exD]; exact chain_falls_through d orig h0 s (d.n - 1) 0 (by omega)

/-- with the keys `applyFlattening` assigns (a permutation plus one) both hold -/
theorem flatten_dispatcher_ok (base realEntry : Nat) (perm targets : List Nat) (hp : perm.Nodup) (orig : Prog (σ × Nat)) (s : σ) :
    let d : Dispatcher := { base := base, keys := flattenKeys perm, targets := targets, realEntry := realEntry }
    Steps (d.prog orig) d.D (s, 0) realEntry (s, 0) ∧
    ∀ i (_ : i < d.n) (v : Nat), Steps (d.prog orig) (d.F i) (s, v) (targets.getD i 0) (s, (flattenKeys perm).getD i 0) := by
  intro d
  have h := flatten_keys_ok perm hp
  exact ⟨dispatcher_entry d orig h.2 s, fun i hi v => dispatcher_routes d orig h.1 i hi s v⟩




/-- index of the redirected edge (n, m), if `applyFlattening` redirected it -/
def edgeIdx (edges : List (Nat × Nat)) (n m : Nat) : Option Nat :=
  match edges.findIdx? (· == (n, m)) with
  | some i => some i
  | none => none

/-- the original function lifted to states that carry the dispatcher variable, with the redirected edges pointing at
their jump blocks -/
def redirected (P : Prog σ) (d : Dispatcher) (edges : List (Nat × Nat)) : Prog (σ × Nat) where
  exec n s := (P.exec n s.1, s.2)
  next n s := match P.next n s.1 with
    | none => none
    | some m => match edgeIdx edges n m with
      | some i => some (d.F i)
      | none => some m

/-- one flattening pass over the abstract CFG -/
def flatten (P : Prog σ) (d : Dispatcher) (edges : List (Nat × Nat)) : Prog (σ × Nat) := d.prog (redirected P d edges)

theorem edgeIdx_spec (edges : List (Nat × Nat)) (n m i : Nat) (h : edgeIdx edges n m = some i) :
    i < edges.length ∧ edges.getD i (0, 0) = (n, m) := by
  unfold edgeIdx at h
  cases hf : edges.findIdx? (· == (n, m)) with
  | none => rw [hf] at h; cases h
  | some j =>
    rw [hf] at h
    cases h
    have := List.findIdx?_eq_some_iff_getElem.mp hf
    obtain ⟨hj, hp, _⟩ := this
    refine ⟨hj, ?_⟩
    simp only [List.getD_eq_getElem?_getD, List.getElem?_eq_getElem hj, Option.getD_some]
    simpa using hp

/-- **one flattening pass preserves every execution of the original function**: if the original goes from block `n`
(state `s`) to block `k` (state `t`), the flattened function goes from `n` to `k` with the same function state, whatever
the dispatcher variable holds - for any CFG, any set of redirected edges, any distinct keys -/
theorem flatten_forward (P : Prog σ) (d : Dispatcher) (edges : List (Nat × Nat))
    (nd : d.keys.Nodup) (hlen : edges.length = d.n)
    (htgt : ∀ i, i < d.n → d.targets.getD i 0 = (edges.getD i (0, 0)).2)
    (hclosed : ∀ n s m, n < d.base → P.next n s = some m → m < d.base)
    (n k : Nat) (s t : σ) (hn : n < d.base) (h : Steps P n s k t) :
    ∀ v, ∃ v', Steps (flatten P d edges) n (s, v) k (t, v') := by
  induction h with
  | refl n s => intro v; exact ⟨v, .refl _ _⟩
  | @step n m k s t hnext _ ih =>
    intro v
    have hm : m < d.base := hclosed n _ m hn hnext
    have hnF : ¬ (d.F 0 ≤ n ∧ n < d.F d.n) := by unfold Dispatcher.F; omega
    have hnD : ¬ (d.D ≤ n ∧ n < d.F 0) := by unfold Dispatcher.D; omega
    have hnD' : n ≠ d.D := by unfold Dispatcher.D; omega
    have hnC : ¬ (d.C 0 ≤ n ∧ n < d.C d.n) := by unfold Dispatcher.C; omega
    have ex : (flatten P d edges).exec n (s, v) = (P.exec n s, v) := by
      simp [flatten, Dispatcher.prog, redirected, hnF, hnD]
    cases he : edgeIdx edges n m with
    | none =>
      have nx : (flatten P d edges).next n ((flatten P d edges).exec n (s, v)) = some m := by
        rw [ex]; simp [flatten, Dispatcher.prog, redirected, hnF, hnD', hnC, hnext, he]
      obtain ⟨v', hv'⟩ := ih hm v
      exact ⟨v', .step nx (by rw [ex]; exact hv')⟩
    | some i =>
      obtain ⟨hi, hedge⟩ := edgeIdx_spec edges n m i he
      have hi' : i < d.n := by omega
      have nx : (flatten P d edges).next n ((flatten P d edges).exec n (s, v)) = some (d.F i) := by
        rw [ex]; simp [flatten, Dispatcher.prog, redirected, hnF, hnD', hnC, hnext, he]
      have route := dispatcher_routes d (redirected P d edges) nd i hi' (P.exec n s) v
      have htm : d.targets.getD i 0 = m := by rw [htgt i hi', hedge]
      rw [htm] at route
      obtain ⟨v', hv'⟩ := ih hm (d.keys.getD i 0)
      refine ⟨v', .step nx ?_⟩
      rw [ex]
      exact steps_trans route hv'

/-- and the function is entered through the dispatcher: with the variable at its zero value the real entry block is
reached with the function state untouched -/
theorem flatten_entry (P : Prog σ) (d : Dispatcher) (edges : List (Nat × Nat)) (h0 : 0 ∉ d.keys) (s : σ) :
    Steps (flatten P d edges) d.D (s, 0) d.realEntry (s, 0) :=
  dispatcher_entry d (redirected P d edges) h0 s

/-- the function returns from block `k` in state `t` -/
def Returns (P : Prog σ) (n : Nat) (s : σ) (t : σ) : Prop :=
  ∃ k u, Steps P n s k u ∧ P.next k (P.exec k u) = none ∧ t = P.exec k u

/-- **results are preserved**: whenever the original function, entered at its real entry block, returns in state `t`,
so does the flattened one, entered through the dispatcher -/
theorem flatten_returns (P : Prog σ) (d : Dispatcher) (edges : List (Nat × Nat))
    (nd : d.keys.Nodup) (h0 : 0 ∉ d.keys) (hlen : edges.length = d.n)
    (htgt : ∀ i, i < d.n → d.targets.getD i 0 = (edges.getD i (0, 0)).2)
    (hclosed : ∀ n s m, n < d.base → P.next n s = some m → m < d.base)
    (hentry : d.realEntry < d.base) (s t : σ) (h : Returns P d.realEntry s t) :
    ∃ v, Returns (flatten P d edges) d.D (s, 0) (t, v) := by
  obtain ⟨k, u, hsteps, hnone, ht⟩ := h
  obtain ⟨v', hv'⟩ := flatten_forward P d edges nd hlen htgt hclosed d.realEntry k s u hentry hsteps 0
  have hk : k < d.base := by
    -- every block on the way is an original block
    have : ∀ n s k u, Steps P n s k u → n < d.base → k < d.base := by
      intro n s k u hs
      induction hs with
      | refl => intro h; exact h
      | step hn _ ih => intro h; exact ih (hclosed _ _ _ h hn)
    exact this _ _ _ _ hsteps hentry
  have hnF : ¬ (d.F 0 ≤ k ∧ k < d.F d.n) := by unfold Dispatcher.F; omega
  have hnD : ¬ (d.D ≤ k ∧ k < d.F 0) := by unfold Dispatcher.D; omega
  have hnD' : k ≠ d.D := by unfold Dispatcher.D; omega
  have hnC : ¬ (d.C 0 ≤ k ∧ k < d.C d.n) := by unfold Dispatcher.C; omega
  have ex : (flatten P d edges).exec k (u, v') = (P.exec k u, v') := by
    simp [flatten, Dispatcher.prog, redirected, hnF, hnD]
  refine ⟨v', k, (u, v'), steps_trans (flatten_entry P d edges h0 s) hv', ?_, ?_⟩
  · rw [ex]; simp [flatten, Dispatcher.prog, redirected, hnF, hnD', hnC, hnone]
  · rw [ex, ht]


/-- non-vacuity: a three-block loop (0: entry -> 1; 1: `if s < 3 goto 1 else goto 2`; 2: return) with its three edges
redirected through a dispatcher with keys 2, 3, 1 still returns the state the original returns -/
example : ∃ v, Returns (flatten (σ := Nat)
      ⟨fun n s => if n = 1 then s + 1 else s, fun n s => if n = 0 then some 1 else if n = 1 then (if s < 3 then some 1 else some 2) else none⟩
      { base := 10, keys := [2, 3, 1], targets := [1, 1, 2], realEntry := 0 } [(0, 1), (1, 1), (1, 2)]) 10 (0, 0) (3, v) := by
  apply flatten_returns (σ := Nat) _ _ _ (by decide) (by decide) (by decide)
  · intro i hi
    have : i = 0 ∨ i = 1 ∨ i = 2 := by simp [Dispatcher.n] at hi; omega
    rcases this with h | h | h <;> subst h <;> rfl
  · intro n s m hn
    simp only []
    split
    · intro h; cases h; decide
    · split
      · split <;> (intro h; cases h; decide)
      · intro h; cases h
  · decide
  · exact ⟨2, 3, .step (m := 1) (by decide) (.step (m := 1) (by decide) (.step (m := 1) (by decide) (.step (m := 2) (by decide) (.refl _ _)))), by decide, by decide⟩

end GV.Props.C11
