import GV.Model.Types
import GV.Model.Salt
/-
C15 — Identical struct types get identical field names everywhere.

For ALL struct types (any number of fields, any nesting, any field types including type parameters, aliases and
instantiations): Go-identity (ignoring tags) implies the same struct identity hash, hence the same salt, hence the
same obfuscated name for corresponding fields — in whichever package the struct is declared or used, because the
salt does not mention a package.
-/
namespace GV.Props.C15
open GV.Types

theorem hashFrom_of_skeleton : ∀ (fs fs' : FieldList) (i : Nat) (h : UInt32),
    skeleton fs = skeleton fs' → structHashFrom i fs h = structHashFrom i fs' h
  | .nil, .nil, _, _, _ => rfl
  | .nil, .cons .., _, _, hs => by simp [skeleton] at hs
  | .cons .., .nil, _, _, hs => by simp [skeleton] at hs
  | .cons n e p x g t r, .cons n' e' p' x' g' t' r', i, h, hs => by
    simp only [skeleton, List.cons.injEq, Prod.mk.injEq] at hs
    obtain ⟨⟨hn, he⟩, hr⟩ := hs
    subst hn; subst he
    simp only [structHashFrom]
    exact hashFrom_of_skeleton r r' _ _ hr

/-- the salt is a function of the (name, embedded) sequence only -/
theorem salt_of_skeleton (fs fs' : FieldList) (h : skeleton fs = skeleton fs') : structSalt fs = structSalt fs' :=
  hashFrom_of_skeleton fs fs' 0 9059 h

theorem identical_skeleton (tags : Bool) : ∀ (fs fs' : FieldList),
    identicalFields tags fs fs' = true → skeleton fs = skeleton fs'
  | .nil, .nil, _ => rfl
  | .nil, .cons .., h => by simp [identicalFields] at h
  | .cons .., .nil, h => by simp [identicalFields] at h
  | .cons n e p x g t r, .cons n' e' p' x' g' t' r', h => by
    simp only [identicalFields, Bool.and_eq_true, beq_iff_eq] at h
    obtain ⟨⟨⟨⟨⟨⟨hn, he⟩, _⟩, _⟩, _⟩, _⟩, hr⟩ := h
    simp [skeleton, hn, he, identical_skeleton tags r r' hr]

/-- **identical ⇒ same salt** (alias-free form) -/
theorem identical_same_salt (tags : Bool) (fs fs' : FieldList)
    (h : identical tags (.struct fs) (.struct fs') = true) : structSalt fs = structSalt fs' := by
  simp only [identical] at h
  exact salt_of_skeleton _ _ (identical_skeleton tags fs fs' h)

theorem unalias_skeleton : ∀ fs : FieldList, skeleton (unaliasFields fs) = skeleton fs
  | .nil => rfl
  | .cons n e p x g t r => by simp [unaliasFields, skeleton, unalias_skeleton r]

/-- **identical under Go's relation (aliases transparent, tags ignored) ⇒ same salt**, for any two struct types,
wherever they are declared -/
theorem goIdentical_same_salt (fs fs' : FieldList)
    (h : goIdentical false (.struct fs) (.struct fs') = true) : structSalt fs = structSalt fs' := by
  unfold goIdentical at h
  simp only [unalias] at h
  have := identical_same_salt false _ _ h
  rw [salt_of_skeleton _ _ (unalias_skeleton fs), salt_of_skeleton _ _ (unalias_skeleton fs')] at this
  exact this

theorem subst_skeleton (σ : Nat → Ty) : ∀ fs : FieldList, skeleton (substFields σ fs) = skeleton fs
  | .nil => rfl
  | .cons n e p x g t r => by simp [substFields, skeleton, subst_skeleton σ r]

/-- **instantiation-stable**: instantiating type parameters (any arguments) does not change the salt, so a generic
struct, each of its instantiations, and an anonymous struct returned by a generic function all agree -/
theorem instantiation_same_salt (σ : Nat → Ty) (fs : FieldList) : structSalt (substFields σ fs) = structSalt fs :=
  salt_of_skeleton _ _ (subst_skeleton σ fs)

/-- tags never matter -/
theorem tags_ignored (n : Bytes) (e : Bool) (p : Bytes) (x : Bool) (g g' : Bytes) (t : Ty) (r : FieldList) :
    structSalt (.cons n e p x g t r) = structSalt (.cons n e p x g' t r) := rfl

/-- **field names agree**: the obfuscated name of a field is determined by (garble configuration, struct salt, field
name); identical structs therefore give corresponding fields the same obfuscated name, whichever package asks -/
theorem field_name_agrees (c : GV.Salt.Cfg) (fs fs' : FieldList) (name : Bytes) (cls : GV.NameHash.NameClass)
    (h : goIdentical false (.struct fs) (.struct fs') = true) :
    (GV.Salt.structSaltBytes c (structSalt fs).toNat).bind (fun s => GV.Salt.hashWithCustomSalt c s name cls) =
    (GV.Salt.structSaltBytes c (structSalt fs').toNat).bind (fun s => GV.Salt.hashWithCustomSalt c s name cls) := by
  rw [goIdentical_same_salt fs fs' h]

/-- non-vacuity: two structs declared in different packages with different tags, one behind an alias, are identical -/
example : goIdentical false
    (.struct (.cons [70] false [97] true [1] (.basic 2) (.cons [71] true [97] true [] (.alias [65] (.named [98] [84] .nil)) .nil)))
    (.struct (.cons [70] false [99] true [2] (.basic 2) (.cons [71] true [99] true [] (.named [98] [84] .nil) .nil))) = true := by decide

end GV.Props.C15
