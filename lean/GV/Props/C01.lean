import GV.Model.Naming
/-
C01 — Obfuscated builds behave exactly like regular builds (the naming-consistency part).

A renamed program keeps its behaviour only if every occurrence of an object, in every package and in every kind of
source (Go, assembly, go_asm.h, //go:linkname, -ldflags=-X), is renamed to the SAME new name.  Go-source occurrences
all go through `decideObj`; the theorems below show that each of the four re-implementations of that decision agrees
with it, for every configuration, package and name, under the hypotheses the proofs force (stated explicitly).
Preservation of behaviour under a consistent injective renaming is NOT proved (no Go semantics here): partial, and
sampled by the end-to-end differential runs.
-/
set_option linter.unusedSimpArgs false
set_option linter.unusedVariables false
namespace GV.Props.C01
open GV.Naming GV.Salt GV.NameHash

/-- a package-level function object of package `P` -/
def funcObj (P : Pkg) (name : Bytes) (cls : NameClass) (testSig : Bool) : Obj :=
  { kind := .func, name := name, cls := cls, pkgPath := some P.path, hasRecv := false, testSig := testSig }
def methodObj (P : Pkg) (name : Bytes) (cls : NameClass) : Obj :=
  { kind := .func, name := name, cls := cls, pkgPath := some P.path, hasRecv := true, testSig := false }
def varObj (P : Pkg) (name : Bytes) (cls : NameClass) : Obj :=
  { kind := .var, name := name, cls := cls, pkgPath := some P.path }
def typeObj (P : Pkg) (name : Bytes) (cls : NameClass) : Obj :=
  { kind := .typeName, name := name, cls := cls, pkgPath := some P.path }
def fieldObj (P : Pkg) (name : Bytes) (cls : NameClass) (h : Nat) : Obj :=
  { kind := .field, name := name, cls := cls, pkgPath := some P.path, structHash := some h }

/-- names the Go-source path keeps for functions but the directive/assembly paths do not know about -/
def FuncExempt (name : Bytes) (testSig : Bool) : Prop :=
  name = str "main" ∨ name = str "init" ∨ name = str "TestMain" ∨ (hasPrefix (str "Test") name = true ∧ testSig = true)

/-- **one decision per object**: the result depends on the object and the shared build data only — two occurrences
of the same object (same descriptor) in any two packages whose listings resolve its package alike get one name -/
theorem decide_by_object (env1 env2 : Env) (o : Obj) (hc : env1.cfg = env2.cfg)
    (hl : ∀ p, o.pkgPath = some p → env1.lookup p = env2.lookup p)
    (hi : ∀ p, o.pkgPath = some p → env1.intrinsic p o.name = env2.intrinsic p o.name) :
    decideObj env1 o = decideObj env2 o := by
  unfold decideObj
  cases hp : o.pkgPath with
  | none => rfl
  | some path => simp only [hl path hp, hi path hp, pkgHash, fieldHash, hc]

/-- **an interface method and any method implementing it agree**: methods are `func` objects with a receiver; the
decision looks at name, exportedness and package only (exported: kept; unexported: same package, same salt) -/
theorem method_interface_agree (env : Env) (P : Pkg) (name : Bytes) (cls : NameClass) (o1 o2 : Obj)
    (h1 : o1 = methodObj P name cls) (h2 : o2 = methodObj P name cls) : decideObj env o1 = decideObj env o2 := by
  rw [h1, h2]

theorem exported_method_kept (env : Env) (P : Pkg) (name : Bytes) :
    decideObj env (methodObj P name .exported) = .keep ∨ decideObj env (methodObj P name .exported) = .panic := by
  unfold decideObj methodObj
  simp only
  split
  · left; rfl
  · split
    · right; rfl
    · right; rfl
    · split
      · left; rfl
      · split <;> simp

/-- the decision for a function of an obfuscated, listed package that is not exempt -/
theorem decide_func (env : Env) (P : Pkg) (name : Bytes) (cls : NameClass) (ts : Bool)
    (hl : env.lookup P.path = .found P) (ho : P.toObfuscate = true) (hs : specialKeep P.path name = false)
    (hi : env.intrinsic P.path name = false) (hx : ¬ FuncExempt name ts) :
    decideObj env (funcObj P name cls ts) = pkgHash env P name cls := by
  unfold FuncExempt at hx
  simp only [not_or, not_and] at hx
  obtain ⟨h1, h2, h3, h4⟩ := hx
  unfold decideObj funcObj
  simp [hl, ho, hs, hi, h1, h2, h3]
  intro hp; simp [h4 hp]

theorem decide_var (env : Env) (P : Pkg) (name : Bytes) (cls : NameClass)
    (hl : env.lookup P.path = .found P) (ho : P.toObfuscate = true) (hs : specialKeep P.path name = false) :
    decideObj env (varObj P name cls) = pkgHash env P name cls := by
  unfold decideObj varObj; simp [hl, ho, hs]

theorem decide_type (env : Env) (P : Pkg) (name : Bytes) (cls : NameClass)
    (hl : env.lookup P.path = .found P) (ho : P.toObfuscate = true) (hs : specialKeep P.path name = false) :
    decideObj env (typeObj P name cls) = pkgHash env P name cls := by
  unfold decideObj typeObj; simp [hl, ho, hs]

theorem decide_method_unexported (env : Env) (P : Pkg) (name : Bytes) (cls : NameClass)
    (hl : env.lookup P.path = .found P) (ho : P.toObfuscate = true) (hs : specialKeep P.path name = false)
    (hi : env.intrinsic P.path name = false) (hc : cls ≠ .exported)
    (hm : name ≠ str "main" ∧ name ≠ str "init" ∧ name ≠ str "TestMain") :
    decideObj env (methodObj P name cls) = pkgHash env P name cls := by
  unfold decideObj methodObj
  simp [hl, ho, hs, hi, hc, hm.1, hm.2.1, hm.2.2]

/-- **//go:linkname to a function agrees with the declaration's name**: if the target `pkg.f` resolves to the listed,
obfuscated package `P` and `f` is neither an intrinsic nor one of the names only the Go-source path exempts, the
rewritten directive names exactly `obfImportPath P . (name given to f's declaration)`. -/
theorem linkname_func_agrees (env : Env) (clsOf : Bytes → NameClass) (P : Pkg) (newName f : Bytes) (ts : Bool) (n : Bytes)
    (hdot : newName.contains 46 = true)
    (hsp : isSpecialLinkname newName = false)
    (hres : ∃ t, resolveTarget env (dotSplits newName) = t ∧ t = .resolved P f)
    (hnodot : cutDot f = none)
    (hl : env.lookup P.path = .found P) (ho : P.toObfuscate = true) (hs : specialKeep P.path f = false)
    (hi : env.intrinsic P.path f = false) (hx : ¬ FuncExempt f ts)
    (hd : decideObj env (funcObj P f (clsOf f) ts) = .rename n) :
    linknameTarget env clsOf newName = (obfImportPath env.cfg P).map (fun ip => ip ++ [46] ++ n) := by
  obtain ⟨t, ht, hte⟩ := hres
  rw [decide_func env P f (clsOf f) ts hl ho hs hi hx] at hd
  unfold pkgHash ofOpt at hd
  unfold linknameTarget
  simp only [hdot, hsp, ht, hte, ho, hi, hnodot]
  cases hh : hashWithPackage env.cfg P.path P.gaid f (clsOf f) with
  | none => simp [hh] at hd
  | some x =>
    simp [hh] at hd; subst hd
    cases obfImportPath env.cfg P <;> simp

theorem stripPtrRecv_ptr (T : Bytes) : stripPtrRecv (40 :: 42 :: (T ++ [41])) = some T := by
  unfold stripPtrRecv hasPrefix hasSuffix
  have h1 : ([40, 42] : Bytes).isPrefixOf (40 :: 42 :: (T ++ [41])) = true := by simp [List.isPrefixOf]
  have h2 : ([41] : Bytes).isSuffixOf (T ++ [41]) = true := by
    rw [List.isSuffixOf_iff_suffix]; exact List.suffix_append T [41]
  simp only [h1, List.drop_succ_cons, List.drop_zero, h2, if_true]
  simp

theorem stripPtrRecv_plain (T : Bytes) (h : hasPrefix [40, 42] T = false) : stripPtrRecv T = none := by
  unfold stripPtrRecv; simp [h]

/-- **//go:linkname to a method** `pkg.T.m` / `pkg.(*T).m`: the receiver type and the method name get the names of
their declarations (exported methods stay, unexported ones are hashed with the package).  `recvText` is `T` or `(*T)`. -/
theorem linkname_method_agrees (env : Env) (clsOf : Bytes → NameClass) (P : Pkg) (newName foreign T m nT nM : Bytes) (ptr : Bool)
    (hdot : newName.contains 46 = true) (hsp : isSpecialLinkname newName = false)
    (hres : resolveTarget env (dotSplits newName) = .resolved P foreign)
    (hcut : cutDot foreign = some (if ptr then 40 :: 42 :: (T ++ [41]) else T, m))
    (hT : hasPrefix [40, 42] T = false)
    (hl : env.lookup P.path = .found P) (ho : P.toObfuscate = true)
    (hsT : specialKeep P.path T = false) (hsM : specialKeep P.path m = false)
    (hi : env.intrinsic P.path foreign = false) (hiM : env.intrinsic P.path m = false)
    (hm : m ≠ str "main" ∧ m ≠ str "init" ∧ m ≠ str "TestMain")
    (hdT : decideObj env (typeObj P T (clsOf T)) = .rename nT)
    (hdM : decideObj env (methodObj P m (clsOf m)) = if clsOf m = .exported then .keep else .rename nM) :
    linknameTarget env clsOf newName =
      (obfImportPath env.cfg P).map (fun ip => ip ++ [46] ++
        ((if ptr then [40, 42] ++ nT ++ [41] else nT) ++ [46] ++ (if clsOf m = .exported then m else nM))) := by
  rw [decide_type env P T (clsOf T) hl ho hsT] at hdT
  unfold pkgHash ofOpt at hdT
  unfold linknameTarget
  simp only [hdot, hsp, hres, ho, hi, hcut]
  have hrecv : recvRewrite (fun n => hashWithPackage env.cfg P.path P.gaid n (clsOf n)) (if ptr then 40 :: 42 :: (T ++ [41]) else T) =
      (hashWithPackage env.cfg P.path P.gaid T (clsOf T)).map (fun x => if ptr then [40, 42] ++ x ++ [41] else x) := by
    cases ptr
    · simp [recvRewrite, stripPtrRecv_plain T hT]
    · simp [recvRewrite, stripPtrRecv_ptr T]
  cases hhT : hashWithPackage env.cfg P.path P.gaid T (clsOf T) with
  | none => simp [hhT] at hdT
  | some x =>
    simp [hhT] at hdT; subst hdT
    simp only [hhT] at hrecv
    by_cases hex : clsOf m = .exported
    · simp [hrecv, hex]; cases obfImportPath env.cfg P <;> simp
    · rw [decide_method_unexported env P m (clsOf m) hl ho hsM hiM hex hm] at hdM
      unfold pkgHash ofOpt at hdM
      cases hhM : hashWithPackage env.cfg P.path P.gaid m (clsOf m) with
      | none => simp [hhM, hex] at hdM
      | some y =>
        simp [hhM, hex] at hdM; subst hdM
        simp [hrecv, hex, hhM]; cases obfImportPath env.cfg P <;> simp

/-- **assembly symbols agree**: a reference `pkg·f` / `·f` to a function of `P` is renamed like f's declaration -/
theorem asm_func_agrees (env : Env) (P : Pkg) (f : Bytes) (cls : NameClass) (ts : Bool)
    (hl : env.lookup P.path = .found P) (ho : P.toObfuscate = true) (hs : specialKeep P.path f = false)
    (hx : ¬ FuncExempt f ts) :
    (match asmSymbolName env P f cls with | some n => (if env.intrinsic P.path f then Decision.keep else .rename n) | none => .panic) =
      decideObj env (funcObj P f cls ts) := by
  cases hi : env.intrinsic P.path f with
  | true => unfold decideObj funcObj asmSymbolName; simp [hl, ho, hs, hi]
  | false =>
    rw [decide_func env P f cls ts hl ho hs hi hx]
    unfold asmSymbolName pkgHash ofOpt; simp [ho, hi]
    cases hashWithPackage env.cfg P.path P.gaid f cls <;> simp

/-- … and to a package-level variable -/
theorem asm_var_agrees (env : Env) (P : Pkg) (v : Bytes) (cls : NameClass)
    (hl : env.lookup P.path = .found P) (ho : P.toObfuscate = true) (hs : specialKeep P.path v = false)
    (hi : env.intrinsic P.path v = false) :
    (match asmSymbolName env P v cls with | some n => Decision.rename n | none => .panic) = decideObj env (varObj P v cls) := by
  rw [decide_var env P v cls hl ho hs]
  unfold asmSymbolName pkgHash ofOpt; simp [ho, hi]
  cases hashWithPackage env.cfg P.path P.gaid v cls <;> simp

/-- **go_asm.h offset names agree**: for a non-embedded field the recorded replacement is the field's own new name … -/
theorem goasm_field_agrees (env : Env) (P : Pkg) (f : Bytes) (cls : NameClass) (h : Nat)
    (hl : env.lookup P.path = .found P) (ho : P.toObfuscate = true) (hs : specialKeep P.path f = false) :
    goAsmFieldName env h f cls false none = decideObj env (fieldObj P f cls h) := by
  unfold goAsmFieldName decideObj fieldObj; simp [hl, ho, hs]

/-- … and for an embedded field it is the name given to the embedded TYPE, which is what `transformGoFile` writes for
the field (it replaces the embedded field object by its type name before deciding).  Before the `fix:` commit for
go_asm.h this case used the field hash and assembly using `Outer_Inner` offsets failed to assemble. -/
theorem goasm_embedded_agrees (env : Env) (h : Nat) (f : Bytes) (cls : NameClass) (d : Decision) (n : Bytes)
    (hd : d = .rename n) : goAsmFieldName env h f cls true (some d) = d := by
  subst hd; rfl

/-- **an embedded field follows its type**: every caller of the decision (the compile step, `garble map`, the
go_asm.h table) names an embedded field exactly like the type it embeds — by construction since the decision point
itself does the substitution (before the corresponding `fix:` commit `garble map` reported a struct-salted name) -/
theorem embedded_field_follows_type (env : Env) (o : Obj) (T : Bytes) (cls : NameClass) (P : Pkg) :
    decideIdent env o (.named T cls (some P.path)) = decideObj env (typeObj P T cls) := rfl

/-- **-ldflags=-X agrees**: the duplicated flag names the variable's new import path and new name -/
theorem ldflagsX_agrees (env : Env) (P : Pkg) (v : Bytes) (cls : NameClass) (n : Bytes)
    (hl : env.lookup P.path = .found P) (ho : P.toObfuscate = true) (hs : specialKeep P.path v = false)
    (hd : decideObj env (varObj P v cls) = .rename n) :
    ldflagsX env P v cls = (obfImportPath env.cfg P).map (fun ip => ip ++ [46] ++ n) := by
  rw [decide_var env P v cls hl ho hs] at hd
  unfold pkgHash ofOpt at hd
  unfold ldflagsX
  cases hh : hashWithPackage env.cfg P.path P.gaid v cls with
  | none => simp [hh] at hd
  | some x => simp [hh] at hd; subst hd; cases obfImportPath env.cfg P <;> simp

/-- the hypotheses forced on the linkname/asm theorems are genuinely needed: for a function named `init` the Go
source keeps the name while the directive/assembly logic hashes it (the excluded point; see DESIGN.md) -/
theorem exempt_names_disagree (env : Env) (P : Pkg) (cls : NameClass)
    (hl : env.lookup P.path = .found P) (ho : P.toObfuscate = true) (hi : env.intrinsic P.path (str "init") = false) :
    decideObj env (funcObj P (str "init") cls false) = .keep ∧
      asmSymbolName env P (str "init") cls = hashWithPackage env.cfg P.path P.gaid (str "init") cls := by
  constructor
  · unfold decideObj funcObj
    have : specialKeep P.path (str "init") = false := by
      unfold specialKeep hasSuffix
      have e : str "init" = [105, 110, 105, 116] := by decide
      have e1 : str "align64" = [97, 108, 105, 103, 110, 54, 52] := by decide
      have e2 : str "FS" = [70, 83] := by decide
      have e3 : str "Method" = [77, 101, 116, 104, 111, 100] := by decide
      have e4 : str "MethodByName" = [77, 101, 116, 104, 111, 100, 66, 121, 78, 97, 109, 101] := by decide
      have e5 : str "SET" = [83, 69, 84] := by decide
      simp [e, e1, e2, e3, e4, e5]; intro _; decide
    simp [hl, ho, this, hi]
  · unfold asmSymbolName; simp [ho, hi]

end GV.Props.C01
