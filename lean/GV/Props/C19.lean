import GV.Model.DebugDir
/-
C19 — garble touches only its own files.

Proved: the -debugdir ownership decision never deletes a directory that lacks garble's marker (for every kind of
pre-existing target), and the clean-up steps of the top-level commands are in place in the source as it stands
(regenerated step lists): the shared temp dir is removed by a deferred call registered BEFORE anything can fail after
its creation, in build/test/run, reverse and map alike.  That no other file is touched is observed end to end
(recursive hashes of the source tree, TMPDIR listing): partial.
-/
namespace GV.Props.C19
open GV.DebugDir

/-- **foreign content is never wiped**: the only case in which existing content is deleted is a directory that
contains garble's own marker file -/
theorem foreign_never_wiped (t : Target) (h : deletesExisting (decideDir t) = true) : ∃ n, t = .dirWith true n := by
  cases t with
  | absent => simp [decideDir, deletesExisting] at h
  | emptyDir => simp [decideDir, deletesExisting] at h
  | notADir => simp [decideDir, deletesExisting] at h
  | dirWith s n => cases s with
    | true => exact ⟨n, rfl⟩
    | false => simp [decideDir, deletesExisting] at h

/-- a non-empty directory without the marker, and a regular file, are refused (and so left untouched) -/
theorem unknown_contents_refused (n : Nat) : decideDir (.dirWith false n) = .refuse ∧ decideDir .notADir = .refuse := ⟨rfl, rfl⟩

/-- an owned directory is emptied and recreated, so that it ends up holding only the trees of this build -/
theorem owned_is_recreated (n : Nat) : decideDir (.dirWith true n) = .wipeAndRecreate := rfl

/-- **clean-up on every path**: in build/test/run the removal of GARBLE_SHARED (and the cache trim) is deferred right
after `toolexecCmd` returns — before its error is even looked at — and before the go command is run; reverse and map
defer the removal right after `toolexecCmd` as well, before flags are validated -/
theorem cleanup_registered_first :
    GV.Gen.buildCommandSteps.take 2 = ["toolexecCmd", "defer RemoveAll"] ∧
    GV.Gen.reverseCommandSteps.take 2 = ["toolexecCmd", "defer RemoveAll"] ∧
    GV.Gen.mapCommandSteps.take 2 = ["toolexecCmd", "defer RemoveAll"] := by decide

/-- the go command runs, and the debug dir is restored from the cache, only after the clean-up has been registered -/
theorem run_after_cleanup_registered :
    GV.Gen.buildCommandSteps.idxOf "defer RemoveAll" < GV.Gen.buildCommandSteps.idxOf "Run" ∧
    GV.Gen.buildCommandSteps.idxOf "Run" < GV.Gen.buildCommandSteps.idxOf "restoreDebugDirFromCache" := by decide

/-- the ownership chain as it stands in main.go (regenerated on every run): not-exist -> nothing; empty -> nothing;
sentinel present -> RemoveAll; anything else -> refuse.  `decideDir` is the reading of exactly this text; a chain that
deletes in another branch, or tests something else, no longer has this shape. -/
theorem debugdir_chain_shape : GV.Gen.debugDirChainShape.toList =
    "if entries, err := os.ReadDir(flagDebugDir); errors.Is(err, fs.ErrNotExist) { } else if err == nil && len(entries) == 0 { } else if _, err := os.Lstat(sentinel); err == nil { if err := os.RemoveAll(flagDebugDir); err != nil { return nil, fmt.Errorf(\"could not empty debugdir: %v\", err) } } else { return nil, fmt.Errorf(\"debugdir %q has unknown contents; empty it first\", origDir) }".toList := by
  rfl

/-- the ownership marker is written together with the directory, before any build step runs: a build that is
interrupted later leaves a directory the next run recognises as its own -/
theorem debugdir_marker_written_at_setup :
    GV.Gen.debugDirSetupSteps = ["ReadDir", "RemoveAll", "MkdirAll", "WriteFile"] := by decide

end GV.Props.C19
