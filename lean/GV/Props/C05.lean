import GV.Model.Literals
/-
C05 — Obfuscated literals evaluate to their original values.

For EVERY plaintext (any length, any bytes) and EVERY outcome of the random draws that satisfies the explicit
well-formedness side conditions, the decoder each obfuscator emits evaluates to the plaintext.
-/
set_option linter.unusedSimpArgs false
namespace GV.Props.C05
open GV.Literals

/-- the decoder's operator undoes the encoder's, for all bytes (evalOperator vs operatorToReversedBinaryExpr) -/
theorem rev_eval (op : Op) (x k : UInt8) : op.rev.eval (op.eval x k) k = x := by
  cases op
  · simp [Op.rev, Op.eval, UInt8.xor_assoc]
  · simp [Op.rev, Op.eval]
  · simp [Op.rev, Op.eval]

theorem getAt_setAt_same (d : Bytes) (i : Nat) (v : UInt8) (h : i < d.length) : getAt (setAt d i v) i = v := by
  unfold getAt setAt; simp [h]

theorem setAt_setAt_same (d : Bytes) (i : Nat) (v w : UInt8) : setAt (setAt d i v) i w = setAt d i w := by
  unfold setAt; simp

theorem setAt_getAt (d : Bytes) (i : Nat) : setAt d i (getAt d i) = d := by
  unfold setAt getAt
  by_cases h : i < d.length
  · apply List.ext_getElem (by simp)
    intro j h1 h2
    by_cases hj : i = j
    · subst hj; simp [h]
    · simp [List.getElem_set, hj]
  · rw [List.set_eq_of_length_le (by omega)]

/-- undoing one key operation (any index, also out of range, where both are no-ops) -/
theorem applyKeyOp_undo (keys : List ExtKey) (d : Bytes) (o : KeyOp) :
    applyKeyOp keys (applyKeyOp keys d o) { o with op := o.op.rev } = d := by
  unfold applyKeyOp
  by_cases h : o.idx < d.length
  · simp only
    rw [getAt_setAt_same d o.idx _ h, rev_eval, setAt_setAt_same, setAt_getAt]
  · unfold setAt
    simp only
    rw [List.set_eq_of_length_le (by simp; omega)]
    rw [List.set_eq_of_length_le (by omega)]

/-- **ext-key operations are undone by the reversed statement list** — any number of operations, any repetition of
indexes (the reason for `slices.Reverse(stmts)`), any keys -/
theorem slicelit_roundtrip (keys : List ExtKey) : ∀ (ops : List KeyOp) (data : Bytes),
    (buildSliceLit keys data ops).eval keys = data := by
  intro ops
  induction ops with
  | nil => intro data; rfl
  | cons o ops ih =>
    intro data
    have := ih (applyKeyOp keys data o)
    unfold buildSliceLit SliceLit.eval at *
    simp only [List.foldl_cons, List.map_cons, List.reverse_cons, List.foldl_append, List.foldl_nil] at *
    rw [this]
    exact applyKeyOp_undo keys data o

/-- a byte hidden behind a key evaluates to the byte -/
theorem byteexpr_roundtrip (keys : List ExtKey) (v : UInt8) (c : Option (Op × Nat × Nat)) :
    (buildByteExpr keys v c).eval keys = v := by
  cases c with
  | none => rfl
  | some t => obtain ⟨op, k, sh⟩ := t; simp [buildByteExpr, ByteExpr.eval, rev_eval]

/-! ### simple -/

theorem zipOp_undo (op : Op) : ∀ (d k : Bytes), d.length = k.length → zipOp op.rev (zipOp op d k) k = d := by
  intro d
  induction d with
  | nil => intro k _; cases k <;> rfl
  | cons x xs ih =>
    intro k h
    cases k with
    | nil => simp at h
    | cons y ys =>
      simp only [zipOp, rev_eval]
      rw [ih ys (by simpa using h)]

/-- **simple**: for every plaintext, key of the same length, operator and ext-key operations -/
theorem simple_roundtrip (keys : List ExtKey) (data key : Bytes) (op : Op) (keyOps dataOps : List KeyOp)
    (h : data.length = key.length) : (buildSimple keys data key op keyOps dataOps).eval keys = data := by
  unfold buildSimple SimpleDec.eval
  simp only [slicelit_roundtrip]
  exact zipOp_undo op data key h

/-! ### seed -/

theorem seed_core (op : Op) : ∀ (data : Bytes) (s : UInt8), seedRun op.rev s (seedEnc op s data) = data := by
  intro data
  induction data with
  | nil => intro s; rfl
  | cons b bs ih => intro s; simp only [seedEnc, seedRun, rev_eval, ih]

theorem zipBuild_eval (keys : List ExtKey) : ∀ (vs : Bytes) (cs : List (Option (Op × Nat × Nat))),
    (zipBuild keys vs cs).map (ByteExpr.eval keys) = vs := by
  intro vs
  induction vs with
  | nil => intro cs; cases cs <;> rfl
  | cons v vs ih =>
    intro cs
    cases cs with
    | nil => simp [zipBuild, ByteExpr.eval, ih]
    | cons c cs => simp [zipBuild, byteexpr_roundtrip, ih]

/-- **seed**: for every plaintext, initial seed, operator and per-byte key choices -/
theorem seed_roundtrip (keys : List ExtKey) (data : Bytes) (seed : UInt8) (op : Op) (sc : Option (Op × Nat × Nat))
    (choices : List (Option (Op × Nat × Nat))) : (buildSeed keys data seed op sc choices).eval keys = data := by
  unfold buildSeed SeedDec.eval
  simp only [byteexpr_roundtrip, zipBuild_eval]
  exact seed_core op data seed

/-! ### swap -/

theorem setAt_length (d : Bytes) (i : Nat) (v : UInt8) : (setAt d i v).length = d.length := by simp [setAt]

theorem swapStep_length (op : Op) (s : UInt8) (d : Bytes) (i p q : Nat) : (swapStep op s d i p q).length = d.length := by
  simp [swapStep, setAt_length]

theorem getAt_setAt_ne (d : Bytes) (i j : Nat) (v : UInt8) (h : i ≠ j) : getAt (setAt d i v) j = getAt d j := by
  unfold getAt setAt; simp [List.getD_eq_getElem?_getD, List.getElem?_set, h]

theorem setAt_comm (d : Bytes) (i j : Nat) (v w : UInt8) (h : i ≠ j) : setAt (setAt d i v) j w = setAt (setAt d j w) i v := by
  unfold setAt; exact List.set_comm v w h

/-- one decoder step undoes one encoder step, for positions inside the data, also when both positions coincide -/
theorem swapStep_undo (op : Op) (s : UInt8) (d : Bytes) (i p q : Nat) (hp : p < d.length) (hq : q < d.length) :
    swapStep op.rev s (swapStep op s d i p q) i p q = d := by
  by_cases hpq : p = q
  · subst hpq
    unfold swapStep
    simp only [setAt_setAt_same]
    rw [getAt_setAt_same d p _ hp, rev_eval, setAt_getAt]
  · unfold swapStep
    simp only
    have hl : (setAt d p (op.eval (getAt d q) (localKey i p q s))).length = d.length := setAt_length _ _ _
    rw [getAt_setAt_same _ q _ (by rw [hl]; exact hq)]
    rw [getAt_setAt_ne _ q p _ (Ne.symm hpq), getAt_setAt_same d p _ hp]
    rw [rev_eval, rev_eval]
    rw [setAt_comm _ p q _ _ hpq, setAt_setAt_same, setAt_comm _ q p _ _ (Ne.symm hpq), setAt_setAt_same,
        setAt_getAt, setAt_getAt]

def AllLt (n : Nat) (l : List Nat) : Prop := ∀ x ∈ l, x < n

theorem swapEncode_length (op : Op) (s : UInt8) : ∀ (ps : List Nat) (i : Nat) (d : Bytes),
    (swapEncode op s i ps d).length = d.length
  | [], _, _ => rfl
  | [_], _, _ => rfl
  | p :: q :: rest, i, d => by
    simp only [swapEncode, swapStep_length]
    exact swapEncode_length op s rest (i + 2) d

/-- **swap**: the forward loop of the decoder undoes the backward loop of the encoder — for every plaintext, every
list of in-range positions (any length, repetitions allowed), every shift key and operator -/
theorem swap_core (op : Op) (s : UInt8) : ∀ (ps : List Nat) (i : Nat) (d : Bytes), AllLt d.length ps →
    swapDecode op.rev s i ps (swapEncode op s i ps d) = d
  | [], _, _, _ => rfl
  | [_], _, _, _ => rfl
  | p :: q :: rest, i, d, h => by
    simp only [swapEncode, swapDecode]
    have hl := swapEncode_length op s rest (i + 2) d
    rw [swapStep_undo op s _ i p q (by rw [hl]; exact h p (by simp)) (by rw [hl]; exact h q (by simp))]
    exact swap_core op s rest (i + 2) d (fun x hx => h x (by simp [hx]))

theorem swap_roundtrip (keys : List ExtKey) (data : Bytes) (positions : List Nat) (shift : UInt8) (op : Op)
    (dataOps : List KeyOp) (sc : Option (Op × Nat × Nat)) (h : AllLt data.length positions) :
    (buildSwap keys data positions shift op dataOps sc).eval keys = data := by
  unfold buildSwap SwapDec.eval
  simp only [slicelit_roundtrip, byteexpr_roundtrip]
  exact swap_core op shift positions 0 data h

/-- non-vacuity: the side condition is what `genRandIntSlice(rand, len(data), n)` produces (`Intn(max) < max`) -/
example : AllLt 3 [2, 0, 1, 1, 0, 2] := by intro x hx; simp at hx; omega

end GV.Props.C05

namespace GV.Props.C05
open GV.Literals

/-! ### shuffle -/

/-- the side conditions on the drawn permutation (`rand.Perm(len(fullData))`) -/
structure PermOK (n : Nat) (perm : List Nat) : Prop where
  len : perm.length = n
  lt : ∀ i, i < n → perm.getD i 0 < n
  inj : ∀ i j, i < n → j < n → perm.getD i 0 = perm.getD j 0 → i = j

theorem scatter_prefix (perm : List Nat) (full : Bytes) (hp : PermOK full.length perm) :
    ∀ m, m ≤ full.length →
      let acc := (List.range m).foldl (fun acc i => setAt acc (perm.getD i 0) (getAt full i)) (List.replicate full.length 0)
      acc.length = full.length ∧ ∀ j, j < m → getAt acc (perm.getD j 0) = getAt full j := by
  intro m
  induction m with
  | zero => intro _; simp
  | succ m ih =>
    intro hm
    have ⟨hl, hg⟩ := ih (by omega)
    simp only [List.range_succ, List.foldl_append, List.foldl_cons, List.foldl_nil]
    refine ⟨by rw [setAt_length]; exact hl, ?_⟩
    intro j hj
    by_cases hjm : j = m
    · subst hjm
      exact getAt_setAt_same _ _ _ (by rw [hl]; exact hp.lt j (by omega))
    · have hne : perm.getD m 0 ≠ perm.getD j 0 := fun e => hjm (hp.inj m j (by omega) (by omega) e).symm
      rw [getAt_setAt_ne _ _ _ _ hne]
      exact hg j (by omega)

theorem scatter_get (perm : List Nat) (full : Bytes) (hp : PermOK full.length perm) (j : Nat) (hj : j < full.length) :
    getAt (scatter perm full) (perm.getD j 0) = getAt full j :=
  (scatter_prefix perm full hp full.length (Nat.le_refl _)).2 j hj

theorem xor_cancel (a k : Nat) : (a ^^^ k) ^^^ k = a := by
  rw [Nat.xor_assoc, Nat.xor_self, Nat.xor_zero]

/-- **shuffle**: for every plaintext, key and index key, every operator list, every permutation of the doubled
array and every choice of index-key positions -/
theorem shuffle_roundtrip (keys : List ExtKey) (data key idxKey : Bytes) (ops : List Op) (perm kis : List Nat)
    (fullOps idxOps : List KeyOp) (hk : key.length = data.length) (hp : PermOK (data.length + data.length) perm) :
    (buildShuffle keys data key idxKey ops perm kis fullOps idxOps).eval keys = data := by
  unfold buildShuffle ShuffleDec.eval
  simp only [slicelit_roundtrip]
  apply List.ext_getElem
  · simp
  · intro i h1 h2
    simp only [List.length_map, List.length_range] at h1
    simp only [List.getElem_map, List.getElem_range, xor_cancel]
    have hfl : ((List.range data.length).map fun i => (ops.getD i .xor).eval (getAt data i) (getAt key i)).length = data.length := by simp
    have hfull : (((List.range data.length).map fun i => (ops.getD i .xor).eval (getAt data i) (getAt key i)) ++ key).length
        = data.length + data.length := by simp [hk]
    rw [scatter_get perm _ (by rw [hfull]; exact hp) i (by rw [hfull]; omega)]
    rw [scatter_get perm _ (by rw [hfull]; exact hp) (data.length + i) (by rw [hfull]; omega)]
    have e1 : getAt (((List.range data.length).map fun i => (ops.getD i .xor).eval (getAt data i) (getAt key i)) ++ key) i
        = (ops.getD i .xor).eval (getAt data i) (getAt key i) := by
      unfold getAt
      rw [List.getD_eq_getElem?_getD, List.getElem?_append_left (by simp; exact h1)]
      simp [h1]
    have e2 : getAt (((List.range data.length).map fun i => (ops.getD i .xor).eval (getAt data i) (getAt key i)) ++ key) (data.length + i)
        = getAt key i := by
      unfold getAt
      rw [List.getD_eq_getElem?_getD, List.getElem?_append_right (by simp)]
      simp [List.getD_eq_getElem?_getD]
    rw [e1, e2, rev_eval]
    unfold getAt
    simp [List.getD_eq_getElem?_getD, h1]

/-- non-vacuity: a permutation of 0..3 meets `PermOK` -/
example : PermOK 4 [2, 0, 3, 1] := by
  refine ⟨rfl, ?_, ?_⟩
  · intro i hi; have : i = 0 ∨ i = 1 ∨ i = 2 ∨ i = 3 := by omega
    rcases this with h | h | h | h <;> subst h <;> decide
  · intro i j hi hj h
    have hi' : i = 0 ∨ i = 1 ∨ i = 2 ∨ i = 3 := by omega
    have hj' : j = 0 ∨ j = 1 ∨ j = 2 ∨ j = 3 := by omega
    rcases hi' with a | a | a | a <;> rcases hj' with b | b | b | b <;> subst a <;> subst b <;> simp_all

/-! ### wrappers -/

/-- `string(x[lo:lo+n])` on `junk₁ ++ data ++ junk₂` with lo = |junk₁|, n = |data| (obfuscateString) -/
theorem junk_slice (j1 d j2 : Bytes) : ((j1 ++ d ++ j2).drop j1.length).take d.length = d := by
  simp [List.append_assoc]

/-- the byte-array form: copying the decoded bytes into a zeroed `[N]byte` gives the literal padded with zeros -/
def toArray (n : Nat) (d : Bytes) : Bytes := (List.range n).map fun i => getAt d i

theorem array_copy (n : Nat) (d : Bytes) (h : d.length ≤ n) : toArray n d = d ++ List.replicate (n - d.length) 0 := by
  unfold toArray
  apply List.ext_getElem
  · simp; omega
  · intro i h1 h2
    simp only [List.length_map, List.length_range] at h1
    simp only [List.getElem_map, List.getElem_range]
    unfold getAt
    by_cases hi : i < d.length
    · simp [List.getD_eq_getElem?_getD, hi, List.getElem_append_left]
    · simp [List.getD_eq_getElem?_getD, hi]
      rw [List.getElem_append_right (by omega)]
      simp

/-! ### split -/

theorem ofNat_mod256 (n : Nat) : UInt8.ofNat (n % 256) = UInt8.ofNat n := by
  apply UInt8.toNat_inj.mp
  simp [UInt8.toNat_ofNat']

theorem key_byte (dk y : Nat) : UInt8.ofNat ((dk ^^^ y) % 256) = UInt8.ofNat dk ^^^ UInt8.ofNat y := by
  rw [ofNat_mod256, UInt8.ofNat_xor]

theorem encFrom_append (op : Op) (key : UInt8) : ∀ (a b : Bytes) (off : Nat),
    encFrom op key off (a ++ b) = encFrom op key off a ++ encFrom op key (off + a.length) b
  | [], b, off => by simp [encFrom]
  | x :: a, b, off => by
    simp only [List.cons_append, encFrom, List.length_cons]
    rw [encFrom_append op key a b (off + 1)]
    have : off + 1 + a.length = off + (a.length + 1) := by omega
    rw [this]

theorem encChunks_flatten (op : Op) (key : UInt8) : ∀ (cs : List Bytes) (off : Nat),
    (encChunks op key off cs).flatten = encFrom op key off cs.flatten
  | [], off => by simp [encChunks, encFrom]
  | c :: cs, off => by
    simp only [encChunks, List.flatten_cons]
    rw [encChunks_flatten op key cs, encFrom_append]

theorem encFrom_length (op : Op) (key : UInt8) : ∀ (d : Bytes) (off : Nat), (encFrom op key off d).length = d.length
  | [], _ => rfl
  | _ :: r, off => by simp [encFrom, encFrom_length op key r]

/-- the decrypt case undoes `encryptChunks`, when the run-time key agrees with the encoder's key in its low byte -/
theorem decrypt_undo (op : Op) (key : UInt8) (dk : Nat) (hk : UInt8.ofNat dk = key) : ∀ (d : Bytes) (off : Nat),
    ((encFrom op key off d).zipIdx off).map (fun (p : UInt8 × Nat) => op.rev.eval p.1 (UInt8.ofNat ((dk ^^^ p.2) % 256))) = d
  | [], _ => rfl
  | b :: r, off => by
    simp only [encFrom, List.zipIdx_cons, List.map_cons]
    rw [decrypt_undo op key dk hk r (off + 1), key_byte, hk, rev_eval]


/-- the run-time `decryptKey` (an int) after `k` iterations of the loop -/
def dkNat (keyInit : Nat) (idx : List Nat) : Nat → Nat
  | 0 => keyInit
  | k + 1 => dkNat keyInit idx k ^^^ (idx.getD k 0 * k)

/-- ... agrees in its low byte with the key the encoder computed in byte arithmetic -/
theorem dk_low_byte (ki : UInt8) (idx : List Nat) : ∀ k, UInt8.ofNat (dkNat ki.toNat idx k) = splitKeyUpTo ki idx k
  | 0 => by simp [dkNat, splitKeyUpTo]
  | k + 1 => by simp only [dkNat, splitKeyUpTo, UInt8.ofNat_xor, dk_low_byte ki idx k]

theorem find_case : ∀ (l : List Case) (_ : (l.map (·.index)).Nodup) (k : Nat) (hk : k < l.length),
    l.find? (·.index == l[k].index) = some l[k]
  | [], _, k, hk => by simp at hk
  | c :: t, nd, 0, _ => by simp
  | c :: t, nd, k + 1, hk => by
    simp only [List.map_cons, List.nodup_cons, List.mem_map] at nd
    have hk' : k < t.length := by simpa using hk
    have hne : c.index ≠ t[k].index := fun e => nd.1 ⟨t[k], List.getElem_mem hk', e.symm⟩
    have : (c.index == t[k].index) = false := by simpa using hne
    simp only [List.getElem_cons_succ, List.find?_cons, this]
    exact find_case t nd.2 k hk'

theorem chunkLit_eval (keys : List ExtKey) (e : Bytes) (ops : List KeyOp) (choice : Option (Op × Nat × Nat)) :
    (chunkLit keys e ops choice).eval keys = e := by
  unfold chunkLit
  split
  · simp [Chunk.eval, byteexpr_roundtrip]
  · simp [Chunk.eval, slicelit_roundtrip]

theorem getD_ne_of_nodup (idx : List Nat) (nd : idx.Nodup) (a b : Nat) (ha : a < idx.length) (hb : b < idx.length) (hab : a ≠ b) :
    idx.getD a 0 ≠ idx.getD b 0 := by
  simp only [List.getD_eq_getElem?_getD, List.getElem?_eq_getElem ha, List.getElem?_eq_getElem hb, Option.getD_some]
  exact fun e => hab ((List.getElem_inj nd).mp e)

theorem encChunks_length (op : Op) (key : UInt8) : ∀ (cs : List Bytes) (off : Nat), (encChunks op key off cs).length = cs.length
  | [], _ => rfl
  | _ :: cs, off => by simp [encChunks, encChunks_length op key cs]

theorem take_succ_flatten (l : List Bytes) (k : Nat) (hk : k < l.length) :
    (l.take (k + 1)).flatten = (l.take k).flatten ++ l.getD k [] := by
  rw [List.take_add_one, List.flatten_append, List.getD_eq_getElem?_getD, List.getElem?_eq_getElem hk]
  simp

/-- **split round trip**: for EVERY chunking of the data, every permutation of case indexes, every initial key,
operator and ext-key choice, the emitted state machine terminates and yields the original bytes -/
theorem split_roundtrip (keys : List ExtKey) (p : SplitPlan)
    (hlen : p.indexes.length = p.chunks.length + 2) (nd : p.indexes.Nodup) :
    (buildSplit keys p).eval keys = some p.chunks.flatten := by
  -- abbreviations
  generalize hn : p.chunks.length = n at hlen
  generalize hs : buildSplit keys p = s
  have hkey : splitKeyUpTo p.keyInit p.indexes (n + 1) = UInt8.ofNat (dkNat p.keyInit.toNat p.indexes (n + 1)) :=
    (dk_low_byte _ _ _).symm
  let enc := encChunks p.op (splitKeyUpTo p.keyInit p.indexes (n + 1)) 0 p.chunks
  have henc_len : enc.length = n := by simp [enc, encChunks_length, hn]
  have s_op : s.op = p.op.rev := by rw [← hs]; rfl
  have s_start : s.start = p.indexes.getD 0 0 := by rw [← hs]; rfl
  have s_dec : s.decryptIndex = p.indexes.getD n 0 := by rw [← hs]; simp [buildSplit, hn]
  have s_exit : s.exitIndex = p.indexes.getD (n + 1) 0 := by rw [← hs]; simp [buildSplit, hn]
  have s_key : s.decryptKey.eval keys = p.keyInit := by rw [← hs]; simp [buildSplit, byteexpr_roundtrip]
  have s_cases : s.cases = (List.range n).map fun i =>
      ({ index := p.indexes.getD i 0, next := p.indexes.getD (i + 1) 0,
         chunk := chunkLit keys (enc.getD i []) (p.sliceOps.getD i []) (p.byteChoices.getD i none) } : Case) := by
    rw [← hs]; simp [buildSplit, hn, enc]
  have cases_len : s.cases.length = n := by rw [s_cases]; simp
  have cases_nd : (s.cases.map (·.index)).Nodup := by
    rw [s_cases, List.map_map]
    rw [List.nodup_iff_pairwise_ne, List.pairwise_map]
    refine List.Pairwise.imp_of_mem ?_ (List.nodup_range (n := n))
    intro a b ha hb hab
    simp only [Function.comp]
    exact getD_ne_of_nodup _ nd a b (by have := List.mem_range.mp ha; omega) (by have := List.mem_range.mp hb; omega) hab
  have case_at : ∀ k (hk : k < n), s.cases.find? (·.index == p.indexes.getD k 0) =
      some ({ index := p.indexes.getD k 0, next := p.indexes.getD (k + 1) 0, chunk := chunkLit keys (enc.getD k []) (p.sliceOps.getD k []) (p.byteChoices.getD k none) } : Case) := by
    intro k hk
    have hk' : k < s.cases.length := by omega
    have hget : s.cases[k] = ({ index := p.indexes.getD k 0, next := p.indexes.getD (k + 1) 0, chunk := chunkLit keys (enc.getD k []) (p.sliceOps.getD k []) (p.byteChoices.getD k none) } : Case) := by
      simp [s_cases]
    have := find_case s.cases cases_nd k hk'
    rw [hget] at this
    exact this
  -- the walk
  have walk : ∀ m k, k + m = n → ∀ fuel, fuel ≥ m + 2 →
      splitRun s keys fuel (p.indexes.getD k 0) k (dkNat p.keyInit.toNat p.indexes k) (enc.take k).flatten =
        some (decryptAll s.op (dkNat p.keyInit.toNat p.indexes (n + 1)) enc.flatten) := by
    intro m
    induction m with
    | zero =>
      intro k hk fuel hf
      have hkn : k = n := by omega
      subst hkn
      obtain ⟨f, rfl⟩ : ∃ f, fuel = f + 1 := ⟨fuel - 1, by omega⟩
      obtain ⟨f2, rfl⟩ : ∃ f2, f = f2 + 1 := ⟨f - 1, by omega⟩
      have hne : p.indexes.getD k 0 ≠ p.indexes.getD (k + 1) 0 := getD_ne_of_nodup _ nd _ _ (by omega) (by omega) (by omega)
      have e1 : (p.indexes.getD k 0 == s.exitIndex) = false := by rw [s_exit]; simpa using hne
      have e2 : (p.indexes.getD k 0 == s.decryptIndex) = true := by rw [s_dec]; simp
      have e3 : (s.exitIndex == s.exitIndex) = true := by simp
      have htake : (enc.take k).flatten = enc.flatten := by rw [List.take_of_length_le (by omega)]
      simp only [splitRun, e1, e2, e3, if_true, Bool.false_eq_true, if_false, htake, dkNat]
    | succ m ih =>
      intro k hk fuel hf
      obtain ⟨f, rfl⟩ : ∃ f, fuel = f + 1 := ⟨fuel - 1, by omega⟩
      have hkn : k < n := by omega
      have hne1 : p.indexes.getD k 0 ≠ p.indexes.getD (n + 1) 0 := getD_ne_of_nodup _ nd _ _ (by omega) (by omega) (by omega)
      have hne2 : p.indexes.getD k 0 ≠ p.indexes.getD n 0 := getD_ne_of_nodup _ nd _ _ (by omega) (by omega) (by omega)
      have e1 : (p.indexes.getD k 0 == s.exitIndex) = false := by rw [s_exit]; simpa using hne1
      have e2 : (p.indexes.getD k 0 == s.decryptIndex) = false := by rw [s_dec]; simpa using hne2
      simp only [splitRun, e1, e2, Bool.false_eq_true, if_false, case_at k hkn, chunkLit_eval]
      have := ih (k + 1) (by omega) f (by omega)
      rw [take_succ_flatten enc k (by omega)] at this
      simpa [dkNat] using this
  unfold SplitDec.eval
  rw [s_start, s_key, cases_len]
  have := walk n 0 (by omega) (n + 3) (by omega)
  simp only [List.take_zero, List.flatten_nil, dkNat] at this
  rw [this, s_op]
  congr 1
  have hflat : enc.flatten = encFrom p.op (splitKeyUpTo p.keyInit p.indexes (n + 1)) 0 p.chunks.flatten := encChunks_flatten _ _ _ _
  rw [hflat]
  unfold decryptAll
  exact decrypt_undo p.op _ _ hkey.symm p.chunks.flatten 0

/-- non-vacuity: a concrete plan meets the hypotheses and decodes -/
example : (buildSplit [] { chunks := [[1, 2], [3], [4, 5, 6]], indexes := [3, 0, 4, 1, 2], keyInit := 77, op := .add, sliceOps := [], byteChoices := [], keyChoice := none }).eval [] = some [1, 2, 3, 4, 5, 6] := by decide

end GV.Props.C05
