import GV.Model.Salt
import GV.Proofs.ListLemmas
import GV.Proofs.Flags
/-
C12 — Name salting: fixed by -seed, otherwise tied to the build inputs.

What can be proved about a hash-based scheme is (a) which inputs do NOT reach the hash (so the name cannot
depend on them) and (b) that the inputs which must matter reach the hash pre-image injectively (so a change
of input changes the pre-image; inequality of the digests themselves is SHA-256's collision resistance, assumed).
-/
set_option linter.unusedSimpArgs false
namespace GV.Props.C12
open GV.Salt GV.NameHash GV.ListLemmas

/-- **seeded, package-scoped names depend only on (seed, import path, name)**: any two configurations with the
same non-empty seed give the same name for the same path and identifier, whatever the other garble flags,
GOGARBLE, the garble binary, and the package's Go action ID (through which source edits, tags, GOOS/GOARCH,
Go version and cache state enter). -/
theorem seeded_pkg_name_depends_only (c1 c2 : Cfg) (path gaid1 gaid2 name : Bytes) (cls : NameClass)
    (hs : c1.seed = c2.seed) (hne : c1.seed ≠ []) :
    hashWithPackage c1 path gaid1 name cls = hashWithPackage c2 path gaid2 name cls := by
  have h2 : c2.seed ≠ [] := hs ▸ hne
  unfold hashWithPackage pkgSalt hashWithCustomSalt namePreImage
  simp [h2, hs]

/-- **seeded field names depend only on (seed, struct identity hash, field name)** -/
theorem seeded_field_salt_depends_only (c1 c2 : Cfg) (typeHash : Nat)
    (hne1 : c1.seed ≠ []) (hne2 : c2.seed ≠ []) :
    structSaltBytes c1 typeHash = structSaltBytes c2 typeHash := by
  unfold structSaltBytes; simp [hne1, hne2]

theorem seeded_field_name_depends_only (c1 c2 : Cfg) (typeHash : Nat) (name : Bytes) (cls : NameClass)
    (hs : c1.seed = c2.seed) (hne : c1.seed ≠ []) :
    (structSaltBytes c1 typeHash).bind (fun s => hashWithCustomSalt c1 s name cls) =
    (structSaltBytes c2 typeHash).bind (fun s => hashWithCustomSalt c2 s name cls) := by
  have h2 : c2.seed ≠ [] := hs ▸ hne
  rw [seeded_field_salt_depends_only c1 c2 typeHash hne h2]
  unfold structSaltBytes hashWithCustomSalt namePreImage
  simp [h2, hs]

/-- the seeded pre-image, spelled out -/
theorem seeded_preimage (c : Cfg) (path gaid name : Bytes) (hne : c.seed ≠ []) :
    namePreImage c (pkgSalt c path gaid) name = path ++ (124 :: (c.seed ++ name)) := by
  unfold namePreImage pkgSalt; simp [hne]
  rfl

/-- **another package ⇒ another pre-image** (seeded): import paths never contain `|` (module.CheckImportPath),
so the `|` separator makes the pre-image injective in (path, seed ++ name). -/
theorem pkg_separates (c : Cfg) (p1 p2 g1 g2 n1 n2 : Bytes) (hne : c.seed ≠ [])
    (h1 : (124 : UInt8) ∉ p1) (h2 : (124 : UInt8) ∉ p2)
    (h : namePreImage c (pkgSalt c p1 g1) n1 = namePreImage c (pkgSalt c p2 g2) n2) :
    p1 = p2 ∧ n1 = n2 := by
  rw [seeded_preimage c p1 g1 n1 hne, seeded_preimage c p2 g2 n2 hne] at h
  have := split_at_sep (124 : UInt8) p1 p2 _ _ h1 h2 h
  exact ⟨this.1, List.append_cancel_left this.2⟩

/-- **another seed ⇒ another pre-image**, for the same package and identifier -/
theorem seed_separates (c1 c2 : Cfg) (p g1 g2 n : Bytes) (hne1 : c1.seed ≠ []) (hne2 : c2.seed ≠ [])
    (h : namePreImage c1 (pkgSalt c1 p g1) n = namePreImage c2 (pkgSalt c2 p g2) n) :
    c1.seed = c2.seed := by
  rw [seeded_preimage c1 p g1 n hne1, seeded_preimage c2 p g2 n hne2] at h
  have h' := List.append_cancel_left h
  simp only [List.cons.injEq, true_and] at h'
  exact List.append_cancel_right h'

/-- **unseeded**: the package salt is the garble action ID, which does not mention the import path;
its pre-image is `actionID ++ binaryID ++ " GOGARBLE=" ++ GOGARBLE ++ flags`. -/
theorem unseeded_salt_is_action (c : Cfg) (path gaid : Bytes) (h : c.seed = []) : pkgSalt c path gaid = gaid := by
  unfold pkgSalt; simp [h]

/-- **unseeded: every garble input reaches the hash pre-image injectively.**  Go action IDs and the garble binary's
content ID are fixed-width (`buildIDHashLength` bytes); production builds have no test obfuscator override.  Then
equal pre-images of `addGarbleToHash` force equal action ID (source, tags, GOOS/GOARCH, Go version — cmd/go's
contract), equal garble binary, equal -literals, -tiny, -seed, control-flow setting, equal GOGARBLE and, under
-literals, an equal set of -ldflags=-X targets (since the `fix:` commit that hashes them).
(Before the `fix:` commit that hashes GOGARBLE last this statement was false — GOGARBLE="mod, -tiny" collided with
GOGARBLE="mod," -tiny — and the check reported that history as a stale build, DESIGN.md 6.7.) -/
theorem map_prefix_inj : ∀ (l1 l2 : List Bytes), (l1.map fun n => [45, 88, 61] ++ n) = (l2.map fun n => [45, 88, 61] ++ n) → l1 = l2
  | [], [], _ => rfl
  | [], _ :: _, h => by simp at h
  | _ :: _, [], h => by simp at h
  | a :: l1, b :: l2, h => by
    simp only [List.map_cons, List.cons.injEq] at h
    rw [List.append_cancel_left h.1, map_prefix_inj l1 l2 h.2]

theorem unseeded_preimage_injective (c1 c2 : Cfg) (a1 a2 : Bytes)
    (ha : a1.length = a2.length) (hb : c1.binaryID.length = c2.binaryID.length)
    (ht1 : c1.testObf = []) (ht2 : c2.testObf = []) (hx1 : XOK c1) (hx2 : XOK c2)
    (h : garblePreImage c1 a1 = garblePreImage c2 a2) :
    a1 = a2 ∧ c1.binaryID = c2.binaryID ∧ c1.literals = c2.literals ∧ c1.tiny = c2.tiny ∧
      c1.seed = c2.seed ∧ c1.ctrlflow = c2.ctrlflow ∧ c1.gogarble = c2.gogarble ∧
      (c1.literals = true → c1.xTargets = c2.xTargets) := by
  unfold garblePreImage at h
  simp only [List.append_assoc] at h
  have h1 := List.append_inj h ha
  have h2 := List.append_inj h1.2 hb
  have h3 := h2.2
  rw [appendFlags_tokens c1 ht1, appendFlags_tokens c2 ht2, flat_render, flat_render] at h3
  simp only [List.cons.injEq, true_and] at h3
  have r := render_inj _ _ _ _ (tokens_good c1 hx1) (tokens_good c2 hx2) h3
  have f1 := filter_split c1
  have f2 := filter_split c2
  rw [r.1] at f1
  have hbase : baseTokens c1 = baseTokens c2 := f1.1.symm.trans f2.1
  have hxs : xTokens c1 = xTokens c2 := f1.2.symm.trans f2.2
  have d1 := tokens_decode c1
  have d2 := tokens_decode c2
  rw [hbase] at d1
  have hlit : c1.literals = c2.literals := by rw [← d1.1, ← d2.1]
  refine ⟨h1.1, h2.1, hlit, ?_, ?_, ?_, r.2, ?_⟩
  · rw [← d1.2.1, ← d2.2.1]
  · have hs := d1.2.2.2.symm.trans d2.2.2.2
    cases e1 : c1.seed.isEmpty <;> cases e2 : c2.seed.isEmpty <;> simp [e1, e2] at hs
    · exact GV.Base64.encodeStd_inj _ _ hs
    · rw [List.isEmpty_iff.mp e1, List.isEmpty_iff.mp e2]
  · rw [← d1.2.2.1, ← d2.2.2.1]
  · intro hl
    have hl2 : c2.literals = true := hlit ▸ hl
    unfold xTokens at hxs
    simp only [hl, hl2, if_true] at hxs
    exact map_prefix_inj _ _ hxs

/-- corollary for package-scoped names: a different garble action pre-image whenever any single input differs -/
theorem unseeded_any_input_changes_preimage (c1 c2 : Cfg) (a1 a2 : Bytes)
    (ha : a1.length = a2.length) (hb : c1.binaryID.length = c2.binaryID.length)
    (ht1 : c1.testObf = []) (ht2 : c2.testObf = []) (hx1 : XOK c1) (hx2 : XOK c2)
    (hd : a1 ≠ a2 ∨ c1.binaryID ≠ c2.binaryID ∨ c1.literals ≠ c2.literals ∨ c1.tiny ≠ c2.tiny ∨
          c1.seed ≠ c2.seed ∨ c1.ctrlflow ≠ c2.ctrlflow ∨ c1.gogarble ≠ c2.gogarble) :
    garblePreImage c1 a1 ≠ garblePreImage c2 a2 := by
  intro h
  have := unseeded_preimage_injective c1 c2 a1 a2 ha hb ht1 ht2 hx1 hx2 h
  rcases hd with d | d | d | d | d | d | d
  · exact d this.1
  · exact d this.2.1
  · exact d this.2.2.1
  · exact d this.2.2.2.1
  · exact d this.2.2.2.2.1
  · exact d this.2.2.2.2.2.1
  · exact d this.2.2.2.2.2.2.1

/-- unseeded field names: the salt pre-image is `base32(structHash) ++ binaryID ++ flags ++ GOGARBLE` — it changes
with the garble flags, GOGARBLE and the garble version, and does not mention the package or its action ID -/
theorem unseeded_field_salt (c : Cfg) (typeHash : Nat) (h : c.seed = []) :
    structSaltBytes c typeHash = addGarbleToHash c (base32Digits typeHash) := by
  unfold structSaltBytes; simp [h]

/-- the runtime magic number and entry-offset key: same inputs as the names (seed, else runtime's garble action ID) -/
theorem magic_seeded_depends_only (c1 c2 : Cfg) (r1 r2 salt : Bytes) (hs : c1.seed = c2.seed) (hne : c1.seed ≠ []) :
    runtimeHash c1 r1 salt = runtimeHash c2 r2 salt := by
  have h2 : c2.seed ≠ [] := hs ▸ hne
  unfold runtimeHash runtimePreImage; simp [hne, h2, hs]

theorem magic_unseeded_uses_runtime_action (c : Cfg) (r salt : Bytes) (h : c.seed = []) :
    runtimePreImage c r salt = r ++ salt := by
  unfold runtimePreImage; simp [h]

/-- non-vacuity: a seeded configuration and an import path without `|` -/
example : ({ seed := [1,2,3,4,5,6,7,8] } : Cfg).seed ≠ [] ∧ (124 : UInt8) ∉ str "example.com/a" := by decide

end GV.Props.C12
