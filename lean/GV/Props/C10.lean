import GV.Gen.RuntimeGraph
/-
C10 — -tiny silences every crash but keeps crash semantics.

PARTIAL by nature: exit statuses, `recover` values and what the compiled runtime does are behaviour of compiled code and
are sampled by the crash catalogue (gvlib/c10.py).  What is proved is the static half of "prints nothing":

`GV.Gen.RuntimeGraph` is regenerated on every run from package runtime *after the real stripRuntime was applied to every
file* (type-checked the way garble type-checks it).  Its edge list over-approximates calls: static calls, every function
whose address is taken (reachable from any call of a function value), interface calls resolved by method name,
assembly functions may call every Go symbol the assembly mentions, every function may make any compiler-inserted call
(`<hidden>`), and a remaining `print`/`println` builtin is an edge to the compiler's print support.  The theorem:

  the ONLY functions of the stripped runtime from which a write to file descriptor 2 is reachable are the ones in
  `allowed` below — the print support that user code reaches through its own print/println, and diagnostics helpers that
  are only called from functions whose bodies -tiny empties.  In particular none of the crash entry points
  (`crashRootNames`: gopanic, the run-time error panics, throw/fatal, signal handling, deadlock detection, Goexit, ...)
  can reach such a write.

Removing a strip rule, skipping the print rewrite for a file, or a new Go release adding a write path makes the
regenerated unsafe set larger than `allowed`: `unsafe_are_allowed` stops checking.
-/
namespace GV.Props.C10
open GV.Graph GV.Gen.RuntimeGraph

/-- print support reached from user code through print/println, the two raw writers they end in, and debug helpers that
only stripped functions call (`printDebugLog`, `hexdumpWords` are emptied; their helpers and the closures passed to them
are dead) -/
def allowed : List String :=
  ["writeErrData", "writeErr", "gwrite",
   "printbool", "printcomplex128", "printcomplex64", "printfloat32", "printfloat64", "printhex", "printhexopts", "printint",
   "printnl", "printpointer", "printquoted", "printslice", "printsp", "printstring", "printuint", "printuintptr",
   "printeface", "printiface",
   "debugLogReader.printVal", "printDebugLogImpl",
   "hexdumpMarker.start", "hexdumper.flushLine", "hexdumper.close", "hexdumper.write",
   "dumpSigStack$1", "scanConservative$1"]

def crashRootNames : List String :=
  ["gopanic", "panicmem", "panicmemAddr", "panicdivide", "panicoverflow", "panicfloat", "goPanicIndex", "goPanicIndexU", "goPanicSliceAlen", "goPanicSliceB", "panicdottypeE", "panicdottypeI", "panicnildottype", "panicwrap", "panicunsafeslicelen", "panicmakeslicelen", "throw", "fatal", "fatalthrow", "fatalpanic", "sigpanic", "sigpanic0", "Goexit", "goexit1", "goexit0", "checkdead", "dieFromSignal", "crash", "sighandler", "badsignal", "sigtrampgo", "dopanic_m", "printpanics", "printpanicval", "preprintpanics", "startpanic_m", "recovery", "gorecover", "deferreturn", "deferproc", "newstack", "mallocgc", "main", "sigNotOnStack", "badmorestackg0", "badmorestackgsignal", "unlock2", "lock2", "fatalsignal", "raisebadsignal", "sigfwdgo", "exitsyscall", "schedule", "mstart1", "mcall", "systemstack", "morestack", "abort", "exit", "raise", "raiseproc", "closechan", "chansend", "chanrecv", "mapassign_faststr", "panicCheck1", "panicCheck2", "printanycustomtype", "goroutineheader", "traceback", "tracebackothers", "printDebugLog", "hexdumpWords", "writeErrStr", "sync_throw", "sync_fatal", "rawstring", "semrelease1", "sync_runtime_Semrelease", "timeSleep", "gcStart", "gcBgMarkWorker", "sysmon", "bgsweep", "forcegchelper", "printlock", "printunlock", "printCgoTraceback", "tracebackHexdump", "maps_fatal"]

/-- the translator found every crash entry point in the current runtime -/
theorem roots_found : crashRoots.map (·.1) = crashRootNames := by decide

/-- the regenerated set of functions that can reach a stderr write is within the documented list -/
theorem unsafe_are_allowed : unsafeNodes.all (fun p => allowed.contains p.2) = true := by decide

/-- direct writes to fd 2 happen in exactly one function -/
theorem single_writer : writerNames = ["writeErrData"] := by decide

/-- after stripRuntime the print builtins survive only inside print.go (the support functions themselves) -/
theorem print_calls_gone : printCallers = ["printeface", "printiface", "printquoted", "printslice"] := by decide

/-- the three functions that bypass the print builtins are emptied, and garble's own validation agrees -/
theorem required_strips_present :
    stripped = [("debuglog.go", "printDebugLog"), ("hexdump.go", "hexdumpWords"), ("runtime.go", "writeErrStr")]
    ∧ validateOutcome = "valid" := by decide

/-- **no crash entry point can reach a write to stderr**, along any path of the over-approximated graph -/
theorem tiny_silent (r : String × Nat) (hr : r ∈ crashRoots) (w : Nat) (hw : w ∈ writers) : ¬ Path edges r.2 w := by
  have h1 := (List.all_eq_true.mp roots_inside) r hr
  have h2 := (List.all_eq_true.mp writers_outside) w hw
  exact no_path_out closedAll h1 (by simpa using h2)

/-- the general form: whatever can reach a stderr write is one of the `allowed` functions -/
theorem only_allowed_reach_stderr (a : Nat) (ha : a < nNodes) (w : Nat) (hw : w ∈ writers) (p : Path edges a w) :
    ∃ s, (a, s) ∈ unsafeNodes ∧ s ∈ allowed := by
  have hc := (List.all_eq_true.mp cover) a (List.mem_range.mpr ha)
  have h2 := (List.all_eq_true.mp writers_outside) w hw
  cases hm : safeMask.testBit a with
  | true => exact absurd p (no_path_out closedAll hm (by simpa using h2))
  | false =>
    simp only [hm, Bool.false_or, List.contains_eq_mem, decide_eq_true_eq, List.mem_map] at hc
    obtain ⟨q, hq, hqa⟩ := hc
    refine ⟨q.2, ?_, ?_⟩
    · have : q = (a, q.2) := by rw [← hqa]
      rw [this] at hq; exact hq
    · have := (List.all_eq_true.mp unsafe_are_allowed) q hq
      simpa using this

/-- the graph is not vacuous: user-level print support does reach the writer -/
theorem print_support_reaches_stderr : ∃ a w, witness.head? = some a ∧ witness.getLast? = some w ∧ w ∈ writers ∧ Path edges a w :=
  ⟨_, _, by decide, by decide, by decide, witness_path⟩

end GV.Props.C10
