import GV.Driver.Common
import GV.Model.Replacer
open GV GV.Replacer
namespace GV.Driver

def pPairs : Nat → List String → Option (List (List UInt8 × List UInt8) × List String)
  | 0, r => some ([], r)
  | k + 1, a :: b :: r => (pPairs k r).map fun (l, r') => ((unhex a, unhex b) :: l, r')
  | _, _ => none

def replOps : Handler := fun st f =>
  match f with
  | "replm" :: n :: rest =>
    match pPairs n.toNat! rest with
    | some (pairs, [inp]) => some (st, toHex (replaceAll pairs (unhex inp)))
    | _ => some (st, "!bad")
  | "revcontentm" :: n :: rest =>
    match pPairs n.toNat! rest with
    | some (pairs, [inp]) =>
      let r := reverseContent pairs (unhex inp)
      some (st, toHex r.1 ++ " " ++ (if r.2 then "1" else "0"))
    | _ => some (st, "!bad")
  | _ => none

end GV.Driver
