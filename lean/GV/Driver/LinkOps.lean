import GV.Driver.NamingOps
import GV.Model.Link
open GV GV.Naming GV.Salt GV.NameHash GV.Link GV.Flags
namespace GV.Driver

def lastDot (s : List UInt8) : Option (List UInt8 × List UInt8) :=
  match (dotSplits s).getLast? with
  | some (a, b) => some (a, b)
  | none => none

def globalPkg (st : St) (path : List UInt8) : Option Pkg :=
  match st.lpkgs.find? (fun p => p.1 == path) with
  | some (_, name, toObf, gaid, forTest) =>
    some { path := path, name := name, toObfuscate := toObf, gaid := gaid, forTest := forTest,
           pathCls := if st.identPaths.contains path then .unexported else .notIdent }
  | none => none

/-- the `-X` duplicate for one value `path.name=value` (transformLink) -/
def xDup (st : St) (cur : Pkg) (co : List UInt8 → NameClass) (v : List UInt8) : Option (List UInt8) :=
  match cut1 61 v with
  | none => none
  | some (full, value) =>
    match lastDot full with
    | none => none
    | some (path, name) =>
      let lp := if path == str "main" then some cur else globalPkg st path
      match lp with
      | none => none
      | some p => (ldflagsX (mkEnv st) p name (co name)).map fun d => d ++ [61] ++ value

def joinLines (ls : List (List UInt8)) : List UInt8 := ls.flatMap fun l => l ++ [10]

def linkOps : Handler := fun st f =>
  match f with
  | "linkargsm" :: cur :: content :: k :: rest =>
    match pkgOf st (unhex cur) with
    | none => some (st, "!nopkg")
    | some p =>
      let n := k.toNat!
      let t := clsTable (rest.take (2 * n))
      let co (nm : List UInt8) : NameClass := match t.find? (·.1 == nm) with | some (_, c) => c | none => .notIdent
      let args := (rest.drop (2 * n)).map unhex
      let sp := garbleSplit garbleBools args
      let flags := transformLinkFlags (xDup st p co) (str "@NEW@") sp.1
      let env := mkEnv st
      let rp (q : List UInt8) : List UInt8 := match env.lookup q with
        | .found lp => (obfImportPath st.cfg lp).getD q
        | _ => str "!list-error"
      let rm (b a : List UInt8) : List UInt8 × List UInt8 := match env.lookup b with
        | .found lp => if lp.toObfuscate then ((hashWithPackage st.cfg lp.path lp.gaid b .notIdent).getD b, (obfImportPath st.cfg lp).getD a) else (b, a)
        | _ => (str "!list-error", a)
      let cfg := processImportCfg rm rp (unhex content)
      some (st, listOut (flags ++ sp.2) ++ " | " ++ toHex (joinLines cfg))
  | ["posm", pkg, base, off] =>
    match pkgOf st (unhex pkg) with
    | none => some (st, "!nopkg")
    | some p => some (st, optHex (callPosName st.cfg p (unhex base) off.toNat!))
  | _ => none

end GV.Driver
