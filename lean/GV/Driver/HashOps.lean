import GV.Driver.Common
open GV GV.Salt GV.NameHash
namespace GV.Driver

def hashOps : Handler := fun st f =>
  match f with
  | ["seed", s] => some ({ st with cfg := { st.cfg with seed := unhex s } }, "ok")
  | ["seedset", s] =>
    match seedSet (unhex s) with
    | .ok b => some (st, s!"ok {toHex b} {toHex (seedString b)}")
    | .error .decode => some (st, "err decode")
    | .error .short => some (st, "err short")
  | ["cfg", l, t, d, dd, cf, tob, gg, bid] =>
    let c : Cfg := { seed := st.cfg.seed, xTargets := st.cfg.xTargets, literals := (l == "1"), tiny := (t == "1"), debug := (d == "1"),
                     debugDir := unhex dd, ctrlflow := (cf == "1"), testObf := unhex tob,
                     gogarble := unhex gg, binaryID := unhex bid }
    some ({ st with cfg := c }, "ok")
  | "ldx" :: vals => some ({ st with cfg := { st.cfg with xTargets := linkerVariableNames (vals.map unhex) } }, "ok")
  | ["pkg", p, g] => some ({ st with pkgs := (unhex p, (unhex g ++ List.replicate 32 0).take 32) :: st.pkgs.filter (·.1 != unhex p) }, "ok")
  | ["hash", salt, name, cls] => some (st, optHex (hashWithCustomSalt st.cfg (unhex salt) (unhex name) (clsOf cls)))
  | ["hpkg", p, name, cls] =>
    match st.pkgs.find? (·.1 == unhex p) with
    | some (path, gaid) => some (st, optHex (hashWithPackage st.cfg path gaid (unhex name) (clsOf cls)))
    | none => some (st, "!nopkg")
  | ["gaction", inp] => some (st, optHex (addGarbleToHash st.cfg (unhex inp)))
  | ["flags", f] => some (st, toHex (appendFlags st.cfg (f == "1")))
  | ["magic"] =>
    match st.pkgs.find? (·.1 == str "runtime") with
    | some (_, g) => some (st, toString (runtimeHash st.cfg g (str "magic")))
    | none => some (st, if st.cfg.seed.isEmpty then "!panic" else toString (runtimeHash st.cfg [] (str "magic")))
  | ["entryoff"] =>
    match st.pkgs.find? (·.1 == str "runtime") with
    | some (_, g) => some (st, toString (runtimeHash st.cfg g (str "entryOffKey")))
    | none => some (st, if st.cfg.seed.isEmpty then "!panic" else toString (runtimeHash st.cfg [] (str "entryOffKey")))
  | ["encbuildid", h] => some (st, toHex (GV.Base64.encode (((unhex h) ++ List.replicate 32 0).take GV.Gen.buildIDHashLength)))
  | ["decbuildid", s] =>
    match GV.Base64.decode (unhex s) with
    | some b => some (st, if b.length == GV.Gen.buildIDHashLength then toHex b else "!panic")
    | none => some (st, "!panic")
  | _ => none

end GV.Driver
