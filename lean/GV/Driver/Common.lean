import GV.Model.Salt
/-
gvdriver: reads the oracle's operation lines on stdin and answers each with the model's result, in the
oracle's output format.  Core-only (links as a native executable).
-/
open GV GV.Salt GV.NameHash
namespace GV.Driver

def hexDigit (n : Nat) : Char := if n < 10 then Char.ofNat (48 + n) else Char.ofNat (87 + n)
def toHex (b : List UInt8) : String :=
  if b.isEmpty then "-" else String.ofList (b.flatMap fun x => [hexDigit (x.toNat / 16), hexDigit (x.toNat % 16)])
def hexVal (c : Char) : Nat :=
  if '0' ≤ c ∧ c ≤ '9' then c.toNat - 48 else if 'a' ≤ c ∧ c ≤ 'f' then c.toNat - 87 else 0
def unhex (s : String) : List UInt8 :=
  if s == "-" then [] else
  let rec go : List Char → List UInt8
    | a :: b :: rest => (hexVal a * 16 + hexVal b).toUInt8 :: go rest
    | _ => []
  go s.toList
def clsOf (s : String) : NameClass := if s == "1" then .exported else if s == "2" then .unexported else .notIdent
def optHex : Option (List UInt8) → String
  | some b => toHex b
  | none => "!panic"


def listOut (l : List (List UInt8)) : String :=
  toString l.length ++ String.join (l.map fun t => " " ++ toHex t)

structure St where
  cfg : Cfg := {}
  pkgs : List (List UInt8 × List UInt8) := []
  tmp : List UInt8 := []
  /-- listed packages: path, name, toObfuscate, garbleActionID, forTest -/
  lpkgs : List (List UInt8 × List UInt8 × Bool × List UInt8 × List UInt8) := []
  hidden : List (List UInt8) := []       -- listed, but not a dependency of the current package
  identPaths : List (List UInt8) := []   -- import paths that are Go identifiers (lower-case)

/-- a handler answers the ops it knows -/
abbrev Handler := St → List String → Option (St × String)

end GV.Driver
