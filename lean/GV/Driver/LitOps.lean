import GV.Driver.Common
import GV.Model.Literals
open GV GV.Literals
namespace GV.Driver

def opOf (s : String) : Op := if s == "a" then .add else if s == "s" then .sub else .xor


def pSlice : List String → Option (SliceLit × List String)
  | "S" :: h :: n :: rest =>
    let rec ops : Nat → List String → Option (List KeyOp × List String)
      | 0, r => some ([], r)
      | k + 1, i :: o :: ky :: sh :: r => (ops k r).map fun (l, r') => ({ idx := i.toNat!, op := opOf o, key := ky.toNat!, shift := sh.toNat! } :: l, r')
      | _, _ => none
    (ops n.toNat! rest).map fun (l, r) => ({ lit := unhex h, stmts := l }, r)
  | _ => none

def pByte : List String → Option (ByteExpr × List String)
  | "P" :: v :: r => some (.plain (UInt8.ofNat v.toNat!), r)
  | "K" :: v :: o :: k :: s :: r => some (.keyed (UInt8.ofNat v.toNat!) (opOf o) k.toNat! s.toNat!, r)
  | _ => none

def pMany {α} (p : List String → Option (α × List String)) : Nat → List String → Option (List α × List String)
  | 0, r => some ([], r)
  | k + 1, r => do
    let (a, r) ← p r
    let (l, r) ← pMany p k r
    pure (a :: l, r)

def pNats : Nat → List String → Option (List Nat × List String)
  | 0, r => some ([], r)
  | k + 1, x :: r => (pNats k r).map fun (l, r') => (x.toNat! :: l, r')
  | _, _ => none

def pCase : List String → Option (Case × List String)
  | i :: n :: "C" :: r => (pSlice r).map fun (s, r') => ({ index := i.toNat!, next := n.toNat!, chunk := .slice s }, r')
  | i :: n :: "O" :: r => (pByte r).map fun (b, r') => ({ index := i.toNat!, next := n.toNat!, chunk := .one b }, r')
  | _ => none

def pShArg : List String → Option (ShuffleArg × List String)
  | o :: a :: b :: k :: r => some ({ op := opOf o, a := a.toNat!, b := b.toNat!, ki := k.toNat! }, r)
  | _ => none

/-- decoder IR line -> decoded bytes under the given keys -/
def evalIR (keys : List ExtKey) : List String → Option Bytes
  | "simple" :: o :: r => do
    let (k, r) ← pSlice r
    let (d, _) ← pSlice r
    pure (SimpleDec.eval keys { op := opOf o, key := k, data := d })
  | "swap" :: o :: r => do
    let (d, r) ← pSlice r
    match r with
    | n :: r => do
      let (ps, r) ← pNats n.toNat! r
      let (sk, _) ← pByte r
      pure (SwapDec.eval keys { op := opOf o, data := d, positions := ps, shiftKey := sk })
    | _ => none
  | "seed" :: o :: r => do
    let (s, r) ← pByte r
    match r with
    | n :: r => do
      let (as, _) ← pMany pByte n.toNat! r
      pure (SeedDec.eval keys { op := opOf o, seed := s, args := as })
    | _ => none
  | "shuffle" :: r => do
    let (f, r) ← pSlice r
    let (ik, r) ← pSlice r
    match r with
    | n :: r => do
      let (as, _) ← pMany pShArg n.toNat! r
      pure (ShuffleDec.eval keys { fullData := f, idxKey := ik, args := as })
    | _ => none
  | "split" :: o :: st :: r => do
    let (k, r) ← pByte r
    match r with
    | di :: ex :: n :: r => do
      let (cs, _) ← pMany pCase n.toNat! r
      SplitDec.eval keys { op := opOf o, start := st.toNat!, decryptKey := k, decryptIndex := di.toNat!, exitIndex := ex.toNat!, cases := cs }
    | _ => none
  | _ => none

/-- walk the emitted state machine from `start` and list the visited cases in order (fuel = number of cases) -/
def splitChain (s : SplitDec) : Nat → Nat → List Case
  | 0, _ => []
  | f + 1, i => match s.cases.find? (·.index == i) with
    | some c => c :: splitChain s f c.next
    | none => []

def cutLike : List Nat → Bytes → List Bytes
  | [], _ => []
  | n :: ns, d => d.take n :: cutLike ns (d.drop n)

/-- tie of the ENCODER model: recover the draws (chunking, index permutation, initial key, operator) from the emitted
decoder and the plaintext, run `buildSplit` on them, and compare what it emits (start / decrypt / exit index, operator,
every case's successor and encrypted chunk) with the real obfuscator's output -/
def splitPlanCheck (keys : List ExtKey) (data : Bytes) (s : SplitDec) : String :=
  let chain := splitChain s s.cases.length s.start
  let idx := chain.map (·.index) ++ [s.decryptIndex, s.exitIndex]
  let lens := chain.map fun c => (c.chunk.eval keys).length
  let plan : SplitPlan := { chunks := cutLike lens data, indexes := idx, keyInit := s.decryptKey.eval keys, op := s.op.rev,
                            sliceOps := [], byteChoices := [], keyChoice := none }
  let m := buildSplit keys plan
  if chain.length != s.cases.length then "differs:chain-does-not-visit-every-case"
  else if plan.chunks.flatten != data then "differs:chunk-lengths"
  else if m.op != s.op then "differs:op"
  else if m.start != s.start || m.decryptIndex != s.decryptIndex || m.exitIndex != s.exitIndex then "differs:indexes"
  else if m.decryptKey.eval keys != s.decryptKey.eval keys then "differs:key"
  else
    let bad := (List.range chain.length).filter fun i =>
      match m.cases[i]?, chain[i]? with
      | some a, some b => a.index != b.index || a.next != b.next || a.chunk.eval keys != b.chunk.eval keys
      | _, _ => true
    if bad.isEmpty then "ok" else s!"differs:case-{bad.headD 0}"

def pKeys : Nat → List String → Option (List ExtKey × List String)
  | 0, r => some ([], r)
  | k + 1, b :: v :: r => (pKeys k r).map fun (l, r') => ({ bits := b.toNat!, value := v.toNat! } :: l, r')
  | _, _ => none

def litOps : Handler := fun st f =>
  match f with
  | "litm" :: nk :: rest =>
    match pKeys nk.toNat! rest with
    | some (keys, ir) =>
      match evalIR keys ir with
      | some d => some (st, toHex d)
      | none => some (st, "!eval-failed")
    | none => some (st, "!bad-keys")
  | "splitplanm" :: nk :: rest =>
    match pKeys nk.toNat! rest with
    | some (keys, dataHex :: "split" :: o :: stt :: r) =>
      let res : Option String := do
        let (k, r) ← pByte r
        match r with
        | di :: ex :: n :: r => do
          let (cs, _) ← pMany pCase n.toNat! r
          pure (splitPlanCheck keys (unhex dataHex) { op := opOf o, start := stt.toNat!, decryptKey := k, decryptIndex := di.toNat!, exitIndex := ex.toNat!, cases := cs })
        | _ => none
      some (st, res.getD "!bad-ir")
    | _ => some (st, "!bad-keys")
  | _ => none

end GV.Driver
