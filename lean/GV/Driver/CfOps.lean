import GV.Driver.Common
import GV.Model.Ctrlflow
import GV.Model.Cache
import GV.Model.Protocol
open GV GV.Ctrlflow
namespace GV.Driver

def cfNats (s : String) : List Nat := if s == "-" || s == "" then [] else (s.splitOn ",").map String.toNat!
def cfShow (l : List Nat) : String := if l.isEmpty then "-" else ",".intercalate (l.map toString)

def cfOps : Handler := fun st f =>
  match f with
  -- cffalsem v1 op v2 : is op one of the model's candidates, and does it evaluate to false?
  | ["cffalsem", v1, op, v2] =>
    match Cmp.ofCode? op with
    | some t =>
      let a := Int.ofNat v1.toNat!
      let b := Int.ofNat v2.toNat!
      some (st, (if (falseCandidates a b).contains t then "1" else "0") ++ (if t.eval a b then "T" else "F"))
    | none => some (st, "!bad-op")
  -- cfkeysm count black draws
  | ["cfkeysm", count, black, draws] =>
    match generateKeys count.toNat! (cfNats black) (cfNats draws) [] with
    | some ks => some (st, cfShow ks)
    | none => some (st, "none")
  -- cfxorm first second ks -> stores compares
  | ["cfxorm", first, second, ks] =>
    let h : XorH := { firstKey := first.toNat!, secondKey := cfNats second, ks := cfNats ks }
    let idx := List.range h.ks.length
    some (st, cfShow (idx.map h.store) ++ " " ++ cfShow (idx.map h.compare))
  -- cfdelegm key keyIdxs localKeys delegateIdx encrypted -> stores   (store = encrypted ^ delegateKey)
  | ["cfdelegm", key, keyIdxs, localKeys, dIdx, enc] =>
    let h : DelegateH := { key := cfNats key, keyIdxs := cfNats keyIdxs, localKeys := cfNats localKeys, delegateIdx := cfNats dIdx, ks := [] }
    let encs := cfNats enc
    some (st, cfShow ((List.range encs.length).map fun i => encs[i]! ^^^ h.delegateKey (h.delegateIdx[i]!)))
  -- cacheidsm gaid deps(,) kindCompile kindAsm -> pkg asm dbgcompile dbgasm  (sha256 of the model's key pre-images)
  | ["cacheidsm", gaid, deps, kc, ka] =>
    let g := unhex gaid
    let ds := if deps == "-" then [] else (deps.splitOn ",").map unhex
    let h := fun (b : List UInt8) => toHex (GV.Sha256.sumList b)
    some (st, " ".intercalate [h (GV.Cache.pkgCachePre g ds), h (GV.Cache.goAsmPre g), h (GV.Cache.debugPre g (unhex kc)), h (GV.Cache.debugPre g (unhex ka))])
  -- linkreusem stamp|none size|-1 goVersion patchesVer ; linkstampm size goVersion patchesVer
  | ["linkreusem", stamp, size, gv, pv] =>
    let stp : Option (List UInt8) := if stamp == "none" then none else some (unhex stamp)
    let sz : Option Nat := if size == "-1" then none else some size.toNat!
    some (st, if GV.Protocol.reusable stp sz (unhex gv) (unhex pv) then "1" else "0")
  | ["linkstampm", size, gv, pv] => some (st, toHex (GV.Protocol.stampFor (unhex gv) (unhex pv) size.toNat!))
  -- cachefaultm <fault> <data hex>: the store model: put, one fault, get
  | ["cachefaultm", fault, dat] =>
    let s0 : GV.Cache.Store Nat (List UInt8) := (GV.Cache.Store.empty).put 0 (unhex dat)
    let s1 := if fault == "none" then s0
      else if fault.startsWith "delete" then s0.fault (.delete 0)
      else s0.fault (.damage 0)           -- emptied, truncated, overwritten or extended entry files are damaged entries
    some (st, match s1.get 0 with
      | some v => "hit " ++ toHex v
      | none => "miss")
  | _ => none

end GV.Driver
