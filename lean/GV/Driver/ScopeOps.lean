import GV.Driver.Common
import GV.Model.Scope
open GV GV.Scope
namespace GV.Driver

def scopeOps : Handler := fun st f =>
  match f with
  | ["matchm", globs, target] => some (st, if matchPrefixPatterns (unhex globs) (unhex target) then "1" else "0")
  | ["toobfm", gg, path, name, forTest, nfiles] =>
    let p : Listed := { importPath := unhex path, name := unhex name, forTest := unhex forTest, nGoFiles := nfiles.toNat! }
    some (st, if toObfuscate (unhex gg) p then "1" else "0")
  | "nomatchm" :: gg :: rest =>
    let rec pk : List String → List Listed
      | path :: name :: forTest :: nfiles :: r => { importPath := unhex path, name := unhex name, forTest := unhex forTest, nGoFiles := nfiles.toNat! } :: pk r
      | _ => []
    some (st, if nothingMatchesError (unhex gg) (pk rest) then "1" else "0")
  | _ => none

end GV.Driver
