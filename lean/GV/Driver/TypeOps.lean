import GV.Driver.Common
import GV.Model.Types
import GV.Model.Salt
open GV GV.Types
namespace GV.Driver

-- parser for the comma-separated prefix type expressions emitted by the oracle (driver code, not reasoned about)
mutual
partial def parseTy : List String → Option (Ty × List String)
  | [] => none
  | tok :: rest =>
    if tok.startsWith "B" then some (.basic (tok.drop 1).toNat!, rest)
    else match tok with
    | "L" => match rest with
      | n :: rest => (parseTy rest).map fun (t, r) => (.alias (unhex n) t, r)
      | _ => none
    | "N" => match rest with
      | p :: n :: k :: rest => (parseTys k.toNat! rest).map fun (ts, r) => (.named (unhex p) (unhex n) ts, r)
      | _ => none
    | "P" => (parseTy rest).map fun (t, r) => (.ptr t, r)
    | "S" => (parseTy rest).map fun (t, r) => (.slice t, r)
    | "A" => match rest with
      | l :: rest => (parseTy rest).map fun (t, r) => (.array l.toNat! t, r)
      | _ => none
    | "M" => do
      let (k, r) ← parseTy rest
      let (v, r) ← parseTy r
      pure (.map k v, r)
    | "C" => match rest with
      | d :: rest => (parseTy rest).map fun (t, r) => (.chan d.toNat! t, r)
      | _ => none
    | "T" => match rest with
      | k :: rest => (parseFields k.toNat! rest).map fun (fs, r) => (.struct fs, r)
      | _ => none
    | "X" => match rest with
      | v :: np :: rest => do
        let (ps, r) ← parseTys np.toNat! rest
        match r with
        | nr :: r => do
          let (rs, r) ← parseTys nr.toNat! r
          pure (.func (v == "1") ps rs, r)
        | _ => none
      | _ => none
    | "I" => match rest with
      | n :: rest => some (.iface n.toNat!, rest)
      | _ => none
    | "G" => match rest with
      | i :: rest => some (.tparam i.toNat!, rest)
      | _ => none
    | _ => none
partial def parseTys : Nat → List String → Option (TyList × List String)
  | 0, r => some (.nil, r)
  | k + 1, r => do
    let (t, r) ← parseTy r
    let (ts, r) ← parseTys k r
    pure (.cons t ts, r)
partial def parseFields : Nat → List String → Option (FieldList × List String)
  | 0, r => some (.nil, r)
  | k + 1, r =>
    match r with
    | "F" :: n :: e :: p :: x :: g :: r => do
      let (t, r) ← parseTy r
      let (fs, r) ← parseFields k r
      pure (.cons (unhex n) (e == "1") (unhex p) (x == "1") (unhex g) t fs, r)
    | _ => none
end

def parseType (s : String) : Option Ty := (parseTy (s.splitOn ",")).map (·.1)

def fieldAt : FieldList → Nat → Option Bytes
  | .nil, _ => none
  | .cons n _ _ _ _ _ _, 0 => some n
  | .cons _ _ _ _ _ _ r, i + 1 => fieldAt r i

def typeOps : Handler := fun st f =>
  match f with
  | ["thash", s] =>
    match parseType s with
    | some (.struct fs) => some (st, toString (structSalt fs).toNat)
    | some _ => some (st, "nostruct")
    | none => some (st, "!parse")
  | ["tidentm", a, b] =>
    match parseType a, parseType b with
    | some ta, some tb => some (st, s!"{if goIdentical false ta tb then 1 else 0} {if goIdentical true ta tb then 1 else 0}")
    | _, _ => some (st, "!parse")
  | ["hfieldm", s, i, cls] =>
    match parseType s with
    | some (.struct fs) =>
      match fieldAt fs i.toNat! with
      | some name =>
        let r := (GV.Salt.structSaltBytes st.cfg (structSalt fs).toNat).bind fun salt =>
          GV.Salt.hashWithCustomSalt st.cfg salt name (clsOf cls)
        some (st, optHex r ++ " " ++ toHex name)
      | none => some (st, "nofield")
    | some _ => some (st, "nostruct")
    | none => some (st, "!parse")
  | _ => none

end GV.Driver
