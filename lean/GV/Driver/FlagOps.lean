import GV.Driver.Common
import GV.Model.Flags
open GV GV.Flags
namespace GV.Driver

def pairOut (p : List Tok × List Tok) : String := listOut p.1 ++ " | " ++ listOut p.2

def flagOps : Handler := fun st f =>
  match f with
  | "split" :: a => some (st, pairOut (garbleSplit garbleBools (a.map unhex)))
  | "filter" :: a =>
    let r := filterForward garbleFwd garbleBools (a.map unhex)
    some (st, listOut r.1 ++ " | " ++ toHex (r.2.getD []))
  | "chdirsplit" :: a => some (st, pairOut (splitChdir garbleBools (a.map unhex)))
  | "reject" :: a => some (st, if rejectUnknown garbleFwd garbleBools (a.map unhex) then "1" else "0")
  | "fval" :: n :: a => some (st, toHex (flagValue (unhex n) (a.map unhex)))
  | "fvals" :: n :: a => some (st, listOut (flagValues (unhex n) (a.map unhex)))
  | "fset" :: n :: v :: a => some (st, listOut (flagSetValue (unhex n) (unhex v) (a.map unhex)))
  | "splitfiles" :: e :: a => some (st, pairOut (splitFlagsFromFiles (unhex e) (a.map unhex)))
  | "trimpath" :: t :: a => some ({ st with tmp := unhex t }, listOut (alterTrimpath (unhex t) (a.map unhex)))
  | ["rxgarble", a] => some (st, if rxGarbleMatch garbleOwn (unhex a) then "1" else "0")
  | _ => none

end GV.Driver
