import GV.Driver.Common
import GV.Model.Naming
open GV GV.Naming GV.Salt GV.NameHash
namespace GV.Driver

def intrinsicTbl (path name : List UInt8) : Bool :=
  GV.Gen.compilerIntrinsics.any fun p => str p.1 == path && p.2.any fun n => str n == name

def mkEnv (st : St) : Env :=
  { cfg := st.cfg
    lookup := fun path =>
      match st.lpkgs.find? (fun p => p.1 == path) with
      | some (_, name, toObf, gaid, forTest) =>
        if st.hidden.contains path then .notDependency
        else .found { path := path, name := name, toObfuscate := toObf, gaid := gaid, forTest := forTest,
                      pathCls := if st.identPaths.contains path then .unexported else .notIdent }
      | none => .notFound
    intrinsic := intrinsicTbl }

def decisionOut : Decision → String
  | .keep => "keep"
  | .rename n => "rename:" ++ toHex n
  | .panic => "panic"

def kindOf (s : String) : Kind :=
  match s with
  | "field" => .field | "var" => .var | "type" => .typeName | "func" => .func | _ => .other

def pkgOf (st : St) (path : List UInt8) : Option Pkg :=
  match (mkEnv st).lookup path with
  | .found p => some p
  | _ => none

/-- class table passed along with linkname ops: pairs (hex name, class) -/
def clsTable : List String → List (List UInt8 × NameClass)
  | n :: c :: rest => (unhex n, clsOf c) :: clsTable rest
  | _ => []

def namingOps : Handler := fun st f =>
  match f with
  | ["lpkg", path, name, toObf, gaid, forTest] =>
    some ({ st with lpkgs := (unhex path, unhex name, toObf == "1", unhex gaid, unhex forTest) :: st.lpkgs.filter (·.1 != unhex path) }, "ok")
  | ["lpkgreset"] => some ({ st with lpkgs := [], hidden := [], identPaths := [] }, "ok")
  | "hidden" :: ps => some ({ st with hidden := ps.map unhex }, "ok")
  | "identpaths" :: ps => some ({ st with identPaths := ps.map unhex }, "ok")
  | ["decidem", kind, name, cls, path, hasRecv, testSig, structHash, emb] =>
    let o : Obj := { kind := kindOf kind, name := unhex name, cls := clsOf cls,
                     pkgPath := if path == "-" then none else some (unhex path),
                     hasRecv := hasRecv == "1", testSig := testSig == "1",
                     structHash := if structHash == "-" then none else some structHash.toNat! }
    let e : Embedded :=
      if emb == "-" then .no else if emb == "?" then .unnamed else
      match emb.splitOn "," with
      | [n, c, p] => .named (unhex n) (clsOf c) (if p == "-" then none else some (unhex p))
      | _ => .no
    some (st, decisionOut (decideIdent (mkEnv st) o e))
  | ["impathm", path] =>
    match pkgOf st (unhex path) with
    | some p => some (st, optHex (obfImportPath st.cfg p))
    | none => some (st, "!nopkg")
  | ["pkgnamem", path, cls] =>
    match pkgOf st (unhex path) with
    | some p => some (st, optHex (obfPackageName st.cfg p (clsOf cls)))
    | none => some (st, "!nopkg")
  | "linknamem" :: cur :: local_ :: lcls :: new :: tbl =>
    match pkgOf st (unhex cur) with
    | some p =>
      let t := clsTable tbl
      let co (n : List UInt8) : NameClass := match t.find? (·.1 == n) with | some (_, c) => c | none => .notIdent
      let l := directiveLocalName (mkEnv st) p (unhex local_) (clsOf lcls)
      let n := if new == "-" then some [] else linknameTarget (mkEnv st) co (unhex new)
      some (st, optHex l ++ " " ++ optHex n)
    | none => some (st, "!nopkg")
  | ["asmm", target, name, cls] =>
    match pkgOf st (unhex target) with
    | some p => some (st, optHex (asmSymbolPkg (mkEnv st) p (str "?")) ++ " " ++ optHex (asmSymbolName (mkEnv st) p (unhex name) (clsOf cls)))
    | none => some (st, "!nopkg")
  | ["ldxm", target, name, cls] =>
    match pkgOf st (unhex target) with
    | some p => some (st, optHex (ldflagsX (mkEnv st) p (unhex name) (clsOf cls)))
    | none => some (st, "!nopkg")
  | _ => none

end GV.Driver
