/-
URL-safe base64 without padding (`base64.RawURLEncoding` / `URLEncoding.WithPadding(NoPadding)`),
over `List UInt8`, written so that every output symbol is visibly `b64char (n % 64)`.
-/
namespace GV.Base64

/-- the URL alphabet: A-Z a-z 0-9 - _ -/
def b64char (n : Nat) : UInt8 :=
  if n < 26 then (65 + n).toUInt8
  else if n < 52 then (97 + (n - 26)).toUInt8
  else if n < 62 then (48 + (n - 52)).toUInt8
  else if n = 62 then 45
  else 95

/-- the sextets of a byte list, most significant first; a trailing partial group yields 2 or 3 sextets -/
def sextets : List UInt8 → List Nat
  | a :: b :: c :: rest =>
    let a := a.toNat; let b := b.toNat; let c := c.toNat
    (a / 4) % 64 :: ((a % 4) * 16 + b / 16) % 64 :: ((b % 16) * 4 + c / 64) % 64 :: c % 64 :: sextets rest
  | [a, b] =>
    let a := a.toNat; let b := b.toNat
    [(a / 4) % 64, ((a % 4) * 16 + b / 16) % 64, ((b % 16) * 4) % 64]
  | [a] =>
    let a := a.toNat
    [(a / 4) % 64, ((a % 4) * 16) % 64]
  | [] => []

def encode (bs : List UInt8) : List UInt8 := (sextets bs).map b64char

/-- inverse of `b64char` on the alphabet -/
def b64val (c : UInt8) : Option Nat :=
  if 65 ≤ c ∧ c ≤ 90 then some (c.toNat - 65)
  else if 97 ≤ c ∧ c ≤ 122 then some (c.toNat - 97 + 26)
  else if 48 ≤ c ∧ c ≤ 57 then some (c.toNat - 48 + 52)
  else if c = 45 then some 62
  else if c = 95 then some 63
  else none

/-- decoding of full 4-symbol groups plus a 2- or 3-symbol tail (RawURLEncoding.DecodeString; non-canonical
trailing bits are accepted like Go's non-strict decoder) -/
def decodeVals : List Nat → Option (List UInt8)
  | a :: b :: c :: d :: rest => do
    let r ← decodeVals rest
    pure ((a * 4 + b / 16).toUInt8 :: ((b % 16) * 16 + c / 4).toUInt8 :: ((c % 4) * 64 + d).toUInt8 :: r)
  | [a, b, c] => some [(a * 4 + b / 16).toUInt8, ((b % 16) * 16 + c / 4).toUInt8]
  | [a, b] => some [(a * 4 + b / 16).toUInt8]
  | [_] => none
  | [] => some []

def decode (cs : List UInt8) : Option (List UInt8) := do
  let vs ← cs.mapM b64val
  decodeVals vs

end GV.Base64

namespace GV.Base64
/-- the standard alphabet (`base64.RawStdEncoding`): `+` and `/` instead of `-` and `_` -/
def b64charStd (n : Nat) : UInt8 := if n = 62 then 43 else if n = 63 then 47 else b64char n
def encodeStd (bs : List UInt8) : List UInt8 := (sextets bs).map b64charStd
def b64valStd (c : UInt8) : Option Nat :=
  if c = 43 then some 62 else if c = 47 then some 63 else if c = 45 ∨ c = 95 then none else b64val c
/-- `RawStdEncoding.DecodeString`: CR and LF are skipped, trailing bits are not checked (non-strict) -/
def decodeStd (cs : List UInt8) : Option (List UInt8) := do
  let vs ← (cs.filter (fun c => c != 13 && c != 10)).mapM b64valStd
  decodeVals vs
end GV.Base64
