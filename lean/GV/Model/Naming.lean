import GV.Model.Salt
import GV.Gen.StdTables
/-
Model of garble's naming decisions:
  * `decideObj`     — `obfuscatedObjectName` (transformer.go), the single decision point used for every identifier
                      occurrence, by `garble map` and by `garble reverse`;
  * `obfImportPath`, `obfPackageName` — cache_shared.go:341-404;
and, SEPARATELY, the re-implementations of the same decisions elsewhere in the code:
  * `linknameRewrite` — `transformLinkname` / `directiveLocalName` (//go:linkname and cgo directives),
  * `asmSymbol`       — the naming part of `replaceAsmNames` (assembly symbols),
  * `goAsmField`      — `saveGoAsmNames` (go_asm.h offset constants),
  * `ldflagsX`        — the `-X` duplication in `transformLink`.
The agreement theorems of Props/C01 relate each of these to `decideObj`.
-/
namespace GV.Naming
open GV.Salt GV.NameHash

inductive Kind | field | var | typeName | func | other    -- other: constants, labels, package names, builtins, nil
  deriving DecidableEq, Repr

structure Obj where
  kind : Kind
  name : Bytes
  cls : NameClass                 -- token.IsIdentifier / IsExported of `name`
  pkgPath : Option Bytes          -- `none`: universe scope
  hasRecv : Bool := false         -- for funcs: a method (concrete or interface)
  testSig : Bool := false         -- for funcs: signature is func(*testing.T)
  structHash : Option Nat := none -- for fields: typeutil_hash(fieldToStruct[origin]); `none` = no struct recorded (garble panics)
  deriving Repr

structure Pkg where
  path : Bytes
  name : Bytes
  toObfuscate : Bool
  gaid : Bytes                    -- GarbleActionID
  forTest : Bytes := []
  pathCls : NameClass := .notIdent   -- go/token class of `path` (one-word std paths are identifiers)
  deriving Repr, DecidableEq

inductive Lookup | found (p : Pkg) | notFound | notDependency

structure Env where
  cfg : Cfg
  lookup : Bytes → Lookup                 -- `listPackage(curPkg, path)`
  intrinsic : Bytes → Bytes → Bool         -- `compilerIntrinsics[path][name]`

inductive Decision | keep | rename (name : Bytes) | panic
  deriving DecidableEq, Repr

def ofOpt : Option Bytes → Decision
  | some n => .rename n
  | none => .panic

def hasSuffix (suf s : Bytes) : Bool := suf.isSuffixOf s
def hasPrefix (pre s : Bytes) : Bool := pre.isPrefixOf s

/-- names matched by path and name before anything else (transformer.go:1264-1296) -/
def specialKeep (path name : Bytes) : Bool :=
  ((path == str "sync/atomic" || path == str "runtime/internal/atomic") && name == str "align64") ||
  (path == str "embed" && name == str "FS") ||
  (path == str "reflect" && (name == str "Method" || name == str "MethodByName")) ||
  (path == str "crypto/x509/pkix" && hasSuffix (str "SET") name)

def pkgHash (env : Env) (p : Pkg) (name : Bytes) (cls : NameClass) : Decision :=
  ofOpt (hashWithPackage env.cfg p.path p.gaid name cls)

def fieldHash (env : Env) (structHash : Nat) (name : Bytes) (cls : NameClass) : Decision :=
  ofOpt ((structSaltBytes env.cfg structHash).bind fun s => hashWithCustomSalt env.cfg s name cls)

/-- `obfuscatedObjectName` -/
def decideObj (env : Env) (o : Obj) : Decision :=
  match o.pkgPath with
  | none => .keep
  | some path =>
    if specialKeep path o.name then .keep else
    match env.lookup path with
    | .notFound => .panic
    | .notDependency => .panic
    | .found lpkg =>
      if !lpkg.toObfuscate then .keep else
      match o.kind with
      | .field =>
        match o.structHash with
        | none => .panic
        | some h => fieldHash env h o.name o.cls
      | .var => pkgHash env lpkg o.name o.cls
      | .typeName => pkgHash env lpkg o.name o.cls
      | .func =>
        if env.intrinsic path o.name then .keep
        else if o.cls == .exported && o.hasRecv then .keep
        else if o.name == str "main" || o.name == str "init" || o.name == str "TestMain" then .keep
        else if hasPrefix (str "Test") o.name && o.testSig then .keep
        else pkgHash env lpkg o.name o.cls
      | .other => .keep

/-- what an embedded field is named after -/
inductive Embedded
  | no                                                    -- not an embedded field
  | unnamed                                               -- embedded predeclared type such as `int`: left alone
  | named (name : Bytes) (cls : NameClass) (pkgPath : Option Bytes)   -- the type (or alias) name
  deriving Repr

/-- the decision for an identifier's object as every caller gets it (`obfuscatedObjectName` including its first
step): an embedded field is obfuscated as the type it is named after -/
def decideIdent (env : Env) (o : Obj) (emb : Embedded) : Decision :=
  match emb with
  | .no => decideObj env o
  | .unnamed => .keep
  | .named n c p => decideObj env { kind := .typeName, name := n, cls := c, pkgPath := p }

def fixedPath (path : Bytes) : Bool :=
  GV.Gen.fixedImportPaths.any (fun s => str s == path) ||
  GV.Gen.compilerIntrinsics.any (fun p => str p.1 == path) ||
  GV.Gen.runtimeAndLinknamed.any (fun s => str s == path)

/-- `obfuscatedImportPath`; `p.pathCls` is the go/token class of the import path string itself (a one-word path such
as `bufio` is an identifier, so its hash keeps a lower-case first letter) -/
def obfImportPath (cfg : Cfg) (p : Pkg) : Option Bytes :=
  if p.name == str "main" && p.forTest.isEmpty then some (str "main")
  else if !p.toObfuscate then some p.path
  else if fixedPath p.path then some p.path
  else hashWithPackage cfg p.path p.gaid p.path p.pathCls

/-- `obfuscatedPackageName` -/
def obfPackageName (cfg : Cfg) (p : Pkg) (cls : NameClass) : Option Bytes :=
  if p.name == str "main" || !p.toObfuscate then some p.name
  else hashWithPackage cfg p.path p.gaid p.name cls

/-! ### //go:linkname (the duplicated logic) -/

/-- all ways of cutting `s` at a dot: (text before the dot, text after it), leftmost first -/
def dotSplits : Bytes → List (Bytes × Bytes)
  | [] => []
  | c :: r =>
    (if c == 46 then [([], r)] else []) ++ (dotSplits r).map fun (a, b) => (c :: a, b)

inductive Target | resolved (p : Pkg) (foreign : Bytes) | unchanged

/-- the loop of `transformLinkname` that looks for a known package prefix -/
def resolveTarget (env : Env) : List (Bytes × Bytes) → Target
  | [] => .unchanged
  | (pkgPath, rest) :: more =>
    if hasSuffix (str "_test") pkgPath then resolveTarget env more
    else match env.lookup pkgPath with
      | .found p => .resolved p rest
      | .notFound => resolveTarget env more
      | .notDependency => .unchanged

/-- `strings.Cut(foreignName, ".")` -/
def cutDot (s : Bytes) : Option (Bytes × Bytes) := (dotSplits s).head?

/-- `directiveLocalName` -/
def directiveLocalName (env : Env) (cur : Pkg) (local_ : Bytes) (cls : NameClass) : Option Bytes :=
  if cur.toObfuscate && !env.intrinsic cur.path local_ then hashWithPackage env.cfg cur.path cur.gaid local_ cls
  else some local_

/-- `(*T)` ↦ `T` (the two `strings.Cut…` calls on the receiver) -/
def stripPtrRecv (recv : Bytes) : Option Bytes :=
  if hasPrefix [40, 42] recv then
    let r := recv.drop 2
    some (if hasSuffix [41] r then r.take (r.length - 1) else r)
  else none

def recvRewrite (h : Bytes → Option Bytes) (recv : Bytes) : Option Bytes :=
  match stripPtrRecv recv with
  | some r => (h r).map fun x => [40, 42] ++ x ++ [41]
  | none => h recv

def isSpecialLinkname (newName : Bytes) : Bool :=
  newName == str "main.main" || newName == str "main..inittask" || newName == str "runtime..inittask"

/-- the new second field of a `//go:linkname local pkg.name` directive; `clsOf` classifies identifiers (go/token) -/
def linknameTarget (env : Env) (clsOf : Bytes → NameClass) (newName : Bytes) : Option Bytes :=
  if !(newName.contains 46) then some newName
  else if isSpecialLinkname newName then some newName
  else match resolveTarget env (dotSplits newName) with
    | .unchanged => some newName
    | .resolved lpkg foreign =>
      if !lpkg.toObfuscate || env.intrinsic lpkg.path foreign then some newName
      else
        let h (n : Bytes) := hashWithPackage env.cfg lpkg.path lpkg.gaid n (clsOf n)
        let newForeign : Option Bytes :=
          match cutDot foreign with
          | some (recv, name) =>
            let recv' : Option Bytes := recvRewrite h recv
            let name' : Option Bytes := if clsOf name == .exported then some name else h name
            do let a ← recv'; let b ← name'; pure (a ++ [46] ++ b)
          | none => h foreign
        do let ip ← obfImportPath env.cfg lpkg; let nf ← newForeign; pure (ip ++ [46] ++ nf)

/-! ### assembly symbols, go_asm.h names, -ldflags=-X (the duplicated logic) -/

/-- name part of `replaceAsmNames` for a reference `pkg·name` resolved to package `lpkg` -/
def asmSymbolName (env : Env) (lpkg : Pkg) (name : Bytes) (cls : NameClass) : Option Bytes :=
  if lpkg.toObfuscate && !env.intrinsic lpkg.path name then hashWithPackage env.cfg lpkg.path lpkg.gaid name cls
  else some name

/-- package part of `replaceAsmNames` for a qualified reference written `asmPkg` -/
def asmSymbolPkg (env : Env) (lpkg : Pkg) (asmPkg : Bytes) : Option Bytes :=
  if lpkg.toObfuscate then obfImportPath env.cfg lpkg else some asmPkg

/-- `saveGoAsmNames` for field `f` (with `embType` = decision for the embedded type's name when embedded and named):
the obfuscated replacement of `T_f` is `obf(T) ++ "_" ++ this` -/
def goAsmFieldName (env : Env) (structHash : Nat) (fname : Bytes) (fcls : NameClass)
    (embedded : Bool) (embType : Option Decision) : Decision :=
  if embedded then
    match embType with
    | some (.rename n) => .rename n
    | some .panic => .panic
    | _ => .rename fname
  else fieldHash env structHash fname fcls

/-- `-X=path.name=value` duplication in `transformLink`: the added flag's `path.name` part -/
def ldflagsX (env : Env) (lpkg : Pkg) (name : Bytes) (cls : NameClass) : Option Bytes := do
  let ip ← obfImportPath env.cfg lpkg
  let n ← hashWithPackage env.cfg lpkg.path lpkg.gaid name cls
  pure (ip ++ [46] ++ n)

end GV.Naming
