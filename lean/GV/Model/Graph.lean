/-
Reachability certificates over a finite directed graph given as an edge list.

A set of nodes is a `Nat` bitmask (`Nat.testBit`, which the kernel evaluates on GMP numbers).  If the mask is closed
under every edge, every path that starts inside the mask stays inside it; so a mask that contains the start nodes and
misses the targets proves that no path exists.  The mask itself is untrusted input (computed by the translator): only
the closure check, evaluated by the kernel over the regenerated edge list, is used.
-/
namespace GV.Graph

abbrev Edge := Nat × Nat

def okEdge (m : Nat) (e : Edge) : Bool := !m.testBit e.1 || m.testBit e.2

/-- the mask is closed under the edges -/
def closed (m : Nat) (es : List Edge) : Bool := es.all (okEdge m)

inductive Path (es : List Edge) : Nat → Nat → Prop
  | refl (a : Nat) : Path es a a
  | step {a b c : Nat} : (a, b) ∈ es → Path es b c → Path es a c

theorem closed_append (m : Nat) (es fs : List Edge) : closed m (es ++ fs) = (closed m es && closed m fs) := by
  simp [closed, List.all_append]

theorem closed_edge {m : Nat} {es : List Edge} (h : closed m es = true) {a b : Nat} (he : (a, b) ∈ es)
    (ha : m.testBit a = true) : m.testBit b = true := by
  have := (List.all_eq_true.mp h) (a, b) he
  simp [okEdge, ha] at this
  exact this

/-- **soundness of the certificate** -/
theorem closed_path {m : Nat} {es : List Edge} (h : closed m es = true) {a b : Nat} (p : Path es a b)
    (ha : m.testBit a = true) : m.testBit b = true := by
  induction p with
  | refl a => exact ha
  | step he _ ih => exact ih (closed_edge h he ha)

/-- no path from inside a closed mask to a node outside it -/
theorem no_path_out {m : Nat} {es : List Edge} (h : closed m es = true) {a b : Nat}
    (ha : m.testBit a = true) (hb : m.testBit b = false) : ¬ Path es a b := by
  intro p
  have := closed_path h p ha
  simp [hb] at this

/-- a list of nodes forms a path when consecutive nodes are joined by edges -/
def isChain (es : List Edge) : List Nat → Bool
  | a :: b :: rest => es.contains (a, b) && isChain es (b :: rest)
  | _ => true

theorem chain_path (es : List Edge) : ∀ (l : List Nat) (a b : Nat), isChain es (a :: l) = true →
    (a :: l).getLast? = some b → Path es a b
  | [], a, b, _, hl => by simp at hl; subst hl; exact .refl a
  | c :: rest, a, b, h, hl => by
    simp only [isChain, Bool.and_eq_true] at h
    have he : (a, c) ∈ es := by simpa using h.1
    have hl' : (c :: rest).getLast? = some b := by simpa [List.getLast?_cons_cons] using hl
    exact .step he (chain_path es rest c b h.2 hl')

end GV.Graph
