import GV.Gen.Consts
import GV.Model.Base64
import GV.Model.Sha256
/-
Model of `hashWithCustomSalt` (hash.go:324-379), split into
  * `encodeName sum cls` : everything after the SHA-256 call, for an arbitrary digest `sum`,
  * `hashName salt seed name cls = encodeName (sha256 (salt ++ seed ++ name)) cls`.
`cls` is the result of `token.IsIdentifier` / `token.IsExported` on the original name; it is computed by the
Go standard library in the correspondence harness (not garble code), so no Unicode tables are needed here.
-/
namespace GV.NameHash
open GV.Gen GV.Base64

inductive NameClass | notIdent | exported | unexported
  deriving DecidableEq, Repr

def isDigit (b : UInt8) : Bool := 48 ≤ b && b ≤ 57
def isLower (b : UInt8) : Bool := 97 ≤ b && b ≤ 122
def isUpper (b : UInt8) : Bool := 65 ≤ b && b ≤ 90
def isLetter (b : UInt8) : Bool := isLower b || isUpper b
/-- characters allowed in an obfuscated name: letters, digits, underscore -/
def isNameChar (b : UInt8) : Bool := isLetter b || isDigit b || b == 95
/-- may start a Go identifier (ASCII) -/
def isNameStart (b : UInt8) : Bool := isLetter b || b == 95

/-- `if isDigit(b64Name[0]) { b64Name[0] += 'A' - '0' }` -/
def fixDigit (c : UInt8) : UInt8 := if isDigit c then c + 17 else c
/-- `if b == '-' { b64Name[i] = 'a' }` -/
def fixDash (c : UInt8) : UInt8 := if c == 45 then 97 else c
/-- the exported / unexported adjustment of the first byte -/
def caseAdjust (cls : NameClass) (c : UInt8) : UInt8 :=
  match cls with
  | .notIdent => c
  | .exported => if c == 95 then 90 else if isLower c then c - 32 else c
  | .unexported => if isUpper c then c + 32 else c

def hashLength (sum : List UInt8) : Nat :=
  minHashLength + (sum.getD neededSumBytes 0).toNat % ((maxHashLength - minHashLength) + 1)

/-- the first byte after all three fix-ups, in the order the code applies them -/
def fixFirst (cls : NameClass) (c : UInt8) : UInt8 := caseAdjust cls (fixDash (fixDigit c))

def encodeName (sum : List UInt8) (cls : NameClass) : List UInt8 :=
  match (encode (sum.take neededSumBytes)).take (hashLength sum) with
  | [] => []
  | c :: rest => fixFirst cls c :: rest.map fixDash

def hashName (salt seed name : List UInt8) (cls : NameClass) : List UInt8 :=
  encodeName (GV.Sha256.sumList (salt ++ seed ++ name)) cls

end GV.NameHash
