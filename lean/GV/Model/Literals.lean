/-
Model of garble's literal obfuscators (internal/literals): for each of the five strategies
  * the parameters it draws (`…Params`, the random choices made explicit),
  * `build…` : what the Go code computes at obfuscation time — the decoder IR it emits for a plaintext,
  * `eval…`  : the meaning of the emitted decoder (what the generated Go code computes at run time).
The decoder IR has one constructor per emitted shape; its correspondence to the emitted Go syntax is checked by
the harness (tools/gvgen litparse) and by compiling and running the emitted code.
Bytes are `UInt8`, arithmetic wraps like Go's `byte`.
-/
namespace GV.Literals

abbrev Bytes := List UInt8

inductive Op | xor | add | sub
  deriving DecidableEq, Repr

/-- `evalOperator` -/
def Op.eval : Op → UInt8 → UInt8 → UInt8
  | .xor, x, y => x ^^^ y
  | .add, x, y => x + y
  | .sub, x, y => x - y

/-- `operatorToReversedBinaryExpr`: the operator written into the decoder -/
def Op.rev : Op → Op
  | .xor => .xor
  | .add => .sub
  | .sub => .add

/-- an external key as passed to the lambda: its declared width and value (already masked to the width) -/
structure ExtKey where
  bits : Nat
  value : Nat
  deriving Repr, DecidableEq

/-- `byte(key >> (b*8))`; the parameter has type uintN with N = bits, the generator used the uint64 value -/
def ExtKey.byteAt (k : ExtKey) (b : Nat) : UInt8 := UInt8.ofNat ((k.value >>> (b * 8)) % 256)

/-- one statement `data[idx] = data[idx] <op> byte(key >> shift*8)` -/
structure KeyOp where
  idx : Nat
  op : Op            -- the operator AS WRITTEN in the statement
  key : Nat          -- index into the key list
  shift : Nat
  deriving Repr, DecidableEq

def keyByte (keys : List ExtKey) (k shift : Nat) : UInt8 := ((keys[k]?).getD ⟨8, 0⟩).byteAt shift

def setAt (d : Bytes) (i : Nat) (v : UInt8) : Bytes := d.set i v
def getAt (d : Bytes) (i : Nat) : UInt8 := d.getD i 0

def applyKeyOp (keys : List ExtKey) (d : Bytes) (o : KeyOp) : Bytes :=
  setAt d o.idx (o.op.eval (getAt d o.idx) (keyByte keys o.key o.shift))

/-- a byte-slice literal hidden behind external keys (`dataToByteSliceWithExtKeys`): the literal bytes and the
statements in the order they are emitted (i.e. executed) -/
structure SliceLit where
  lit : Bytes
  stmts : List KeyOp
  deriving Repr, DecidableEq

def SliceLit.eval (keys : List ExtKey) (s : SliceLit) : Bytes := s.stmts.foldl (applyKeyOp keys) s.lit

/-- what the generator does: the draws are `ops` (idx, ENCODING operator, key, shift) in generation order; it applies
them to the data in place and emits the reversed operators in reversed order -/
def buildSliceLit (keys : List ExtKey) (data : Bytes) (ops : List KeyOp) : SliceLit :=
  { lit := ops.foldl (applyKeyOp keys) data
    stmts := (ops.map fun o => { o with op := o.op.rev }).reverse }

/-- a single byte, possibly hidden behind an external key (`byteLitWithExtKey`) -/
inductive ByteExpr
  | plain (v : UInt8)
  | keyed (newVal : UInt8) (op : Op) (key shift : Nat)     -- byte(newVal) <op> byte(key >> shift*8), op as written
  deriving Repr, DecidableEq

def ByteExpr.eval (keys : List ExtKey) : ByteExpr → UInt8
  | .plain v => v
  | .keyed nv op k sh => op.eval nv (keyByte keys k sh)

/-- the generator's choice for one byte: `none` = plain literal, `some (op, key, shift)` with the ENCODING operator -/
def buildByteExpr (keys : List ExtKey) (v : UInt8) : Option (Op × Nat × Nat) → ByteExpr
  | none => .plain v
  | some (op, k, sh) => .keyed (op.eval v (keyByte keys k sh)) op.rev k sh

/-! ### simple -/

structure SimpleDec where
  op : Op                 -- as written in `data[i] = data[i] <op> b`
  key : SliceLit
  data : SliceLit
  deriving Repr, DecidableEq

def zipOp (op : Op) : Bytes → Bytes → Bytes
  | d :: ds, k :: ks => op.eval d k :: zipOp op ds ks
  | ds, [] => ds
  | [], _ => []

/-- `for i, b := range key { data[i] = data[i] <op> b }` (key and data have equal length in every emitted program) -/
def SimpleDec.eval (keys : List ExtKey) (s : SimpleDec) : Bytes := zipOp s.op (s.data.eval keys) (s.key.eval keys)

def buildSimple (keys : List ExtKey) (data key : Bytes) (op : Op) (keyOps dataOps : List KeyOp) : SimpleDec :=
  { op := op.rev
    key := buildSliceLit keys key keyOps
    data := buildSliceLit keys (zipOp op data key) dataOps }

/-! ### seed -/

structure SeedDec where
  op : Op                 -- as written in `x <op> seed`
  seed : ByteExpr
  args : List ByteExpr
  deriving Repr, DecidableEq

/-- `fnc(x)`: data = append(data, x <op> seed); seed += x -/
def seedRun (op : Op) : UInt8 → Bytes → Bytes
  | _, [] => []
  | s, x :: xs => op.eval x s :: seedRun op (s + x) xs

def SeedDec.eval (keys : List ExtKey) (s : SeedDec) : Bytes :=
  seedRun s.op (s.seed.eval keys) (s.args.map (ByteExpr.eval keys))

/-- the encoder's running seed: encB = b <op> seed; seed += encB -/
def seedEnc (op : Op) : UInt8 → Bytes → Bytes
  | _, [] => []
  | s, b :: bs => op.eval b s :: seedEnc op (s + op.eval b s) bs

def zipBuild (keys : List ExtKey) : Bytes → List (Option (Op × Nat × Nat)) → List ByteExpr
  | v :: vs, c :: cs => buildByteExpr keys v c :: zipBuild keys vs cs
  | v :: vs, [] => .plain v :: zipBuild keys vs []
  | [], _ => []

def buildSeed (keys : List ExtKey) (data : Bytes) (seed : UInt8) (op : Op) (seedChoice : Option (Op × Nat × Nat))
    (choices : List (Option (Op × Nat × Nat))) : SeedDec :=
  { op := op.rev
    seed := buildByteExpr keys seed seedChoice
    args := zipBuild keys (seedEnc op seed data) choices }

/-! ### swap -/

structure SwapDec where
  op : Op                 -- as written
  data : SliceLit
  positions : List Nat
  shiftKey : ByteExpr
  deriving Repr, DecidableEq

def localKey (i p q : Nat) (shift : UInt8) : UInt8 := UInt8.ofNat (i % 256) + UInt8.ofNat ((p ^^^ q) % 256) + shift

/-- one swap step with operator `op` at pair index `i` (Go's tuple assignment: both right-hand sides are evaluated
first, then the stores happen left to right) -/
def swapStep (op : Op) (shift : UInt8) (d : Bytes) (i p q : Nat) : Bytes :=
  let k := localKey i p q shift
  let a := op.eval (getAt d q) k
  let b := op.eval (getAt d p) k
  setAt (setAt d p a) q b

/-- the decoder loop: i = 0, 2, 4, … over the position pairs -/
def swapDecode (op : Op) (shift : UInt8) : Nat → List Nat → Bytes → Bytes
  | i, p :: q :: rest, d => swapDecode op shift (i + 2) rest (swapStep op shift d i p q)
  | _, _, d => d

def SwapDec.eval (keys : List ExtKey) (s : SwapDec) : Bytes :=
  swapDecode s.op (s.shiftKey.eval keys) 0 s.positions (s.data.eval keys)

/-- the encoder loop: i = len-2 down to 0 — written as a recursion that processes the LAST pair first -/
def swapEncode (op : Op) (shift : UInt8) : Nat → List Nat → Bytes → Bytes
  | i, p :: q :: rest, d => swapStep op shift (swapEncode op shift (i + 2) rest d) i p q
  | _, _, d => d

def buildSwap (keys : List ExtKey) (data : Bytes) (positions : List Nat) (shift : UInt8) (op : Op)
    (dataOps : List KeyOp) (shiftChoice : Option (Op × Nat × Nat)) : SwapDec :=
  { op := op.rev
    data := buildSliceLit keys (swapEncode op shift 0 positions data) dataOps
    positions := positions
    shiftKey := buildByteExpr keys shift shiftChoice }

/-! ### shuffle -/

structure ShuffleArg where
  op : Op          -- as written
  a : Nat          -- the integer literal XORed with int(idxKey[ki]) to index the data byte
  b : Nat          -- same for the key byte
  ki : Nat
  deriving Repr, DecidableEq

structure ShuffleDec where
  fullData : SliceLit
  idxKey : SliceLit
  args : List ShuffleArg
  deriving Repr, DecidableEq

def ShuffleDec.eval (keys : List ExtKey) (s : ShuffleDec) : Bytes :=
  let fd := s.fullData.eval keys
  let ik := s.idxKey.eval keys
  s.args.map fun g =>
    let k := (getAt ik g.ki).toNat
    g.op.eval (getAt fd (g.a ^^^ k)) (getAt fd (g.b ^^^ k))

/-- place `fullData[i]` at `perm[i]` -/
def scatter (perm : List Nat) (full : Bytes) : Bytes :=
  (List.range full.length).foldl (fun acc i => setAt acc (perm.getD i 0) (getAt full i)) (List.replicate full.length 0)

def buildShuffle (keys : List ExtKey) (data key idxKey : Bytes) (ops : List Op) (perm : List Nat) (kis : List Nat)
    (fullOps idxOps : List KeyOp) : ShuffleDec :=
  let n := data.length
  let enc := (List.range n).map fun i => (ops.getD i .xor).eval (getAt data i) (getAt key i)
  let full := enc ++ key
  { fullData := buildSliceLit keys (scatter perm full) fullOps
    idxKey := buildSliceLit keys idxKey idxOps
    args := (List.range n).map fun i =>
      let ki := kis.getD i 0
      let k := (getAt idxKey ki).toNat
      { op := (ops.getD i .xor).rev, a := perm.getD i 0 ^^^ k, b := perm.getD (n + i) 0 ^^^ k, ki := ki } }

/-! ### split -/

inductive Chunk
  | slice (s : SliceLit)
  | one (b : ByteExpr)
  deriving Repr, DecidableEq

def Chunk.eval (keys : List ExtKey) : Chunk → Bytes
  | .slice s => s.eval keys
  | .one b => [b.eval keys]

/-- a case of the state machine: on state `index`, append `chunk` and go to `next` -/
structure Case where
  index : Nat
  next : Nat
  chunk : Chunk
  deriving Repr, DecidableEq

structure SplitDec where
  op : Op                    -- as written in the decrypt case
  start : Nat                -- i := indexes[0]
  decryptKey : ByteExpr      -- initial decryptKey (as int)
  decryptIndex : Nat
  exitIndex : Nat
  cases : List Case
  deriving Repr, DecidableEq

/-- `data[y] = data[y] <op> byte(decryptKey ^ y)` for every y -/
def decryptAll (op : Op) (key : Nat) (d : Bytes) : Bytes :=
  (d.zipIdx).map fun (b, y) => op.eval b (UInt8.ofNat ((key ^^^ y) % 256))

/-- the `for counter := 0; i != exit; counter++` loop, with fuel -/
def splitRun (s : SplitDec) (keys : List ExtKey) : Nat → Nat → Nat → Nat → Bytes → Option Bytes
  | 0, _, _, _, _ => none
  | fuel + 1, i, counter, dk, data =>
    if i == s.exitIndex then some data
    else
      let dk' := dk ^^^ (i * counter)
      if i == s.decryptIndex then splitRun s keys fuel s.exitIndex (counter + 1) dk' (decryptAll s.op dk' data)
      else match s.cases.find? (·.index == i) with
        | some c => splitRun s keys fuel c.next (counter + 1) dk' (data ++ c.chunk.eval keys)
        | none => none      -- no case matches: the generated switch would loop forever

def SplitDec.eval (keys : List ExtKey) (s : SplitDec) : Option Bytes :=
  splitRun s keys (s.cases.length + 3) s.start 0 (s.decryptKey.eval keys).toNat []

/-! ### split: the encoder (split.go `obfuscate`) -/

/-- `encryptChunks`: the byte at global offset `off` is combined with `key ^ byte(off)` -/
def encFrom (op : Op) (key : UInt8) : Nat → Bytes → Bytes
  | _, [] => []
  | off, b :: r => op.eval b (key ^^^ UInt8.ofNat off) :: encFrom op key (off + 1) r

def encChunks (op : Op) (key : UInt8) : Nat → List Bytes → List Bytes
  | _, [] => []
  | off, c :: cs => encFrom op key off c :: encChunks op key (off + c.length) cs

/-- `decryptKey ^= byte(index * i)` over the first `k` indexes -/
def splitKeyUpTo (keyInit : UInt8) (idx : List Nat) : Nat → UInt8
  | 0 => keyInit
  | k + 1 => splitKeyUpTo keyInit idx k ^^^ UInt8.ofNat (idx.getD k 0 * k)

/-- the draws of one run of the split obfuscator -/
structure SplitPlan where
  chunks : List Bytes                              -- plaintext chunks in order (random or one-byte chunks)
  indexes : List Nat                               -- rand.Perm(len(chunks)+2)
  keyInit : UInt8                                  -- byte(rand.Uint32())
  op : Op                                          -- randOperator
  sliceOps : List (List KeyOp)                     -- ext-key operations of the chunk literals (multi-byte chunks)
  byteChoices : List (Option (Op × Nat × Nat))     -- ext-key choice of one-byte chunks
  keyChoice : Option (Op × Nat × Nat)              -- ext-key choice of the decryptKey literal

def chunkLit (keys : List ExtKey) (e : Bytes) (ops : List KeyOp) (choice : Option (Op × Nat × Nat)) : Chunk :=
  match e with
  | [b] => .one (buildByteExpr keys b choice)
  | _ => .slice (buildSliceLit keys e ops)

def buildSplit (keys : List ExtKey) (p : SplitPlan) : SplitDec :=
  let n := p.chunks.length
  let key := splitKeyUpTo p.keyInit p.indexes (n + 1)
  let enc := encChunks p.op key 0 p.chunks
  { op := p.op.rev
    start := p.indexes.getD 0 0
    decryptKey := buildByteExpr keys p.keyInit p.keyChoice
    decryptIndex := p.indexes.getD n 0
    exitIndex := p.indexes.getD (n + 1) 0
    cases := (List.range n).map fun i =>
      { index := p.indexes.getD i 0, next := p.indexes.getD (i + 1) 0,
        chunk := chunkLit keys (enc.getD i []) (p.sliceOps.getD i []) (p.byteChoices.getD i none) } }

end GV.Literals
