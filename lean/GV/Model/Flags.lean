import GV.Gen.FlagTables
import GV.Gen.GoFlags
/-
Model of garble's command-line handling (transformer.go:247-261 splitFlagsFromArgs, main.go:614-650
filterForwardBuildFlags / rejectUnknownBuildFlags, 667-730 flagValue(s) / flagSetValue, 106 rxGarbleFlag,
446-491 the nested go command) and, as the SPEC, the Go `flag` package's parse loop over the go command's own
flag table (`Gen.goFlags`, regenerated from `go help build`, `go help testflag` and cmd/go's source).
Tokens are byte lists (the Go code is byte-based); 45 is '-', 61 is '='.
-/
namespace GV.Flags

abbrev Tok := List UInt8
/-- bytes of a string literal (kernel-reducible) -/
def bstr (s : String) : Tok := s.toList.flatMap String.utf8EncodeChar

def dash (a : Tok) : Bool := a.head? == some 45
def hasEq (a : Tok) : Bool := a.contains 61
/-- `if strings.HasPrefix(arg, "--") { arg = arg[1:] }` -/
def norm : Tok → Tok
  | 45 :: 45 :: r => 45 :: r
  | a => a
/-- `name, _, _ := strings.Cut(arg, "=")` -/
def cutName (a : Tok) : Tok := a.takeWhile (· != 61)

/-! ### garble -/

/-- `splitFlagsFromArgs` -/
def garbleSplit (bools : List Tok) : List Tok → List Tok × List Tok
  | [] => ([], [])
  | [a] => if !dash a then ([], [a]) else ([a], [])
  | a :: v :: rest =>
    if !dash a then ([], a :: v :: rest)
    else if bools.contains (norm a) || hasEq a then
      let r := garbleSplit bools (v :: rest); (a :: r.1, r.2)
    else
      let r := garbleSplit bools rest; (a :: v :: r.1, r.2)

/-- `filterForwardBuildFlags`: the filtered list and the name recorded in `firstUnknown` (the LAST unknown name) -/
def filterForward (fwd : Tok → Bool) (bools : List Tok) : List Tok → List Tok × Option Tok
  | [] => ([], none)
  | [a0] =>
    let a := norm a0
    if fwd (cutName a) then ([a], none) else ([], some (cutName a))
  | a0 :: v :: rest =>
    let a := norm a0
    let name := cutName a
    let ok := fwd name
    if bools.contains a || hasEq a then
      let r := filterForward fwd bools (v :: rest)
      ((if ok then [a] else []) ++ r.1, if r.2.isSome then r.2 else if ok then none else some name)
    else
      let r := filterForward fwd bools rest
      ((if ok then [a, v] else []) ++ r.1, if r.2.isSome then r.2 else if ok then none else some name)

/-- `splitChdirFlag`: the `-C dir` flag (any spelling, at a flag position) and the other tokens in their order -/
def splitChdir (bools : List Tok) : List Tok → List Tok × List Tok
  | [] => ([], [])
  | [a0] => if (bstr "-C=").isPrefixOf (norm a0) then ([a0], []) else ([], [a0])
  | a0 :: v :: rest =>
    let a := norm a0
    if a == bstr "-C" then ([a0, v], rest)
    else if (bstr "-C=").isPrefixOf a then ([a0], v :: rest)
    else if bools.contains a || hasEq a then
      let r := splitChdir bools (v :: rest); (r.1, a0 :: r.2)
    else
      let r := splitChdir bools rest; (r.1, a0 :: v :: r.2)

/-- does `flag.NewFlagSet("", ContinueOnError).Parse([]string{n})` fail?  It does for anything that looks like a
flag (the empty set defines none; `-h`/`-help` give ErrHelp); a non-flag word, `-` and `--` parse fine. -/
def parseFails (n : Tok) : Bool :=
  match n with
  | [45, 45] => false
  | 45 :: _ :: _ => true
  | _ => false

/-- `rejectUnknownBuildFlags`: an error iff the recorded unknown name makes the flag parser fail -/
def rejectUnknown (fwd : Tok → Bool) (bools : List Tok) (flags : List Tok) : Bool :=
  match (filterForward fwd bools flags).2 with
  | some n => parseFails n
  | none => false

/-- `flagValues` / `flagValue`: all values, resp. the last value or "" -/
def flagValues (name : Tok) : List Tok → List Tok
  | [] => []
  | [a] => if (name ++ [61]).isPrefixOf a then [a.drop (name.length + 1)] else []
  | a :: v :: rest =>
    (if (name ++ [61]).isPrefixOf a then [a.drop (name.length + 1)] else []) ++
    (if a == name then [v] else []) ++ flagValues name (v :: rest)

def flagValue (name : Tok) (flags : List Tok) : Tok := (flagValues name flags).getLast?.getD []

/-- `flagSetValue` -/
def flagSetValue (name value : Tok) : List Tok → List Tok
  | [] => [name ++ 61 :: value]
  | [a] =>
    if (name ++ [61]).isPrefixOf a then [name ++ 61 :: value]
    else if a == name then [a]
    else [a, name ++ 61 :: value]
  | a :: v :: rest =>
    if (name ++ [61]).isPrefixOf a then (name ++ 61 :: value) :: v :: rest
    else if a == name then a :: value :: rest
    else a :: flagSetValue name value (v :: rest)

/-- `alterTrimpath` -/
def alterTrimpath (tmp : Tok) (flags : List Tok) : List Tok :=
  flagSetValue (bstr "-trimpath") (tmp ++ bstr "=>;" ++ flagValue (bstr "-trimpath") flags) flags

/-- `splitFlagsFromFiles(all, ext)` -/
def splitFlagsFromFiles (ext : Tok) (all : List Tok) : List Tok × List Tok :=
  let isPath (a : Tok) : Bool := !dash a && ext.isSuffixOf a
  let paths := (all.reverse.takeWhile isPath).reverse
  (all.take (all.length - paths.length), paths)

/-- the anchored own-flag pattern `^--?(?:literals|tiny|debug|debugdir|seed)(?:$|=)` -/
def rxGarbleMatch (own : List Tok) (a : Tok) : Bool :=
  match norm a with
  | 45 :: r => own.any (fun w => w.isPrefixOf r && (match r.drop w.length with | [] => true | c :: _ => c == 61))
  | _ => false

/-- the go arguments assembled by `toolexecCmd` (main.go:446-491) -/
def nestedGoArgs (command : Tok) (fixedFlags : List Tok) (toolexec : Tok) (extra : List Tok) (flags args : List Tok) : List Tok :=
  [command] ++ fixedFlags ++ [toolexec] ++ extra ++ flags ++ args

/-! ### the go command (spec) -/

inductive Kind | nonflag | outside | bad | alone | needsValue
  deriving DecidableEq, Repr

/-- the flag body: the token without its one or two leading dashes (`name := s[numMinuses:]`) -/
def stripDashes : Tok → Tok
  | 45 :: 45 :: r => r
  | 45 :: r => r
  | a => a

/-- one step of Go's `flag.FlagSet.parseOne` for token `a` against the go command's table (`none` = not defined) -/
def classify (tbl : Tok → Option Bool) (a : Tok) : Kind :=
  if !dash a then .nonflag                    -- `len(s) < 2 || s[0] != '-'` (the one-byte "-" is handled next)
  else if a == [45] || a == [45, 45] then .outside
    -- "-": go: a non-flag argument, garble: a flag.  "--": go: terminator.  Outside the property's vectors.
  else
    match stripDashes a with
    | [] => .bad
    | 45 :: _ => .bad                         -- "---x": bad flag syntax
    | 61 :: _ => .bad                         -- "-=x": bad flag syntax
    | body =>
      match tbl (cutName body) with
      | none => .bad                          -- flag provided but not defined
      | some true => .alone                   -- boolean: never consumes the next argument
      | some false => if hasEq body then .alone else .needsValue

/-- Go's split of an argument vector into flags (with their values) and the remaining arguments;
`none` when go itself rejects the vector or it is outside the property's domain -/
def goSplit (tbl : Tok → Option Bool) : List Tok → Option (List Tok × List Tok)
  | [] => some ([], [])
  | [a] =>
    match classify tbl a with
    | .nonflag => some ([], [a])
    | .alone => some ([a], [])
    | _ => none                          -- needsValue at the end: "flag needs an argument"
  | a :: v :: rest =>
    match classify tbl a with
    | .nonflag => some ([], a :: v :: rest)
    | .alone => (goSplit tbl (v :: rest)).map fun r => (a :: r.1, r.2)
    | .needsValue => (goSplit tbl rest).map fun r => (a :: v :: r.1, r.2)
    | _ => none

/-! ### tables -/

def garbleBools : List Tok := GV.Gen.booleanFlags.map bstr
def garbleFwd (name : Tok) : Bool :=
  match GV.Gen.forwardBuildFlags.find? (fun p => bstr p.1 == name) with
  | some (_, b) => b
  | none => false
def goTable (name : Tok) : Option Bool :=
  (GV.Gen.goFlags.find? (fun p => bstr p.1 == name)).map (·.2)
def garbleOwn : List Tok := GV.Gen.garbleOwnFlags.map bstr

end GV.Flags
