import GV.Model.Salt
/-
Abstract model of garble's use of content-addressed caches (GOCACHE through the -V=full tool IDs, GARBLE_CACHE for
the per-package entries): entries are looked up by key; a present entry is either intact or damaged (index or data
file missing / empty / truncated); a damaged entry is a miss.  Also the three derived garble-cache keys.
-/
namespace GV.Cache
open GV.Salt

inductive Entry (V : Type) | ok (v : V) | damaged
  deriving Repr

structure Store (K V : Type) where
  entries : List (K × Entry V)

variable {K V : Type} [DecidableEq K]

def Store.empty : Store K V := ⟨[]⟩

/-- `cache.GetFile`: every error is a miss -/
def Store.get (s : Store K V) (k : K) : Option V :=
  match s.entries.find? (·.1 == k) with
  | some (_, .ok v) => some v
  | _ => none

/-- `cache.PutBytes`: the newest entry shadows older ones -/
def Store.put (s : Store K V) (k : K) (v : V) : Store K V := ⟨(k, .ok v) :: s.entries⟩

inductive Fault (K : Type) | delete (k : K) | damage (k : K) | wipe

def Store.fault (s : Store K V) : Fault K → Store K V
  | .delete k => ⟨s.entries.filter (·.1 != k)⟩
  | .damage k => ⟨s.entries.map fun e => if e.1 == k then (e.1, Entry.damaged) else e⟩
  | .wipe => ⟨[]⟩

/-- one cached computation: load or recompute-and-store -/
def Store.build (s : Store K V) (cold : K → V) (k : K) : V × Store K V :=
  match s.get k with
  | some v => (v, s)
  | none => (cold k, s.put k (cold k))

/-- every entry that can be read back equals what a cold computation for that key gives -/
def Store.Sound (s : Store K V) (cold : K → V) : Prop := ∀ k v, s.get k = some v → v = cold k

inductive Op (K : Type) | build (k : K) | fault (f : Fault K)

/-- a history of builds and faults over one store; returns the outputs of the builds (with their keys) -/
def run (cold : K → V) : Store K V → List (Op K) → List (K × V) × Store K V
  | s, [] => ([], s)
  | s, .build k :: rest =>
    let (v, s') := s.build cold k
    let (outs, s'') := run cold s' rest
    ((k, v) :: outs, s'')
  | s, .fault f :: rest => run cold (s.fault f) rest

/-! ### the derived garble-cache keys (pre-images) -/

def pkgCachePre (gaid : Bytes) (deps : List Bytes) : Bytes := gaid ++ (0 :: str "pkg-cache-deps-v1") ++ [0] ++ deps.flatten
def goAsmPre (gaid : Bytes) : Bytes := gaid ++ (0 :: str "go-asm-names-v1") ++ [0]
def debugPre (gaid : Bytes) (kind : Bytes) : Bytes := gaid ++ (0 :: str "debugdir-cache-v1") ++ [0] ++ kind

end GV.Cache
