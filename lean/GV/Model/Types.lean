/-
A model of go/types types, their identity relation (Go spec "Type identity"; `types.Identical` /
`types.IdenticalIgnoreTags`), substitution of type parameters, and garble's modified struct hasher
(bundled_typeutil.go:69-92 — the only case `hashWithStruct` reaches is *types.Struct).
Mutual inductives keep every recursion structural.
-/
namespace GV.Types

abbrev Bytes := List UInt8

mutual
inductive Ty where
  | basic (kind : Nat)
  | named (pkg name : Bytes) (targs : TyList)        -- a defined type: identity = same declaration + identical type arguments
  | ptr (e : Ty)
  | slice (e : Ty)
  | array (len : Nat) (e : Ty)
  | map (k v : Ty)
  | chan (dir : Nat) (e : Ty)
  | struct (fs : FieldList)
  | func (variadic : Bool) (params results : TyList)
  | iface (nmethods : Nat)                            -- only empty / opaque interfaces are generated
  | tparam (idx : Nat)                                -- a free type parameter (by index in its binder)
  | alias (name : Bytes) (rhs : Ty)                   -- an alias declaration; transparent for identity
inductive TyList where
  | nil
  | cons (t : Ty) (r : TyList)
inductive FieldList where
  | nil
  | cons (name : Bytes) (embedded : Bool) (pkg : Bytes) (exported : Bool) (tag : Bytes) (t : Ty) (r : FieldList)
end

mutual
/-- `types.Unalias`, applied everywhere -/
def unalias : Ty → Ty
  | .basic k => .basic k
  | .named p n ta => .named p n (unaliasList ta)
  | .ptr e => .ptr (unalias e)
  | .slice e => .slice (unalias e)
  | .array l e => .array l (unalias e)
  | .map k v => .map (unalias k) (unalias v)
  | .chan d e => .chan d (unalias e)
  | .struct fs => .struct (unaliasFields fs)
  | .func v ps rs => .func v (unaliasList ps) (unaliasList rs)
  | .iface n => .iface n
  | .tparam i => .tparam i
  | .alias _ r => unalias r
def unaliasList : TyList → TyList
  | .nil => .nil
  | .cons t r => .cons (unalias t) (unaliasList r)
def unaliasFields : FieldList → FieldList
  | .nil => .nil
  | .cons n e p x g t r => .cons n e p x g (unalias t) (unaliasFields r)
end

mutual
/-- Go's type identity on alias-free types; `tags = false` gives `IdenticalIgnoreTags` -/
def identical (tags : Bool) : Ty → Ty → Bool
  | .basic k, .basic k' => k == k'
  | .named p n ta, .named p' n' ta' => p == p' && n == n' && identicalList tags ta ta'
  | .ptr e, .ptr e' => identical tags e e'
  | .slice e, .slice e' => identical tags e e'
  | .array l e, .array l' e' => l == l' && identical tags e e'
  | .map k v, .map k' v' => identical tags k k' && identical tags v v'
  | .chan d e, .chan d' e' => d == d' && identical tags e e'
  | .struct fs, .struct fs' => identicalFields tags fs fs'
  | .func v ps rs, .func v' ps' rs' => v == v' && identicalList tags ps ps' && identicalList tags rs rs'
  | .iface n, .iface n' => n == n'
  | .tparam i, .tparam i' => i == i'
  | _, _ => false
def identicalList (tags : Bool) : TyList → TyList → Bool
  | .nil, .nil => true
  | .cons t r, .cons t' r' => identical tags t t' && identicalList tags r r'
  | _, _ => false
/-- two struct types are identical if they have the same sequence of fields, and corresponding fields have the
same names, identical types, the same embedded-ness (and identical tags); non-exported field names from different
packages are always different -/
def identicalFields (tags : Bool) : FieldList → FieldList → Bool
  | .nil, .nil => true
  | .cons n e p x g t r, .cons n' e' p' x' g' t' r' =>
    n == n' && e == e' && (x || p == p') && (x == x') && (!tags || g == g') &&
    identical tags t t' && identicalFields tags r r'
  | _, _ => false
end

mutual
/-- instantiate type parameters: `σ i` replaces `tparam i` -/
def subst (σ : Nat → Ty) : Ty → Ty
  | .basic k => .basic k
  | .named p n ta => .named p n (substList σ ta)
  | .ptr e => .ptr (subst σ e)
  | .slice e => .slice (subst σ e)
  | .array l e => .array l (subst σ e)
  | .map k v => .map (subst σ k) (subst σ v)
  | .chan d e => .chan d (subst σ e)
  | .struct fs => .struct (substFields σ fs)
  | .func v ps rs => .func v (substList σ ps) (substList σ rs)
  | .iface n => .iface n
  | .tparam i => σ i
  | .alias n r => .alias n (subst σ r)
def substList (σ : Nat → Ty) : TyList → TyList
  | .nil => .nil
  | .cons t r => .cons (subst σ t) (substList σ r)
def substFields (σ : Nat → Ty) : FieldList → FieldList
  | .nil => .nil
  | .cons n e p x g t r => .cons n e p x g (subst σ t) (substFields σ r)
end

/-- `types.Identical` / `types.IdenticalIgnoreTags` -/
def goIdentical (tags : Bool) (a b : Ty) : Bool := identical tags (unalias a) (unalias b)

/-- `typeutil_hashString`: the loop as written (xor then multiply, starting from 0) in uint32 -/
def hashString (s : Bytes) : UInt32 := s.foldl (fun h b => (h ^^^ b.toUInt32) * 16777619) 0

/-- the struct case of garble's hasher, with the running field index -/
def structHashFrom : Nat → FieldList → UInt32 → UInt32
  | _, .nil, h => h
  | i, .cons n e _ _ _ _ r, h =>
    structHashFrom (i + 1) r (h + (if e then 8861 else 0) + (1 + UInt32.ofNat i) * hashString n)

/-- `typeutil_hash(strct)` for a struct type -/
def structSalt (fs : FieldList) : UInt32 := structHashFrom 0 fs 9059

/-- the (name, embedded) skeleton that is all the salt looks at -/
def skeleton : FieldList → List (Bytes × Bool)
  | .nil => []
  | .cons n e _ _ _ _ r => (n, e) :: skeleton r

end GV.Types
