/-
Executable SHA-256 over `List UInt8` / `ByteArray` (core Lean only).
Executed by the driver and by `#eval`/`decide`-free examples; never reasoned about:
the theorems treat the digest as an arbitrary byte list.
-/
namespace GV.Sha256

def K : Array UInt32 := #[
  0x428a2f98, 0x71374491, 0xb5c0fbcf, 0xe9b5dba5, 0x3956c25b, 0x59f111f1, 0x923f82a4, 0xab1c5ed5,
  0xd807aa98, 0x12835b01, 0x243185be, 0x550c7dc3, 0x72be5d74, 0x80deb1fe, 0x9bdc06a7, 0xc19bf174,
  0xe49b69c1, 0xefbe4786, 0x0fc19dc6, 0x240ca1cc, 0x2de92c6f, 0x4a7484aa, 0x5cb0a9dc, 0x76f988da,
  0x983e5152, 0xa831c66d, 0xb00327c8, 0xbf597fc7, 0xc6e00bf3, 0xd5a79147, 0x06ca6351, 0x14292967,
  0x27b70a85, 0x2e1b2138, 0x4d2c6dfc, 0x53380d13, 0x650a7354, 0x766a0abb, 0x81c2c92e, 0x92722c85,
  0xa2bfe8a1, 0xa81a664b, 0xc24b8b70, 0xc76c51a3, 0xd192e819, 0xd6990624, 0xf40e3585, 0x106aa070,
  0x19a4c116, 0x1e376c08, 0x2748774c, 0x34b0bcb5, 0x391c0cb3, 0x4ed8aa4a, 0x5b9cca4f, 0x682e6ff3,
  0x748f82ee, 0x78a5636f, 0x84c87814, 0x8cc70208, 0x90befffa, 0xa4506ceb, 0xbef9a3f7, 0xc67178f2]

def H0 : Array UInt32 := #[
  0x6a09e667, 0xbb67ae85, 0x3c6ef372, 0xa54ff53a, 0x510e527f, 0x9b05688c, 0x1f83d9ab, 0x5be0cd19]

@[inline] def rotr (x : UInt32) (n : UInt32) : UInt32 := (x >>> n) ||| (x <<< (32 - n))

/-- message padding: 0x80, zeros, 64-bit big-endian bit length -/
def pad (msg : ByteArray) : ByteArray := Id.run do
  let len := msg.size
  let mut out := msg.push 0x80
  while out.size % 64 != 56 do
    out := out.push 0
  let bits : UInt64 := (UInt64.ofNat len) * 8
  for i in [0:8] do
    out := out.push ((bits >>> (UInt64.ofNat (8 * (7 - i)))).toUInt8)
  return out

def processBlock (h : Array UInt32) (blk : ByteArray) (off : Nat) : Array UInt32 := Id.run do
  let mut w : Array UInt32 := Array.replicate 64 0
  for t in [0:16] do
    let b0 := (blk.get! (off + 4*t)).toUInt32
    let b1 := (blk.get! (off + 4*t + 1)).toUInt32
    let b2 := (blk.get! (off + 4*t + 2)).toUInt32
    let b3 := (blk.get! (off + 4*t + 3)).toUInt32
    w := w.set! t ((b0 <<< 24) ||| (b1 <<< 16) ||| (b2 <<< 8) ||| b3)
  for t in [16:64] do
    let w15 := w[t-15]!
    let w2 := w[t-2]!
    let s0 := rotr w15 7 ^^^ rotr w15 18 ^^^ (w15 >>> 3)
    let s1 := rotr w2 17 ^^^ rotr w2 19 ^^^ (w2 >>> 10)
    w := w.set! t (w[t-16]! + s0 + w[t-7]! + s1)
  let mut a := h[0]!
  let mut b := h[1]!
  let mut c := h[2]!
  let mut d := h[3]!
  let mut e := h[4]!
  let mut f := h[5]!
  let mut g := h[6]!
  let mut hh := h[7]!
  for t in [0:64] do
    let S1 := rotr e 6 ^^^ rotr e 11 ^^^ rotr e 25
    let ch := (e &&& f) ^^^ ((~~~ e) &&& g)
    let t1 := hh + S1 + ch + K[t]! + w[t]!
    let S0 := rotr a 2 ^^^ rotr a 13 ^^^ rotr a 22
    let maj := (a &&& b) ^^^ (a &&& c) ^^^ (b &&& c)
    let t2 := S0 + maj
    hh := g; g := f; f := e; e := d + t1
    d := c; c := b; b := a; a := t1 + t2
  return #[h[0]! + a, h[1]! + b, h[2]! + c, h[3]! + d, h[4]! + e, h[5]! + f, h[6]! + g, h[7]! + hh]

def sum (msg : ByteArray) : ByteArray := Id.run do
  let p := pad msg
  let mut h := H0
  for i in [0:p.size / 64] do
    h := processBlock h p (64 * i)
  let mut out := ByteArray.empty
  for x in h do
    out := out.push (x >>> 24).toUInt8
    out := out.push (x >>> 16).toUInt8
    out := out.push (x >>> 8).toUInt8
    out := out.push x.toUInt8
  return out

def sumList (msg : List UInt8) : List UInt8 := (sum ⟨msg.toArray⟩).toList

end GV.Sha256
