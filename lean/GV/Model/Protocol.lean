import GV.Gen.Steps
/-
Small-step model of the patched-linker protocol (internal/linker/linker.go PatchLinker + main.go toolexec branch):
any number of garble processes, any interleaving, crashes anywhere.

Per process:   idle → (lock) → checking → [building → built → stamped] → running → (unlock) → done
Shared state:  lock owner, the linker binary (absent / partial / complete for a version), the version stamp.
A crash kills a process at any point; the OS releases its file lock; whatever it left on disk stays.
The stamp records the version AND the binary's size: a partial (truncated) binary never matches a stamp.
-/
namespace GV.Protocol

abbrev Ver := Nat
abbrev Pid := Nat

inductive Bin | absent | part (v : Ver) | complete (v : Ver)
  deriving DecidableEq, Repr

inductive PC | idle | checking | building | built | stamped | running | done | dead
  deriving DecidableEq, Repr

structure State where
  owner : Option Pid
  bin : Bin
  stamp : Option Ver          -- version recorded by a stamp that matches the current complete binary's size
  pc : Pid → PC
  ver : Pid → Ver             -- the (Go version, patches) each process needs

def setPc (s : State) (p : Pid) (c : PC) : State := { s with pc := fun q => if q = p then c else s.pc q }

/-- in the critical section = holding the lock -/
def inCS (c : PC) : Bool := c == .checking || c == .building || c == .built || c == .stamped || c == .running

/-- "stamp matches and the file exists (with the recorded size)" -/
def linkerOK (s : State) (p : Pid) : Bool := s.stamp == some (s.ver p) && s.bin == .complete (s.ver p)

inductive Step : State → State → Prop
  | lock (s p) : s.pc p = .idle → s.owner = none → Step s (setPc { s with owner := some p } p .checking)
  | reuse (s p) : s.pc p = .checking → linkerOK s p = true → Step s (setPc s p .running)
  | startBuild (s p) : s.pc p = .checking → linkerOK s p = false →
      Step s (setPc { s with bin := .part (s.ver p), stamp := none } p .building)
      -- PatchLinker removes the version file and the binary, then go build -o writes the new binary
  | finishBuild (s p) : s.pc p = .building → Step s (setPc { s with bin := .complete (s.ver p) } p .built)
  | writeStamp (s p) : s.pc p = .built → Step s (setPc { s with stamp := some (s.ver p) } p .stamped)
  | toRun (s p) : s.pc p = .stamped → Step s (setPc s p .running)
  | unlock (s p) : s.pc p = .running → Step s (setPc { s with owner := none } p .done)
  | crash (s p) : s.pc p ≠ .dead → s.pc p ≠ .done →
      Step s (setPc { s with owner := if s.owner = some p then none else s.owner } p .dead)

inductive Reach : State → State → Prop
  | refl (s) : Reach s s
  | step {s t u} : Reach s t → Step t u → Reach s u

def initial (ver : Pid → Ver) (bin : Bin) (stamp : Option Ver) : State :=
  { owner := none, bin := bin, stamp := stamp, pc := fun _ => .idle, ver := ver }

/-! ### the stamp file (internal/linker: getCurrentVersion, linkerStamp, checkVersion, writeVersion) -/

abbrev Bytes := List UInt8

def decimal (n : Nat) : Bytes := (toString n).toList.map fun c => c.toNat.toUInt8

/-- `linkerStamp`: "<goVersion> <patchesVer>\n<size of the binary>\n" -/
def stampFor (goVersion patchesVer : Bytes) (size : Nat) : Bytes :=
  goVersion ++ [32] ++ patchesVer ++ [10] ++ decimal size ++ [10]

/-- the decision taken under the lock: `checkVersion(...) && fileExists(...)`; `stamp = none`: no version file,
`binSize = none`: no linker binary -/
def reusable (stamp : Option Bytes) (binSize : Option Nat) (goVersion patchesVer : Bytes) : Bool :=
  match stamp, binSize with
  | some st, some sz => st == stampFor goVersion patchesVer sz
  | _, _ => false

end GV.Protocol
