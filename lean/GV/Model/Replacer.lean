/-
Specification of multi-string replacement as done by `strings.NewReplacer(pairs...).Replace` and by the replacer
garble injects into the binary (`_genericReplacer`, reflect_abi_code.go): scanning left to right, at each position the
FIRST pair (argument order) whose key is a prefix of the rest is applied, matches do not overlap, unmatched bytes are
copied.  Keys are non-empty (names); pairs with an empty key are ignored here.
Also the line-wise driver `reverseContent` (reverse.go:161-190).
-/
namespace GV.Replacer

abbrev Bytes := List UInt8

def firstMatch (pairs : List (Bytes × Bytes)) (s : Bytes) : Option (Bytes × Bytes) :=
  pairs.find? fun p => !p.1.isEmpty && p.1.isPrefixOf s

/-- replacement with explicit fuel (one unit per input byte is enough) -/
def replaceFuel (pairs : List (Bytes × Bytes)) : Nat → Bytes → Bytes
  | 0, s => s
  | _ + 1, [] => []
  | f + 1, c :: r =>
    match firstMatch pairs (c :: r) with
    | some (k, v) => v ++ replaceFuel pairs f ((c :: r).drop k.length)
    | none => c :: replaceFuel pairs f r

def replaceAll (pairs : List (Bytes × Bytes)) (s : Bytes) : Bytes := replaceFuel pairs (s.length + 1) s

/-- split after every '\n' (bufio.Reader.ReadString('\n')); the last piece may lack the newline; an input ending in
'\n' yields a final empty piece, on which Replace is the identity -/
def splitAfterNL : Bytes → List Bytes
  | [] => [[]]
  | c :: r =>
    if c == 10 then [c] :: splitAfterNL r
    else match splitAfterNL r with
      | [] => [[c]]
      | l :: ls => (c :: l) :: ls

/-- `reverseContent`: output and whether anything changed -/
def reverseContent (pairs : List (Bytes × Bytes)) (input : Bytes) : Bytes × Bool :=
  let lines := splitAfterNL input
  let outs := lines.map (replaceAll pairs)
  (outs.flatten, (lines.zip outs).any fun (a, b) => a != b)

end GV.Replacer
