import GV.Model.NameHash
/-
Model of garble's salt derivation: `appendFlags`, `addGarbleToHash` (hash.go:103-163), `hashWithPackage`
(223-234), `runtimeHashWithCustomSalt` (198-221), `seedFlag.Set/String` (main.go:494-531).
The pre-image fed to SHA-256 is a first-class value (`…PreImage`) so that theorems can speak about which
inputs reach the hash.
-/
namespace GV.Salt
open GV.NameHash

abbrev Bytes := List UInt8
def str (s : String) : Bytes := s.toList.flatMap String.utf8EncodeChar  -- kernel-reducible on literals (unlike toUTF8)

/-- garble's own inputs, as the toolexec child sees them -/
structure Cfg where
  literals : Bool := false
  tiny : Bool := false
  debug : Bool := false
  debugDir : Bytes := []
  seed : Bytes := []          -- `flagSeed.bytes`; empty = no -seed
  ctrlflow : Bool := false
  testObf : Bytes := []       -- `literals.TestObfuscator`
  gogarble : Bytes := []
  binaryID : Bytes := []      -- content ID of the garble binary
  xTargets : List Bytes := [] -- sorted, deduplicated `importpath.name` targets of -ldflags=-X (linkerVariableNames)
  deriving Repr, DecidableEq

def seedString (seed : Bytes) : Bytes := GV.Base64.encodeStd seed

/-- byte-wise lexicographic order (Go's string `<`) -/
def bytesLt : Bytes → Bytes → Bool
  | [], [] => false
  | [], _ :: _ => true
  | _ :: _, [] => false
  | a :: as, b :: bs => a < b || (a == b && bytesLt as bs)

def insertSorted (x : Bytes) : List Bytes → List Bytes
  | [] => [x]
  | y :: ys => if x == y then y :: ys else if bytesLt x y then x :: y :: ys else y :: insertSorted x ys

/-- `linkerVariableNames`: the part before '=' of every -X value that has one, sorted and deduplicated -/
def linkerVariableNames (xvals : List Bytes) : List Bytes :=
  (xvals.filterMap fun v => if v.contains 61 then some (v.takeWhile (· != 61)) else none).foldl (fun acc n => insertSorted n acc) []

/-- `appendFlags(w, forBuildHash)` -/
def appendFlags (c : Cfg) (forBuildHash : Bool) : Bytes :=
  (if c.literals then str " -literals" else []) ++
  (if c.tiny then str " -tiny" else []) ++
  (if c.debug && !forBuildHash then str " -debug" else []) ++
  (if !c.debugDir.isEmpty && !forBuildHash then str " -debugdir=" ++ c.debugDir else []) ++
  (if !c.seed.isEmpty then str " -seed=" ++ seedString c.seed else []) ++
  (if c.ctrlflow && forBuildHash then str " -ctrlflow" else []) ++
  (if !c.testObf.isEmpty && forBuildHash then c.testObf else []) ++
  (if c.literals && forBuildHash then (c.xTargets.map fun n => str " -X=" ++ n).flatten else [])

/-- what `addGarbleToHash` writes into the hasher -/
def garblePreImage (c : Cfg) (input : Bytes) : Bytes :=
  input ++ c.binaryID ++ appendFlags c true ++ str " GOGARBLE=" ++ c.gogarble

/-- `addGarbleToHash`; `none` is the "missing binary content ID" panic -/
def addGarbleToHash (c : Cfg) (input : Bytes) : Option Bytes :=
  if c.binaryID.isEmpty then none else some (GV.Sha256.sumList (garblePreImage c input))

/-- salt used for package-scoped names -/
def pkgSalt (c : Cfg) (importPath garbleActionID : Bytes) : Bytes :=
  if c.seed.isEmpty then garbleActionID else importPath ++ str "|"

/-- the bytes hashed by `hashWithCustomSalt` -/
def namePreImage (c : Cfg) (salt name : Bytes) : Bytes := salt ++ c.seed ++ name

/-- `hashWithCustomSalt`; `none` for the two panics (empty salt, empty name) -/
def hashWithCustomSalt (c : Cfg) (salt name : Bytes) (cls : NameClass) : Option Bytes :=
  if salt.isEmpty || name.isEmpty then none
  else some (encodeName (GV.Sha256.sumList (namePreImage c salt name)) cls)

def hashWithPackage (c : Cfg) (importPath garbleActionID name : Bytes) (cls : NameClass) : Option Bytes :=
  hashWithCustomSalt c (pkgSalt c importPath garbleActionID) name cls

/-- pre-image of `runtimeHashWithCustomSalt` -/
def runtimePreImage (c : Cfg) (runtimeActionID salt : Bytes) : Bytes :=
  (if c.seed.isEmpty then runtimeActionID else c.seed) ++ salt

def le32 (b : Bytes) : Nat :=
  (b.getD 0 0).toNat + 256 * (b.getD 1 0).toNat + 65536 * (b.getD 2 0).toNat + 16777216 * (b.getD 3 0).toNat

def runtimeHash (c : Cfg) (runtimeActionID salt : Bytes) : Nat :=
  le32 (GV.Sha256.sumList (runtimePreImage c runtimeActionID salt))

inductive SeedErr | decode | short
  deriving Repr, DecidableEq

def trimRightEq (s : Bytes) : Bytes := (s.reverse.dropWhile (· == 61)).reverse

/-- `seedFlag.Set` for a non-"random" argument -/
def seedSet (s : Bytes) : Except SeedErr Bytes :=
  match GV.Base64.decodeStd (trimRightEq s) with
  | none => .error .decode
  | some seed => if seed.length < 8 then .error .short else .ok seed

/-- salt for struct fields given the struct identity hash (decimal-in-base-32 rendering, `strconv.AppendUint(nil, h, 32)`) -/
def digit32 (d : Nat) : UInt8 := if d < 10 then (48 + d).toUInt8 else (87 + d).toUInt8
def base32DigitsAux : Nat → Nat → Bytes → Bytes
  | 0, _, acc => acc
  | fuel + 1, n, acc => if n < 32 then digit32 n :: acc else base32DigitsAux fuel (n / 32) (digit32 (n % 32) :: acc)
def base32Digits (n : Nat) : Bytes := base32DigitsAux (n + 1) n []

def structSaltBytes (c : Cfg) (typeHash : Nat) : Option Bytes :=
  let salt := base32Digits typeHash
  if c.seed.isEmpty then addGarbleToHash c salt else some salt

end GV.Salt
