/-
Model of the decision logic of garble's control-flow obfuscation (internal/ctrlflow, internal/ssa2ast):

* `randomAlwaysFalseCond` (transform.go): the opaque predicate guarding trash blocks;
* the dispatcher built by `applyFlattening`: keys `perm+1`, an if-chain comparing the dispatcher variable with every
  key in turn, falling through to the real entry block;
* `generateKeys` and the two hardenings (hardening.go): what the emitted store / compare expressions evaluate to;
* the lowering of phi nodes to assignments in the predecessor block (ssa2ast/func.go);
* edge insertion (junk jumps, trash dispatch blocks) on an abstract control-flow graph.

Integers are modelled as `Nat` where the code only xors non-negative values (`Int31`, bytes) and as `Int` for the
comparison of two `Int31` draws.
-/
namespace GV.Ctrlflow

/-! ### opaque predicate -/

inductive Cmp | eql | neq | lss | leq | gtr | geq
  deriving DecidableEq, Repr

def Cmp.eval : Cmp → Int → Int → Bool
  | .eql, a, b => a == b
  | .neq, a, b => a != b
  | .lss, a, b => decide (a < b)
  | .leq, a, b => decide (a ≤ b)
  | .gtr, a, b => decide (a > b)
  | .geq, a, b => decide (a ≥ b)

/-- `tokens` in source order -/
def allCmps : List Cmp := [.eql, .neq, .lss, .leq, .gtr, .geq]

/-- the candidates `randomAlwaysFalseCond` collects: operators that are false on (v1, v2) -/
def falseCandidates (v1 v2 : Int) : List Cmp := allCmps.filter fun t => !t.eval v1 v2

/-- the operator picked by the draw `obfRand.Intn(len(candidates))` -/
def pickCmp (v1 v2 : Int) (draw : Nat) : Option Cmp := (falseCandidates v1 v2)[draw]?

def Cmp.code : Cmp → String
  | .eql => "==" | .neq => "!=" | .lss => "<" | .leq => "<=" | .gtr => ">" | .geq => ">="

def Cmp.ofCode? : String → Option Cmp
  | "==" => some .eql | "!=" => some .neq | "<" => some .lss | "<=" => some .leq | ">" => some .gtr | ">=" => some .geq
  | _ => none

/-! ### dispatcher -/

/-- keys assigned by `applyFlattening`: `obfRand.Perm(n)` with every entry incremented (0 is the real entry) -/
def flattenKeys (perm : List Nat) : List Nat := perm.map (· + 1)

/-- the if-chain: the index of the first key equal to the dispatcher value; `none` = fall through to the real entry -/
def dispatch (keys : List Nat) (v : Nat) : Option Nat :=
  match keys.findIdx? (· == v) with
  | some i => some i
  | none => none

/-! ### key generation and hardening -/

/-- `generateKeys`: consume draws until `count` keys are collected, skipping 0, blacklisted and repeated values.
`none` when the draws run out (the real loop would keep drawing). -/
def generateKeys : (count : Nat) → (black : List Nat) → (draws : List Nat) → (acc : List Nat) → Option (List Nat)
  | 0, _, _, acc => some acc.reverse
  | _ + 1, _, [], _ => none
  | c + 1, black, d :: ds, acc =>
    if d == 0 || black.contains d || acc.contains d then generateKeys (c + 1) black ds acc
    else generateKeys c black ds (d :: acc)
termination_by c _ ds _ => (ds.length, c)
decreasing_by all_goals simp_wf <;> first | exact Prod.Lex.left _ _ (by omega) | omega

def xorBytes (init : Nat) (bs : List Nat) : Nat := bs.foldl (· ^^^ ·) init

/-- xor hardening: what the emitted code holds -/
structure XorH where
  firstKey : Nat
  secondKey : List Nat
  ks : List Nat           -- newKeys

def XorH.globalKey (h : XorH) : Nat := xorBytes h.firstKey h.secondKey
/-- literal written for `CompareVar` -/
def XorH.compare (h : XorH) (i : Nat) : Nat := h.ks[i]! ^^^ h.globalKey
/-- value of the emitted `(localKey ^ k)`, `localKey` being the run-time result of the emitted decryption function
(`r := firstKey; for b in secondKey { r ^= int(b) }`) -/
def XorH.store (h : XorH) (i : Nat) : Nat := xorBytes h.firstKey h.secondKey ^^^ h.ks[i]!

/-- delegate-table hardening -/
structure DelegateH where
  key : List Nat             -- random bytes
  keyIdxs : List Nat         -- delegateKeyIdxs (one per delegate)
  localKeys : List Nat       -- delegateLocalKeys (one per delegate)
  delegateIdx : List Nat     -- per dispatcher entry: which delegate
  ks : List Nat              -- newKeys (per dispatcher entry)

/-- the constant a delegate xors with: `int(key[keyIdxs[d]]) ^ localKeys[d]` -/
def DelegateH.delegateKey (h : DelegateH) (d : Nat) : Nat := h.key[h.keyIdxs[d]!]! ^^^ h.localKeys[d]!
/-- `encryptedKey` literal passed to the delegate -/
def DelegateH.encrypted (h : DelegateH) (i : Nat) : Nat := h.ks[i]! ^^^ h.delegateKey (h.delegateIdx[i]!)
/-- value of the emitted call `table[d](encryptedKey)` = `encryptedKey ^ (int(key[..]) ^ local)` -/
def DelegateH.store (h : DelegateH) (i : Nat) : Nat := h.encrypted i ^^^ h.delegateKey (h.delegateIdx[i]!)
def DelegateH.compare (h : DelegateH) (i : Nat) : Nat := h.ks[i]!

/-! ### phi lowering -/

abbrev Var := Nat
abbrev Env := Var → Int

inductive Operand
  | var (v : Var)
  | const (c : Int)
  deriving DecidableEq, Repr

def Operand.eval (env : Env) : Operand → Int
  | .var v => env v
  | .const c => c

def Env.set (env : Env) (v : Var) (x : Int) : Env := fun w => if w = v then x else env w

/-- SSA semantics of the phi nodes of a block entered from one predecessor: every phi reads the environment as it
was before any of them is written -/
def phiParallel (ps : List (Var × Operand)) (env : Env) : Env :=
  fun w => match ps.find? (·.1 == w) with
    | some p => p.2.eval env
    | none => env w

/-- what garble emitted before the fix: `x = e` statements one after the other -/
def phiSequential (ps : List (Var × Operand)) (env : Env) : Env :=
  ps.foldl (fun e p => e.set p.1 (p.2.eval e)) env

/-- Go's tuple assignment `x1, ..., xn = e1, ..., en`: operands evaluated first, then assigned left to right -/
def tupleAssign (ps : List (Var × Operand)) (env : Env) : Env :=
  let vals := ps.map fun p => (p.1, p.2.eval env)
  vals.foldl (fun e p => e.set p.1 p.2) env

/-! ### edge insertion on an abstract CFG -/

/-- a program over nodes `Nat` and states `σ`: executing a node transforms the state and picks the successor
(`none` = return) -/
structure Prog (σ : Type) where
  exec : Nat → σ → σ
  next : Nat → σ → Option Nat

inductive Steps {σ : Type} (P : Prog σ) : Nat → σ → Nat → σ → Prop
  | refl (n : Nat) (s : σ) : Steps P n s n s
  | step {n m k : Nat} {s t : σ} : P.next n (P.exec n s) = some m → Steps P m (P.exec n s) k t → Steps P n s k t

/-- redirect the edges of node `b` that go to `tgt` through the new node `j`, which does nothing and jumps to `tgt`
(a junk jump; a trash dispatch block whose condition is always false behaves the same) -/
def insertEdge {σ : Type} (P : Prog σ) (b tgt j : Nat) : Prog σ where
  exec n s := if n = j then s else P.exec n s
  next n s :=
    if n = j then some tgt
    else if n = b then (match P.next n s with | some m => if m = tgt then some j else some m | none => none)
    else P.next n s

end GV.Ctrlflow
