/-
Nondeterminism inventory (C03): the classes a site of garble's source can be put in, and the site record the translator
emits (`Gen/Nondet.lean`).  The classification lives in /verif/tools/extract/nondet_expect.json, keyed by
package|function|kind#ordinal and a hash of the statement, so an edited loop body or a new site is `.unclassified`.
-/
namespace GV.Nondet

inductive Class
  /-- the loop only inserts into a set / sets boolean marks: `Props.C03.setBuild_perm` -/
  | setBuild
  /-- elements are collected and then sorted by a total order before use: `collectSort_perm` -/
  | collectSort
  /-- accumulation with a commutative, associative operation: `commutative_perm` -/
  | commutative
  /-- existence test: `anyMatch_perm` -/
  | anyMatch
  /-- each key is handled on its own and writes only its own slot: `perKey_perm` -/
  | perKeyIndependent
  /-- replacer pairs sorted by descending key length; equal-length keys cannot both match: `lengthSorted_replacer` -/
  | lengthSortedReplacer
  /-- profiling, bug reports, `garble map` / `garble reverse` output, debug logging: never runs during a build's data path -/
  | notOnBuildPath
  /-- bytes of cache / temp files, timings, temp-file names that are read back or deleted and never reach the binary -/
  | notInOutput
  /-- order-independence is plausible (monotone propagation to a fixed point) but NOT proved here; sampled by repeated cold builds -/
  | sampledOnly
  /-- the result depends on the iteration order or on an unseeded source: a C03 defect -/
  | orderDependent
  /-- not in the expectation file, or its statement changed since it was classified -/
  | unclassified
  deriving DecidableEq, Repr

structure Site where
  key : String
  kind : String
  cls : Class
  deriving DecidableEq, Repr

end GV.Nondet
