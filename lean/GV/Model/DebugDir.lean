import GV.Gen.Steps
/-
Model of the -debugdir ownership decision (main.go:418-444) and of the clean-up obligations of the top-level commands.
-/
namespace GV.DebugDir

/-- what can be at the -debugdir path (symlinks are followed by ReadDir/Lstat of the sentinel path) -/
inductive Target
  | absent
  | emptyDir
  | dirWith (hasSentinel : Bool) (otherEntries : Nat)    -- a directory with entries; `.garble-debugdir` present or not
  | notADir                                                -- a regular file (ReadDir fails with ENOTDIR)
  deriving DecidableEq, Repr

inductive Decision | create | useEmpty | wipeAndRecreate | refuse
  deriving DecidableEq, Repr

/-- the if/else-if chain of toolexecCmd -/
def decideDir : Target → Decision
  | .absent => .create                                   -- errors.Is(err, fs.ErrNotExist)
  | .emptyDir => .useEmpty                               -- err == nil && len(entries) == 0
  | .dirWith true _ => .wipeAndRecreate                   -- Lstat(sentinel) == nil
  | .dirWith false _ => .refuse                           -- "has unknown contents; empty it first"
  | .notADir => .refuse                                   -- ReadDir error other than not-exist, and no sentinel below a file

/-- does the decision delete anything that was there before? -/
def deletesExisting : Decision → Bool
  | .wipeAndRecreate => true
  | _ => false

end GV.DebugDir
