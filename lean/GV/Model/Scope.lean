import GV.Model.Naming
/-
Model of the GOGARBLE scope decision (cache_shared.go:541-591) and of `module.MatchPrefixPatterns` on the glob
fragment {literal bytes, `*`, `?`} (no character classes, no escapes).
-/
namespace GV.Scope
open GV.Salt GV.Naming

/-- `path.Match` for patterns made of literals, `*` (any run of non-`/`) and `?` (one non-`/`) -/
def globMatch : (fuel : Nat) → Bytes → Bytes → Bool
  | 0, _, _ => false
  | _ + 1, [], s => s.isEmpty
  | f + 1, 42 :: p, s =>                 -- '*'
    globMatch f p s || (match s with
      | c :: r => c != 47 && globMatch f (42 :: p) r
      | [] => false)
  | f + 1, 63 :: p, s =>                 -- '?'
    match s with
    | c :: r => c != 47 && globMatch f p r
    | [] => false
  | f + 1, c :: p, s =>
    match s with
    | d :: r => c == d && globMatch f p r
    | [] => false

def pathMatch (glob s : Bytes) : Bool := globMatch (glob.length + s.length + 1) glob s

def countSlash (s : Bytes) : Nat := (s.filter (· == 47)).length

/-- the first `n+1` path elements of `target` (truncate at the n+1'th slash); `none` when there are too few -/
def prefixElems : Nat → Bytes → Option Bytes
  | n, [] => if n == 0 then some [] else none
  | 0, c :: r => if c == 47 then some [] else (prefixElems 0 r).map (c :: ·)
  | n + 1, c :: r => if c == 47 then (prefixElems n r).map (c :: ·) else (prefixElems (n + 1) r).map (c :: ·)

def splitComma (s : Bytes) : List Bytes :=
  s.foldr (fun c acc => if c == 44 then [] :: acc else match acc with | [] => [[c]] | l :: r => (c :: l) :: r) [[]]

/-- `module.MatchPrefixPatterns(globs, target)` -/
def trimSlash (g : Bytes) : Bytes := if hasSuffix [47] g then g.take (g.length - 1) else g

def matchPrefixPatterns (globs target : Bytes) : Bool :=
  (splitComma globs).any fun glob0 =>
    let glob := trimSlash glob0            -- `strings.TrimSuffix(glob, "/")`
    !glob.isEmpty &&
    match prefixElems (countSlash glob) target with
    | some pre => pathMatch glob pre
    | none => false

structure Listed where
  importPath : Bytes
  name : Bytes
  forTest : Bytes := []
  nGoFiles : Nat

def inList (l : List String) (p : Bytes) : Bool := l.any fun s => str s == p

/-- the path the decision is taken on: "foo_test" and "foo [foo.test]" follow "foo" -/
def decisionPath (p : Listed) : Bytes := if p.forTest.isEmpty then p.importPath else p.forTest

def neverObfuscated (path : Bytes) : Bool :=
  inList GV.Gen.runtimeAndDeps path || path == str "runtime/cgo" || path == str "crypto/internal/fips140" ||
  hasPrefix (str "crypto/internal/fips140/") path

def alwaysObfuscated (p : Listed) (path : Bytes) : Bool :=
  (p.name == str "main" && hasSuffix (str ".test") path) || path == str "command-line-arguments" ||
  hasPrefix (str "plugin/unnamed") path

/-- `pkg.ToObfuscate` as decided while reading `go list` output -/
def toObfuscate (gogarble : Bytes) (p : Listed) : Bool :=
  let path := decisionPath p
  if neverObfuscated path then false
  else if p.nGoFiles == 0 then false
  else alwaysObfuscated p path || matchPrefixPatterns gogarble path

/-- the final check of the top-level listing: an error when nothing is to be obfuscated -/
def nothingMatchesError (gogarble : Bytes) (pkgs : List Listed) : Bool :=
  !(pkgs.any (toObfuscate gogarble)) && !matchPrefixPatterns gogarble (str "runtime")

end GV.Scope
