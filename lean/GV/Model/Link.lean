import GV.Model.Flags
import GV.Model.Naming
/-
Model of what garble does to a link step (transformer.go `transformLink`, `processImportCfg`) and of the
position strings written by `printFile` (position.go).
-/
namespace GV.Link
open GV.Flags GV.Naming GV.Salt GV.NameHash

/-- `strings.Cut(s, sep)` for a one-byte separator -/
def cut1 (sep : UInt8) (s : Bytes) : Option (Bytes × Bytes) :=
  if s.contains sep then some (s.takeWhile (· != sep), (s.dropWhile (· != sep)).drop 1) else none

inductive CfgLine
  | importmap (before after : Bytes)
  | packagefile (path file : Bytes)
  deriving Repr, DecidableEq

/-- one line of an importcfg as `processImportCfg` reads it; `none` for lines it ignores
(empty, comments, unknown verbs such as `modinfo`, malformed) -/
def parseCfgLine (line : Bytes) : Option CfgLine :=
  if line.isEmpty || line.head? == some 35 then none
  else match cut1 32 line with
    | none => none
    | some (verb, args) =>
      if verb == str "importmap" then (cut1 61 args).map fun (b, a) => .importmap b a
      else if verb == str "packagefile" then (cut1 61 args).map fun (p, f) => .packagefile p f
      else none

def splitLines (data : Bytes) : List Bytes :=
  data.foldr (fun c acc => if c == 10 then [] :: acc else match acc with | [] => [[c]] | l :: r => (c :: l) :: r) [[]]

/-- the rewritten importcfg: importmap lines first, then packagefile lines, each re-rendered.
`rewriteMap`/`rewritePkg` are the path rewrites (they need the package listing). -/
def renderCfg (rewriteMap : Bytes → Bytes → Bytes × Bytes) (rewritePkg : Bytes → Bytes) (lines : List CfgLine) : List Bytes :=
  (lines.filterMap fun l => match l with
    | .importmap b a => let (b', a') := rewriteMap b a; some (str "importmap " ++ b' ++ [61] ++ a')
    | _ => none) ++
  (lines.filterMap fun l => match l with
    | .packagefile p f => some (str "packagefile " ++ rewritePkg p ++ [61] ++ f)
    | _ => none)

def processImportCfg (rewriteMap : Bytes → Bytes → Bytes × Bytes) (rewritePkg : Bytes → Bytes) (data : Bytes) : List Bytes :=
  renderCfg rewriteMap rewritePkg ((splitLines data).filterMap parseCfgLine)

/-- the `-X` duplicates appended by `transformLink`; `dup v` is the duplicate for one `-X` value (none: skipped) -/
def xDuplicates (dup : Bytes → Option Bytes) (flags : List Tok) : List Tok :=
  (flagValues (bstr "-X") flags).filterMap fun v => (dup v).map fun d => bstr "-X=" ++ d

/-- `transformLink` on the flag part of the command line -/
def transformLinkFlags (dup : Bytes → Option Bytes) (newImportCfg : Tok) (flags : List Tok) : List Tok :=
  let f1 := flags ++ xDuplicates dup flags
  let f2 := f1 ++ [bstr "-X=runtime.buildVersion=unknown"]
  let f3 := flagSetValue (bstr "-buildid") [] f2
  let f4 := f3 ++ [bstr "-w", bstr "-s"]
  flagSetValue (bstr "-importcfg") newImportCfg f4

/-- position string for a call at `offset` of file `base` (position.go:126-133); empty under -tiny -/
def posString (base : Bytes) (offset : Nat) : Bytes := base ++ [58] ++ (toString offset).toList.map (fun c => c.toNat.toUInt8)

def callPosName (cfg : Cfg) (p : Pkg) (base : Bytes) (offset : Nat) : Option Bytes :=
  if cfg.tiny then some []
  else (hashWithPackage cfg p.path p.gaid (posString base offset) .notIdent).map (· ++ str ".go")

end GV.Link
