import GV.Model.NameHash
/- helper lemmas for Props/C16 -/
namespace GV.NameHash
open GV.Gen GV.Base64

theorem sextets_lt : ∀ (bs : List UInt8), ∀ s ∈ sextets bs, s < 64 := by
  intro bs
  fun_induction sextets bs with
  | case1 a b c rest a' b' c' ih =>
    intro s hs
    simp only [List.mem_cons] at hs
    rcases hs with h | h | h | h | h
    · subst h; exact Nat.mod_lt _ (by decide)
    · subst h; exact Nat.mod_lt _ (by decide)
    · subst h; exact Nat.mod_lt _ (by decide)
    · subst h; exact Nat.mod_lt _ (by decide)
    · exact ih s h
  | case2 a b a' b' =>
    intro s hs
    simp only [List.mem_cons, List.not_mem_nil, or_false] at hs
    rcases hs with h | h | h <;> subst h <;> exact Nat.mod_lt _ (by decide)
  | case3 a a' =>
    intro s hs
    simp only [List.mem_cons, List.not_mem_nil, or_false] at hs
    rcases hs with h | h <;> subst h <;> exact Nat.mod_lt _ (by decide)
  | case4 => intro s hs; cases hs

theorem sextets_length : ∀ (bs : List UInt8), (sextets bs).length = (bs.length * 4 + 2) / 3 := by
  intro bs
  fun_induction sextets bs with
  | case1 a b c rest a' b' c' ih => simp only [List.length_cons, ih]; omega
  | case2 => simp
  | case3 => simp
  | case4 => simp

theorem encode_length (bs : List UInt8) : (encode bs).length = (bs.length * 4 + 2) / 3 := by
  simp [encode, sextets_length]

/-- table facts about the 64 symbols, each checked by kernel evaluation over `Fin 64` -/
theorem sym_rest_ok : ∀ n : Fin 64, isNameChar (fixDash (b64char n.val)) = true := by decide
theorem sym_first_char : ∀ n : Fin 64, ∀ cls, isNameChar (fixFirst cls (b64char n.val)) = true := by
  intro n cls; cases cls <;> revert n <;> decide
theorem sym_first_start : ∀ n : Fin 64, ∀ cls, isNameStart (fixFirst cls (b64char n.val)) = true := by
  intro n cls; cases cls <;> revert n <;> decide
theorem sym_first_exported : ∀ n : Fin 64, isUpper (fixFirst .exported (b64char n.val)) = true := by decide
theorem sym_first_unexported : ∀ n : Fin 64, isUpper (fixFirst .unexported (b64char n.val)) = false := by decide
/-- after the dash fix-up two symbols coincide only if they are equal or are the pair `a`(26) / `-`(62) -/
theorem sym_rest_inj : ∀ m n : Fin 64, fixDash (b64char m.val) = fixDash (b64char n.val) →
    m = n ∨ (m.val = 26 ∧ n.val = 62) ∨ (m.val = 62 ∧ n.val = 26) := by decide

theorem hashLength_bounds (sum : List UInt8) :
    minHashLength ≤ hashLength sum ∧ hashLength sum ≤ maxHashLength := by
  unfold hashLength minHashLength maxHashLength
  have := Nat.mod_lt (sum.getD neededSumBytes 0).toNat (show 0 < 12 - 6 + 1 by decide)
  omega

end GV.NameHash
