import GV.Model.Base64
/- base64 encoding is injective (via the sextet list), and emits no space -/
namespace GV.Base64

theorem u8_eq_of_toNat {a b : UInt8} (h : a.toNat = b.toNat) : a = b := UInt8.toNat_inj.mp h

/-- the sextets determine the bytes -/
theorem sextets_inj : ∀ (xs ys : List UInt8), sextets xs = sextets ys → xs = ys := by
  intro xs
  fun_induction sextets xs with
  | case1 a b c rest a' b' c' ih =>
    intro ys h
    match ys with
    | a2 :: b2 :: c2 :: rest2 =>
      simp only [sextets, List.cons.injEq] at h
      obtain ⟨h1, h2, h3, h4, h5⟩ := h
      have ha := a.toNat_lt; have hb := b.toNat_lt; have hc := c.toNat_lt
      have ha2 := a2.toNat_lt; have hb2 := b2.toNat_lt; have hc2 := c2.toNat_lt
      have ea : a = a2 := u8_eq_of_toNat (by omega)
      have eb : b = b2 := u8_eq_of_toNat (by omega)
      have ec : c = c2 := u8_eq_of_toNat (by omega)
      rw [ea, eb, ec, ih rest2 h5]
    | [a2, b2] => simp [sextets] at h
    | [a2] => simp [sextets] at h
    | [] => simp [sextets] at h
  | case2 a b a' b' =>
    intro ys h
    match ys with
    | a2 :: b2 :: c2 :: rest2 => simp [sextets] at h
    | [a2, b2] =>
      simp only [sextets, List.cons.injEq, and_true] at h
      obtain ⟨h1, h2, h3⟩ := h
      have ha := a.toNat_lt; have hb := b.toNat_lt
      have ha2 := a2.toNat_lt; have hb2 := b2.toNat_lt
      have ea : a = a2 := u8_eq_of_toNat (by omega)
      have eb : b = b2 := u8_eq_of_toNat (by omega)
      rw [ea, eb]
    | [a2] => simp [sextets] at h
    | [] => simp [sextets] at h
  | case3 a a' =>
    intro ys h
    match ys with
    | a2 :: b2 :: c2 :: rest2 => simp [sextets] at h
    | [a2, b2] => simp [sextets] at h
    | [a2] =>
      simp only [sextets, List.cons.injEq, and_true] at h
      obtain ⟨h1, h2⟩ := h
      have ha := a.toNat_lt; have ha2 := a2.toNat_lt
      have ea : a = a2 := u8_eq_of_toNat (by omega)
      rw [ea]
    | [] => simp [sextets] at h
  | case4 =>
    intro ys h
    match ys with
    | a2 :: b2 :: c2 :: rest2 => simp [sextets] at h
    | [a2, b2] => simp [sextets] at h
    | [a2] => simp [sextets] at h
    | [] => rfl

theorem sextets_lt' : ∀ (bs : List UInt8), ∀ s ∈ sextets bs, s < 64 := by
  intro bs
  fun_induction sextets bs with
  | case1 a b c rest a' b' c' ih =>
    intro s hs
    simp only [List.mem_cons] at hs
    rcases hs with h | h | h | h | h
    · subst h; exact Nat.mod_lt _ (by decide)
    · subst h; exact Nat.mod_lt _ (by decide)
    · subst h; exact Nat.mod_lt _ (by decide)
    · subst h; exact Nat.mod_lt _ (by decide)
    · exact ih s h
  | case2 a b a' b' =>
    intro s hs
    simp only [List.mem_cons, List.not_mem_nil, or_false] at hs
    rcases hs with h | h | h <;> subst h <;> exact Nat.mod_lt _ (by decide)
  | case3 a a' =>
    intro s hs
    simp only [List.mem_cons, List.not_mem_nil, or_false] at hs
    rcases hs with h | h <;> subst h <;> exact Nat.mod_lt _ (by decide)
  | case4 => intro s hs; cases hs

theorem b64charStd_inj : ∀ m n : Fin 64, b64charStd m.val = b64charStd n.val → m = n := by decide
theorem b64charStd_no_space : ∀ n : Fin 64, b64charStd n.val ≠ 32 := by decide

theorem map_b64charStd_inj : ∀ (l1 l2 : List Nat), (∀ s ∈ l1, s < 64) → (∀ s ∈ l2, s < 64) →
    l1.map b64charStd = l2.map b64charStd → l1 = l2 := by
  intro l1
  induction l1 with
  | nil => intro l2 _ _ h; cases l2 with
    | nil => rfl
    | cons => simp at h
  | cons a l1 ih =>
    intro l2 h1 h2 h
    cases l2 with
    | nil => simp at h
    | cons b l2 =>
      simp only [List.map_cons, List.cons.injEq] at h
      have e := b64charStd_inj ⟨a, h1 a (by simp)⟩ ⟨b, h2 b (by simp)⟩ h.1
      have e' : a = b := congrArg Fin.val e
      rw [e', ih l2 (fun s hs => h1 s (by simp [hs])) (fun s hs => h2 s (by simp [hs])) h.2]

/-- `base64.RawStdEncoding.EncodeToString` is injective -/
theorem encodeStd_inj (xs ys : List UInt8) (h : encodeStd xs = encodeStd ys) : xs = ys :=
  sextets_inj xs ys (map_b64charStd_inj _ _ (sextets_lt' xs) (sextets_lt' ys) h)

theorem encodeStd_no_space (xs : List UInt8) : (32 : UInt8) ∉ encodeStd xs := by
  intro h
  unfold encodeStd at h
  rw [List.mem_map] at h
  obtain ⟨s, hs, e⟩ := h
  exact b64charStd_no_space ⟨s, sextets_lt' xs s hs⟩ e

end GV.Base64
