import GV.Model.Salt
import GV.Proofs.ListLemmas
import GV.Proofs.Base64
/-
Unique decodability of what `addGarbleToHash` hashes after the two fixed-width IDs:
  flags ++ " GOGARBLE=" ++ gogarble
where flags is a sequence of space-led tokens each starting with `-` and containing no further space.
-/
set_option linter.unusedSimpArgs false
namespace GV.Salt
open GV.ListLemmas GV.Base64

/-- string literals as explicit byte lists (each checked by kernel evaluation) -/
theorem str_lit0 : str "-literals" = [45, 108, 105, 116, 101, 114, 97, 108, 115] := by decide
theorem str_lit1 : str "-tiny" = [45, 116, 105, 110, 121] := by decide
theorem str_lit2 : str "-seed=" = [45, 115, 101, 101, 100, 61] := by decide
theorem str_lit3 : str "-ctrlflow" = [45, 99, 116, 114, 108, 102, 108, 111, 119] := by decide
theorem str_lit4 : str "GOGARBLE=" = [71, 79, 71, 65, 82, 66, 76, 69, 61] := by decide
theorem str_lit5 : str " GOGARBLE=" = [32, 71, 79, 71, 65, 82, 66, 76, 69, 61] := by decide
theorem str_lit6 : str " -literals" = [32, 45, 108, 105, 116, 101, 114, 97, 108, 115] := by decide
theorem str_lit7 : str " -tiny" = [32, 45, 116, 105, 110, 121] := by decide
theorem str_lit8 : str " -seed=" = [32, 45, 115, 101, 101, 100, 61] := by decide
theorem str_lit9 : str " -ctrlflow" = [32, 45, 99, 116, 114, 108, 102, 108, 111, 119] := by decide

/-- the flag tokens (without their leading space) for the build hash, in the order `appendFlags` writes them -/
def baseTokens (c : Cfg) : List Bytes :=
  (if c.literals then [str "-literals"] else []) ++ (if c.tiny then [str "-tiny"] else []) ++
  (if !c.seed.isEmpty then [str "-seed=" ++ seedString c.seed] else []) ++
  (if c.ctrlflow then [str "-ctrlflow"] else [])

/-- the `-X=<target>` tokens written under -literals -/
def xTokens (c : Cfg) : List Bytes := if c.literals then c.xTargets.map (fun n => [45, 88, 61] ++ n) else []

def tokens (c : Cfg) : List Bytes := baseTokens c ++ xTokens c

/-- rendering of a token list followed by the GOGARBLE field, minus the very first space -/
def render : List Bytes → Bytes → Bytes
  | [], g => str "GOGARBLE=" ++ g
  | t :: ts, g => t ++ 32 :: render ts g

def GoodTok (t : Bytes) : Prop := (∃ r, t = 45 :: r) ∧ (32 : UInt8) ∉ t

theorem render_inj : ∀ (ts1 ts2 : List Bytes) (g1 g2 : Bytes), (∀ t ∈ ts1, GoodTok t) → (∀ t ∈ ts2, GoodTok t) →
    render ts1 g1 = render ts2 g2 → ts1 = ts2 ∧ g1 = g2 := by
  intro ts1
  induction ts1 with
  | nil =>
    intro ts2 g1 g2 _ h2 h
    cases ts2 with
    | nil => exact ⟨rfl, List.append_cancel_left h⟩
    | cons t ts2 =>
      obtain ⟨⟨r, hr⟩, _⟩ := h2 t (by simp)
      simp [render, hr, str_lit0, str_lit1, str_lit2, str_lit3, str_lit4, str_lit5, str_lit6, str_lit7, str_lit8, str_lit9] at h
  | cons t ts1 ih =>
    intro ts2 g1 g2 h1 h2 h
    cases ts2 with
    | nil =>
      obtain ⟨⟨r, hr⟩, _⟩ := h1 t (by simp)
      simp [render, hr, str_lit0, str_lit1, str_lit2, str_lit3, str_lit4, str_lit5, str_lit6, str_lit7, str_lit8, str_lit9] at h
    | cons u ts2 =>
      simp only [render] at h
      have := split_at_sep (32 : UInt8) t u _ _ (h1 t (by simp)).2 (h2 u (by simp)).2 h
      have r := ih ts2 g1 g2 (fun x hx => h1 x (by simp [hx])) (fun x hx => h2 x (by simp [hx])) this.2
      exact ⟨by rw [this.1, r.1], r.2⟩

theorem str_x : str " -X=" = [32, 45, 88, 61] := by decide

theorem xflat (l : List Bytes) : (l.map fun n => str " -X=" ++ n).flatten = (l.map fun n => [45, 88, 61] ++ n).flatMap (fun t => 32 :: t) := by
  rw [str_x]
  induction l with
  | nil => rfl
  | cons a l ih =>
    rw [List.map_cons, List.flatten_cons, List.map_cons, List.flatMap_cons, ih]
    rfl

theorem appendFlags_tokens (c : Cfg) (ht : c.testObf = []) :
    appendFlags c true = (tokens c).flatMap (fun t => 32 :: t) := by
  unfold appendFlags tokens xTokens baseTokens
  rw [List.flatMap_append]
  simp only [xflat]
  cases c.literals <;> cases c.tiny <;> cases c.ctrlflow <;> cases h : c.seed.isEmpty <;> simp [ht, h, str_lit0, str_lit1, str_lit2, str_lit3, str_lit4, str_lit5, str_lit6, str_lit7, str_lit8, str_lit9]

theorem flat_render : ∀ (ts : List Bytes) (g : Bytes),
    ts.flatMap (fun t => 32 :: t) ++ (str " GOGARBLE=" ++ g) = 32 :: render ts g := by
  intro ts
  induction ts with
  | nil => intro g; rfl
  | cons t ts ih => intro g; simp only [List.flatMap_cons, List.append_assoc, ih, render]; simp

theorem baseTokens_good (c : Cfg) : ∀ t ∈ baseTokens c, GoodTok t := by
  intro t ht
  unfold baseTokens at ht
  simp only [List.mem_append] at ht
  rcases ht with ((h | h) | h) | h
  · split at h <;> simp at h; subst h; exact ⟨⟨_, rfl⟩, by decide⟩
  · split at h <;> simp at h; subst h; exact ⟨⟨_, rfl⟩, by decide⟩
  · split at h <;> simp at h; subst h
    refine ⟨⟨_, rfl⟩, ?_⟩
    intro hm
    rw [List.mem_append] at hm
    rcases hm with hm | hm
    · exact absurd hm (by decide)
    · exact encodeStd_no_space _ hm
  · split at h <;> simp at h; subst h; exact ⟨⟨_, rfl⟩, by decide⟩

/-- the -X targets contain no space (they are fields of a quoted-split -ldflags value) -/
def XOK (c : Cfg) : Prop := ∀ n ∈ c.xTargets, (32 : UInt8) ∉ n

theorem tokens_good (c : Cfg) (hx : XOK c) : ∀ t ∈ tokens c, GoodTok t := by
  intro t ht
  unfold tokens at ht
  rw [List.mem_append] at ht
  rcases ht with h | h
  · exact baseTokens_good c t h
  · unfold xTokens at h
    split at h
    · rw [List.mem_map] at h
      obtain ⟨n, hn, e⟩ := h
      subst e
      refine ⟨⟨_, rfl⟩, ?_⟩
      intro hm
      simp at hm
      exact hx n hn hm
    · simp at h

def isX (t : Bytes) : Bool := ([45, 88, 61] : Bytes).isPrefixOf t

theorem base_not_x (c : Cfg) : ∀ t ∈ baseTokens c, isX t = false := by
  intro t ht
  unfold baseTokens at ht
  simp only [List.mem_append] at ht
  rcases ht with ((h | h) | h) | h <;> split at h <;> simp at h <;> subst h <;> simp [isX, str_lit0, str_lit1, str_lit2, str_lit3, List.isPrefixOf]

theorem x_is_x (c : Cfg) : ∀ t ∈ xTokens c, isX t = true := by
  intro t ht
  unfold xTokens at ht
  split at ht
  · rw [List.mem_map] at ht; obtain ⟨n, _, e⟩ := ht; subst e; simp [isX, List.isPrefixOf]
  · simp at ht

theorem filter_split (c : Cfg) : (tokens c).filter (fun t => !isX t) = baseTokens c ∧ (tokens c).filter isX = xTokens c := by
  unfold tokens
  rw [List.filter_append, List.filter_append]
  have h1 : (baseTokens c).filter (fun t => !isX t) = baseTokens c := by
    rw [List.filter_eq_self]; intro t ht; simp [base_not_x c t ht]
  have h2 : (xTokens c).filter (fun t => !isX t) = [] := by
    rw [List.filter_eq_nil_iff]; intro t ht; simp [x_is_x c t ht]
  have h3 : (baseTokens c).filter isX = [] := by
    rw [List.filter_eq_nil_iff]; intro t ht; simp [base_not_x c t ht]
  have h4 : (xTokens c).filter isX = xTokens c := by
    rw [List.filter_eq_self]; intro t ht; exact x_is_x c t ht
  simp [h1, h2, h3, h4]

/-- the decoder: which fields a token list denotes -/
def hasTok (ts : List Bytes) (t : Bytes) : Bool := ts.contains t
def seedTok (ts : List Bytes) : Option Bytes := ts.find? (fun t => t.getD 1 0 == 115)

theorem tokens_decode (c : Cfg) :
    hasTok (baseTokens c) (str "-literals") = c.literals ∧ hasTok (baseTokens c) (str "-tiny") = c.tiny ∧
    hasTok (baseTokens c) (str "-ctrlflow") = c.ctrlflow ∧
    seedTok (baseTokens c) = (if c.seed.isEmpty then none else some (str "-seed=" ++ seedString c.seed)) := by
  unfold baseTokens hasTok seedTok
  have e1 : (str "-seed=" ++ seedString c.seed == str "-literals") = false := by
    simp [str_lit0, str_lit1, str_lit2, str_lit3, str_lit4, str_lit5, str_lit6, str_lit7, str_lit8, str_lit9]
  have e2 : (str "-seed=" ++ seedString c.seed == str "-tiny") = false := by
    simp [str_lit0, str_lit1, str_lit2, str_lit3, str_lit4, str_lit5, str_lit6, str_lit7, str_lit8, str_lit9]
  have e3 : (str "-seed=" ++ seedString c.seed == str "-ctrlflow") = false := by
    simp [str_lit0, str_lit1, str_lit2, str_lit3, str_lit4, str_lit5, str_lit6, str_lit7, str_lit8, str_lit9]
  have e4 : ((str "-seed=" ++ seedString c.seed).getD 1 0 == 115) = true := by
    simp [str_lit0, str_lit1, str_lit2, str_lit3, str_lit4, str_lit5, str_lit6, str_lit7, str_lit8, str_lit9]
  cases c.literals <;> cases c.tiny <;> cases c.ctrlflow <;> cases h : c.seed.isEmpty <;>
    simp [h, e1, e2, e3, e4, List.contains_cons, List.find?, str_lit0, str_lit1, str_lit2, str_lit3, str_lit4, str_lit5, str_lit6, str_lit7, str_lit8, str_lit9]

end GV.Salt
