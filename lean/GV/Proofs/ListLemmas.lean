/- small list lemmas shared by several property files (core Lean only) -/
namespace GV.ListLemmas

/-- splitting at the first separator: if neither prefix contains `sep`, equal concatenations have equal prefixes -/
theorem split_at_sep {α : Type} [DecidableEq α] (sep : α) :
    ∀ (p1 p2 r1 r2 : List α), sep ∉ p1 → sep ∉ p2 → p1 ++ sep :: r1 = p2 ++ sep :: r2 → p1 = p2 ∧ r1 = r2 := by
  intro p1
  induction p1 with
  | nil =>
    intro p2 r1 r2 _ h2 h
    cases p2 with
    | nil => simp at h; exact ⟨rfl, h⟩
    | cons b p2 =>
      simp only [List.nil_append, List.cons_append, List.cons.injEq] at h
      exact absurd (by rw [← h.1]; simp) h2
  | cons a p1 ih =>
    intro p2 r1 r2 h1 h2 h
    cases p2 with
    | nil =>
      simp only [List.nil_append, List.cons_append, List.cons.injEq] at h
      exact absurd (by rw [h.1]; simp) h1
    | cons b p2 =>
      simp only [List.cons_append, List.cons.injEq] at h
      have := ih p2 r1 r2 (fun hm => h1 (by simp [hm])) (fun hm => h2 (by simp [hm])) h.2
      exact ⟨by rw [h.1, this.1], this.2⟩

theorem append_left_cancel_of_length {α : Type} :
    ∀ (a b c d : List α), a.length = c.length → a ++ b = c ++ d → a = c ∧ b = d := by
  intro a b c d hl h
  exact List.append_inj h hl

end GV.ListLemmas
