import GV.Model.Flags
/- lemmas about `flagSetValue` / `flagValues` (the helpers garble uses on tool command lines) -/
set_option linter.unusedSimpArgs false
namespace GV.Flags

/-- is `x` somewhere immediately preceded by the bare flag `n`? -/
def adj (n x : Tok) : List Tok → Bool
  | a :: b :: rest => (a == n && b == x) || adj n x (b :: rest)
  | _ => false

/-- `flagSetValue` keeps every argument that is neither `n=…` nor the value following a bare `n` -/
theorem mem_flagSetValue (n v x : Tok) (l : List Tok)
    (hx : x ∈ l) (hp : (n ++ [61]).isPrefixOf x = false) (ha : adj n x l = false) :
    x ∈ flagSetValue n v l := by
  fun_induction flagSetValue n v l with
  | case1 => simp at hx
  | case2 a h => simp at hx; subst hx; simp [hp] at h
  | case3 a h1 h2 => simpa using hx
  | case4 a h1 h2 => simp at hx; simp [hx]
  | case5 a b rest h =>
    simp only [List.mem_cons] at hx ⊢
    rcases hx with hx | hx | hx
    · subst hx; simp [hp] at h
    · right; left; exact hx
    · right; right; exact hx
  | case6 a b rest h1 h2 =>
    simp only [List.mem_cons] at hx ⊢
    simp only [adj, Bool.or_eq_false_iff, Bool.and_eq_false_iff] at ha
    rcases hx with hx | hx | hx
    · left; exact hx
    · subst hx
      have := ha.1
      simp at h2
      simp [h2] at this
    · right; right; exact hx
  | case7 a b rest h1 h2 ih =>
    simp only [List.mem_cons] at hx ⊢
    simp only [adj, Bool.or_eq_false_iff] at ha
    rcases hx with hx | hx
    · left; exact hx
    · right; exact ih (by simpa using hx) ha.2

/-- appending arguments after a list that does not end in the bare flag creates no new adjacency -/
theorem adj_append (n x : Tok) : ∀ (l m : List Tok), adj n x l = false → l.getLast? ≠ some n → adj n x m = false →
    adj n x (l ++ m) = false := by
  intro l
  induction l with
  | nil => intro m _ _ hm; simpa using hm
  | cons a l ih =>
    intro m hl hlast hm
    cases l with
    | nil =>
      simp at hlast
      cases m with
      | nil => simp [adj]
      | cons b m' =>
        simp only [List.cons_append, List.nil_append, adj, Bool.or_eq_false_iff, Bool.and_eq_false_iff]
        exact ⟨Or.inl (by simpa using hlast), hm⟩
    | cons b l' =>
      simp only [adj, Bool.or_eq_false_iff] at hl
      simp only [List.cons_append, adj, Bool.or_eq_false_iff]
      refine ⟨hl.1, ?_⟩
      have := ih m hl.2 (by simpa using hlast) hm
      simpa using this

end GV.Flags

namespace GV.Flags

theorem adj_false_of_not_mem (n x : Tok) : ∀ (m : List Tok), n ∉ m → adj n x m = false := by
  intro m
  induction m with
  | nil => intro _; rfl
  | cons a m ih =>
    intro h
    cases m with
    | nil => rfl
    | cons b m' =>
      simp only [List.mem_cons, not_or] at h
      simp only [adj, Bool.or_eq_false_iff, Bool.and_eq_false_iff]
      refine ⟨Or.inl (by simpa using fun e => h.1 e.symm), ?_⟩
      exact ih (by simp only [List.mem_cons, not_or]; exact h.2)

/-- the last argument after `flagSetValue`: unchanged, the appended `n=v`, or the value `v` written after a bare `n` -/
theorem getLast_flagSetValue (n v : Tok) (l : List Tok) :
    (flagSetValue n v l).getLast? = l.getLast? ∨ (flagSetValue n v l).getLast? = some (n ++ 61 :: v) ∨
    (flagSetValue n v l).getLast? = some v := by
  fun_induction flagSetValue n v l with
  | case1 => right; left; rfl
  | case2 a h => right; left; rfl
  | case3 a h1 h2 => left; rfl
  | case4 a h1 h2 => right; left; simp
  | case5 a b rest h => left; simp [List.getLast?_cons_cons]
  | case6 a b rest h1 h2 =>
    cases rest with
    | nil => right; right; simp
    | cons c r => left; simp [List.getLast?_cons_cons]
  | case7 a b rest h1 h2 ih =>
    have hne : flagSetValue n v (b :: rest) ≠ [] := by
      unfold flagSetValue
      cases rest <;> (repeat' split) <;> simp
    cases hfs : flagSetValue n v (b :: rest) with
    | nil => exact absurd hfs hne
    | cons c r =>
      rw [hfs] at ih
      simp only [List.getLast?_cons_cons]
      exact ih

/-- `flagSetValue n v` creates no adjacency `(n', x)` that was not there, unless it writes `x` or `n'` itself -/
theorem adj_flagSetValue (n v n' x : Tok) (l : List Tok)
    (h0 : adj n' x l = false) (h1 : v ≠ x) (h2 : n ++ 61 :: v ≠ x) (h3 : v ≠ n') (h4 : n ++ 61 :: v ≠ n') :
    adj n' x (flagSetValue n v l) = false := by
  fun_induction flagSetValue n v l with
  | case1 => rfl
  | case2 a h => rfl
  | case3 a h1' h2' => rfl
  | case4 a h1' h2' =>
    simp only [adj, Bool.or_eq_false_iff, Bool.and_eq_false_iff]
    exact ⟨Or.inr (by simpa using h2), trivial⟩
  | case5 a b rest h =>
    simp only [adj, Bool.or_eq_false_iff, Bool.and_eq_false_iff] at h0 ⊢
    exact ⟨Or.inl (by simpa using h4), h0.2⟩
  | case6 a b rest h1' h2' =>
    simp only [adj, Bool.or_eq_false_iff, Bool.and_eq_false_iff] at h0 ⊢
    refine ⟨Or.inr (by simpa using h1), ?_⟩
    cases rest with
    | nil => rfl
    | cons c r =>
      simp only [adj, Bool.or_eq_false_iff, Bool.and_eq_false_iff] at h0 ⊢
      exact ⟨Or.inl (by simpa using h3), h0.2.2⟩
  | case7 a b rest h1' h2' ih =>
    simp only [adj, Bool.or_eq_false_iff] at h0
    have ih' := ih h0.2
    cases hfs : flagSetValue n v (b :: rest) with
    | nil => rfl
    | cons c r =>
      rw [hfs] at ih'
      simp only [adj, Bool.or_eq_false_iff, Bool.and_eq_false_iff]
      refine ⟨?_, ih'⟩
      -- the head of the recursive result is `b` or `n=v`
      have hc : c = b ∨ c = n ++ 61 :: v := by
        unfold flagSetValue at hfs
        cases rest with
        | nil =>
          simp only at hfs
          split at hfs
          · simp at hfs; right; exact hfs.1.symm
          · split at hfs <;> simp at hfs <;> left <;> exact hfs.1.symm
        | cons d r' =>
          simp only at hfs
          split at hfs
          · simp at hfs; right; exact hfs.1.symm
          · split at hfs <;> simp at hfs <;> left <;> exact hfs.1.symm
      rcases hc with hc | hc
      · subst hc; exact Bool.and_eq_false_iff.mp h0.1
      · subst hc; exact Or.inr (by simpa using h2)

end GV.Flags
