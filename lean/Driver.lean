import GV.Model.Salt
/-
gvdriver: reads the oracle's operation lines on stdin and answers each with the model's result, in the
oracle's output format.  Core-only (links as a native executable).
-/
open GV GV.Salt GV.NameHash

def hexDigit (n : Nat) : Char := if n < 10 then Char.ofNat (48 + n) else Char.ofNat (87 + n)
def toHex (b : List UInt8) : String :=
  if b.isEmpty then "-" else String.ofList (b.flatMap fun x => [hexDigit (x.toNat / 16), hexDigit (x.toNat % 16)])
def hexVal (c : Char) : Nat :=
  if '0' ≤ c ∧ c ≤ '9' then c.toNat - 48 else if 'a' ≤ c ∧ c ≤ 'f' then c.toNat - 87 else 0
def unhex (s : String) : List UInt8 :=
  if s == "-" then [] else
  let rec go : List Char → List UInt8
    | a :: b :: rest => (hexVal a * 16 + hexVal b).toUInt8 :: go rest
    | _ => []
  go s.toList
def clsOf (s : String) : NameClass := if s == "1" then .exported else if s == "2" then .unexported else .notIdent
def optHex : Option (List UInt8) → String
  | some b => toHex b
  | none => "!panic"

structure St where
  cfg : Cfg := {}
  pkgs : List (List UInt8 × List UInt8) := []

def step (st : St) (line : String) : St × String :=
  match line.splitOn " " with
  | ["seed", s] => ({ st with cfg := { st.cfg with seed := unhex s } }, "ok")
  | ["seedset", s] =>
    match seedSet (unhex s) with
    | .ok b => (st, s!"ok {toHex b} {toHex (seedString b)}")
    | .error .decode => (st, "err decode")
    | .error .short => (st, "err short")
  | ["cfg", l, t, d, dd, cf, tob, gg, bid] =>
    let c : Cfg := { seed := st.cfg.seed, literals := (l == "1"), tiny := (t == "1"), debug := (d == "1"),
                     debugDir := unhex dd, ctrlflow := (cf == "1"), testObf := unhex tob,
                     gogarble := unhex gg, binaryID := unhex bid }
    ({ st with cfg := c }, "ok")
  | ["pkg", p, g] => ({ st with pkgs := (unhex p, (unhex g ++ List.replicate 32 0).take 32) :: st.pkgs.filter (·.1 != unhex p) }, "ok")
  | ["hash", salt, name, cls] => (st, optHex (hashWithCustomSalt st.cfg (unhex salt) (unhex name) (clsOf cls)))
  | ["hpkg", p, name, cls] =>
    match st.pkgs.find? (·.1 == unhex p) with
    | some (path, gaid) => (st, optHex (hashWithPackage st.cfg path gaid (unhex name) (clsOf cls)))
    | none => (st, "!nopkg")
  | ["gaction", inp] => (st, optHex (addGarbleToHash st.cfg (unhex inp)))
  | ["flags", f] => (st, toHex (appendFlags st.cfg (f == "1")))
  | ["magic"] =>
    match st.pkgs.find? (·.1 == str "runtime") with
    | some (_, g) => (st, toString (runtimeHash st.cfg g (str "magic")))
    | none => (st, if st.cfg.seed.isEmpty then "!panic" else toString (runtimeHash st.cfg [] (str "magic")))
  | ["entryoff"] =>
    match st.pkgs.find? (·.1 == str "runtime") with
    | some (_, g) => (st, toString (runtimeHash st.cfg g (str "entryOffKey")))
    | none => (st, if st.cfg.seed.isEmpty then "!panic" else toString (runtimeHash st.cfg [] (str "entryOffKey")))
  | ["encbuildid", h] => (st, toHex (GV.Base64.encode (((unhex h) ++ List.replicate 32 0).take GV.Gen.buildIDHashLength)))
  | ["decbuildid", s] =>
    match GV.Base64.decode (unhex s) with
    | some b => (st, if b.length == GV.Gen.buildIDHashLength then toHex b else "!panic")
    | none => (st, "!panic")
  | op :: _ => (st, s!"!unknown-op {op}")
  | [] => (st, "!unknown-op")

partial def loop (h : IO.FS.Stream) (out : IO.FS.Stream) (st : St) : IO Unit := do
  let line ← h.getLine
  if line.isEmpty then return ()
  let l := String.ofList (line.toList.reverse.dropWhile (fun c => c == '\n' || c == '\r')).reverse
  if l.isEmpty || l.startsWith "#" then loop h out st
  else
    let (st', o) := step st l
    out.putStrLn o
    loop h out st'

def main : IO Unit := do
  let out ← IO.getStdout
  loop (← IO.getStdin) out {}
