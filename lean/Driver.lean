import GV.Driver.HashOps
import GV.Driver.FlagOps
import GV.Driver.TypeOps
import GV.Driver.NamingOps
import GV.Driver.LinkOps
import GV.Driver.ScopeOps
import GV.Driver.LitOps
import GV.Driver.ReplOps
import GV.Driver.CfOps
/-
gvdriver: reads the oracle's operation lines on stdin and answers each with the model's result, in the
oracle's output format.  Core-only (links as a native executable).
-/
open GV.Driver

def handlers : List Handler := [hashOps, flagOps, typeOps, namingOps, linkOps, scopeOps, litOps, replOps, cfOps]

def step (st : St) (line : String) : St × String :=
  let f := line.splitOn " "
  match handlers.findSome? (fun h => h st f) with
  | some r => r
  | none => (st, s!"!unknown-op {f.headD ""}")

partial def loop (h : IO.FS.Stream) (out : IO.FS.Stream) (st : St) : IO Unit := do
  let line ← h.getLine
  if line.isEmpty then return ()
  let l := String.ofList (line.toList.reverse.dropWhile (fun c => c == '\n' || c == '\r')).reverse
  if l.isEmpty || l.startsWith "#" then loop h out st
  else
    let (st', o) := step st l
    out.putStrLn o
    loop h out st'

def main : IO Unit := do
  let out ← IO.getStdout
  loop (← IO.getStdin) out {}
